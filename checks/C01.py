"""C01 — no API call sequence, on any deployed schema, crashes, hangs or corrupts memory."""
import os, sys, json, re, shutil, subprocess, random, time
from concurrent.futures import ThreadPoolExecutor
import vlib
from checks import session_common as sc, c01_common as c1

META = {
    "technique": "Lean 4 theorems over generated API guard/ownership tables and the session model's partial operations + sanitizer fuzzing (support)",
    "level": "proof",
    "level_text": ("PARTIAL. Theorems C01.api_total (every API function taking a session id checks session / context / out-parameters "
                   "before use: table regenerated from rime_api_impl.h, dominance proved once, facts re-checked by the kernel), "
                   "free_once(_generated) (every get/free pair deletes exactly what it allocated, once, and clears), and "
                   "no_partial_op_fails(_concrete): in every state reachable by ANY finite API call sequence of the session model, the "
                   "std::string erase/insert/operator[] calls of the context, the candidate dereferences and page divisions meet their "
                   "C++ preconditions; geometry_reachable(_concrete), substr_in_range, slices_tile_input: in every reachable state the "
                   "segments of the composition tile a prefix of its input (first starts at 0, each starts where the previous ends, "
                   "start <= end <= |input|), so every input_.substr(seg.start, seg.end - seg.start) of Composition::GetCommitText / "
                   "GetPreedit / GetScriptText / GetDebugText and ConcreteEngine::TranslateSegments is in range and unclipped; "
                   "segmentation_loop_terminates, compose_loop_terminates, reachable_loop_terminates: the while loop of "
                   "ConcreteEngine::CalculateSegmentation (abc + fallback segmentors) has a fuel-free big-step semantics, started on any "
                   "contiguous composition it exits after finitely many rounds (each continuing round moves the current start strictly "
                   "right, below |input|) with a unique result satisfying the loop's exit condition, and the model's fuel |input|+2 never "
                   "cuts a run short. Everything outside the model is exercised only by ASan+UBSan runs: boundary-value API fuzzing "
                   "(whole int range keys/masks, size_t indices, dead and never-issued ids, double frees, watchdog) and every node of a "
                   "stock-like schema and of default.yaml type-mutated (10 kinds) and driven by a fixed history."),
    "level_note": ("Trusted: Lean kernel; translators gen/c01_api.py (regex walk of straight-line guards; positive `if (v) {…}` scopes are "
                   "treated as locally safe by the translator) and gen/keymaps.py; the session model's tie is C02's correspondence. NOT "
                   "proved: memory safety / exception safety / termination of unmodelled code (translators, OpenCC, regex, switcher, "
                   "component constructors) — runtime-only, found by the sanitizer runs, which are a search, not a proof. The geometric "
                   "theorems ASSUME TranslateGeo of the translators (a candidate produced for a segment ends at or after the segment's "
                   "start; needed because Segment::Close moves the segment's end to the selected candidate's end): not proved of the real "
                   "translators, monitored on every observation of the session harness and of the stock-component schema (candidate "
                   "ends printed by the harness are > 0 and <= |input|, session_common.cand_ends). The substr calls of GetPreedit / "
                   "GetScriptText whose position is the previous segment's selected candidate's end() rather than seg.start are covered "
                   "only when that candidate ends where its segment ends (no upper bound on candidate ends is an invariant: a closed "
                   "segment keeps its old menu). Loop termination is proved for the modelled segmentors (abc_segmentor, "
                   "fallback_segmentor); other segmentors (punct, matcher, ascii, affix) are runtime-only. The geometric theorems also "
                   "ASSUME NoPrevMatch (auto_select off, or a max_code_length set): for auto_select schemas without a code-length bound "
                   "Speller::AutoSelectPreviousMatch pushes back a copied segment without comparing positions; the model follows it and "
                   "agrees with the code (schemas vs_auto / vs_autof) including the whole segment list, and the geometric invariant is monitored on the "
                   "implementation's own segment list for every schema (session_common.seg_geometry). The hypothesis cannot be dropped: "
                   "C01.geometry_fails_prev_match_punct / _raw exhibit schemas and keys (auto_select, no max_code_length, a punctuation key with "
                   "alternatives, then a letter without candidates) on which the copy does NOT fit — the punctuation segment is there twice; librime "
                   "does the same (schemas vs_autop / vs_autopx, where the monitor checks the bounds only). Proved for every schema: "
                   "C01.find_earlier_match_geometry, C01.speller_key_geometry_aligned (the reuse branch keeps the invariant whenever it pushes the "
                   "saved segment back where the popped one started), C01.prev_match_same_start_aligned (comparing the two starts would suffice). The recursion of "
                   "FindEarlierMatch is modelled with fuel |input|+1; that the fuel is never what stops it is not proved. The key binder's re-entrant "
                   "ProcessKey is modelled WITHOUT fuel (the redirecting_ flag makes the nested chain the chain minus the binder: "
                   "C02.keybinder_nested_chain); the geometric invariant is proved through it (C01.geometry_reachable_keybinder) and "
                   "ReinterpretPagingKey's partial operations are in range (C01.keybinder_reinterpret_in_range); an exception escaping the nested "
                   "ProcessKey would leave redirecting_ set (the binder dead for the session): not a crash, runtime-only. Ascii composer: the geometric "
                   "invariant for every timed history (C01.geometry_reachable_timed), its PushInput within the input (C01.ascii_pushinput_in_range); its "
                   "`(char)ch` narrowing for ch = 0x7f and islower/toupper on int keycodes are covered by the sanitizer runs only."),
    "design_ref": "DESIGN.md §3 C01",
}

WORKERS = 12


def frame_of(out):
    for m in re.finditer(r"#\d+ \S+ in (.+?) (/\S+?):(\d+)", out):
        if "/src/" in m.group(2) and "/harness/" not in m.group(2):
            return "%s@%s" % (m.group(1).split("(")[0].replace(" ", ""), m.group(2).split("/src/", 1)[1])
    if "TIMEOUT" in out:
        return "timeout"
    if "TERMINATE" in out:
        return "escaped-exception"
    return "abort"


def run_script(exe, d, lines, timeout=120):
    p = os.path.join(d, "s.script")
    with open(p, "w") as f:
        f.write("\n".join(lines) + "\n")
    rc, out = vlib.sh([exe, "run", d, p, str(timeout)], env=vlib.SAN_ENV, timeout=timeout + 60)
    done = re.search(r"^finalized$", out, re.M) is not None
    return (0 if (rc == 0 and done) else (rc or 1)), out


def run(c):
    quick = c.tier == "quick"
    n_fuzz, len_fuzz, n_mut = (160, 300, 260) if quick else (3000, 600, 10 ** 9)
    # G
    genout = {}
    rc, out = vlib.sh([sys.executable, os.path.join(vlib.ROOT, "gen", "c01_api.py"), vlib.REPO,
                       os.path.join(vlib.LEAN, "RimeModel", "Gen", "ApiGuards.lean")])
    gen_fail = None
    if rc != 0:
        gen_fail = "gen/c01_api.py failed: " + out[-400:]
    else:
        genout = json.loads(out[out.index("{"):])
    rc, out = vlib.sh([sys.executable, os.path.join(vlib.ROOT, "gen", "keymaps.py"), vlib.REPO,
                       os.path.join(vlib.LEAN, "RimeModel", "Gen", "Keymaps.lean")])
    if rc != 0:
        gen_fail = (gen_fail or "") + " gen/keymaps.py failed: " + out[-400:]
    # P
    audit = vlib.lean_audit("C01", extra_mods=("RimeModel.Props.C01History",))
    if gen_fail:
        audit["ok"] = False
        audit["failures"].append(("translator", gen_fail))
    if not quick and audit["ok"]:
        ok, log = vlib.leanchecker("RimeModel.Props.C01")
        if not ok:
            audit["ok"] = False
            audit["failures"].append(("RimeModel.Props.C01", "leanchecker: " + log))
    # B
    exe, bdir = vlib.build_harness("c01_harness", "san", ["c01_harness.cc"])
    base = c1.make_full_workspace(os.path.join(c.work, "base"))
    # deploy once so that copies start from a built workspace
    run_script(exe, base, ["new"], 120)
    stats = {"fuzz_histories": 0, "fuzz_ops": 0, "mutants": 0, "crashes": 0, "kinds": {}, "samples": [], "nontrivial": 0}
    seed0 = c.seed

    # ---- (1) API fuzz
    def fuzz_job(i):
        rng = random.Random(seed0 * 1000003 + i)
        d = os.path.join(c.work, "f%d" % i)
        shutil.copytree(base, d)
        sid = rng.choice(["vs_full", "vs_full", "vs_script"])
        rows = sc.gen_table(rng, "abc")
        ops = ["new", "schema " + sid] + c1.gen_fuzz(rng, "nihaomzgxa" if sid == "vs_full" else "abc", len_fuzz)
        rc, out = run_script(exe, d, sc.table_lines(rows) + ops)
        shutil.rmtree(d, ignore_errors=True)
        return i, sid, rows, ops, rc, out

    # directed histories run through the same job: inputs of many segments around the size of the engine's bounded histories
    directed = c1.long_input_histories()
    if quick:
        directed = [directed[k] for k in sorted(c.rng.sample(range(len(directed)), 60))] + [h for h in directed if h[1][2].endswith(" " + "6131" * 25) and h[1][4] == "commit"][:2]
    stats["directed_long_inputs"] = len(directed)

    def directed_job(k):
        sid, ops = directed[k]
        d = os.path.join(c.work, "dl%d" % k)
        shutil.copytree(base, d)
        rows = [("a", "啊", "", ""), ("a", "阿", "", ""), ("ab", "阿爸", "", ""), ("b", "吧", "", "")]
        rc, out = run_script(exe, d, sc.table_lines(rows) + ops)
        shutil.rmtree(d, ignore_errors=True)
        return k, sid, rows, ops, rc, out

    crashes = []
    with ThreadPoolExecutor(WORKERS) as ex:
        for i, sid, rows, ops, rc, out in list(ex.map(fuzz_job, range(n_fuzz))) + list(ex.map(directed_job, range(len(directed)))):
            stats["fuzz_histories"] += 1
            stats["fuzz_ops"] += len(ops)
            for o in ops:
                k = o.split(" ")[0]
                stats["kinds"][k] = stats["kinds"].get(k, 0) + 1
            if len(stats["samples"]) < 2:
                stats["samples"].append({"schema": sid, "ops": ops[:14]})
            if rc != 0:
                crashes.append((sid, rows, ops, out))
    seen = set()
    for sid, rows, ops, out in crashes:
        fr = frame_of(out)
        stats["crashes"] += 1
        if fr in seen:
            continue
        seen.add(fr)
        nrun = len(re.findall(r"^@\d+ ", out, re.M))
        ops = ops[:max(nrun, 2)]
        d = os.path.join(c.work, "shrink")

        def crashes_with(t):
            shutil.rmtree(d, ignore_errors=True)
            shutil.copytree(base, d)
            rc2, out2 = run_script(exe, d, sc.table_lines(rows) + t)
            return rc2 != 0 and frame_of(out2) == fr
        small = sc.ddmin(ops, crashes_with, budget=40) if crashes_with(ops) else ops
        c.report("C01:crash:%s" % fr, "API history crashes / trips a sanitizer / hangs in %s on %s" % (fr, sid),
                 {"kind": "impl-violation", "mode": "fuzz", "schema": sid, "table": rows, "ops": small, "log": out[-2500:]})

    # ---- (1a') the commit history: the real CommitHistory and its port (RimeModel/C01/History.lean) on the same call sequences,
    # state compared after every call, AddressSanitizer watching the record pointer of Push(composition)
    hexe, _ = vlib.build_harness("hist_harness", "san", ["hist_harness.cc"])
    rc_l, out_l = vlib.lake_build(["driver_hist"])
    hops = c1.history_directed() + c1.gen_history_ops(random.Random(seed0 * 7919 + 5), 1500 if quick else 30000)
    hp = os.path.join(c.work, "hist.ops")
    with open(hp, "w") as f:
        f.write("\n".join(hops) + "\n")
    rc_h, out_h = vlib.sh([hexe, hp], env=vlib.SAN_ENV, timeout=1200)
    model_lines = vlib.run_driver("driver_hist", "\n".join(hops) + "\n").splitlines() if rc_l == 0 else []
    impl_lines = [l for l in out_h.splitlines() if l.startswith(("repr=", "bad-op"))]
    stats["history_ops"] = len(hops)
    stats["history_compositions_rotating"] = sum(1 for o in hops if o.startswith("comp ") and o.count(";") >= 20)
    hdiff = None
    for k, o in enumerate(hops):
        il = impl_lines[k] if k < len(impl_lines) else "<no output: the process died>"
        ml = model_lines[k] if k < len(model_lines) else "<no model output>"
        if il != ml:
            hdiff = (k, o, il, ml)
            break
    if rc_h != 0 or hdiff:
        stats["crashes"] += 1 if rc_h != 0 else 0
        k = hdiff[0] if hdiff else len(impl_lines)
        # the call sequence since the last reset, shrunk
        start = max([j for j in range(k + 1) if hops[j] == "reset"] or [0])
        seq = hops[start:k + 1]

        def bad(t):
            with open(hp, "w") as f:
                f.write("\n".join(t) + "\n")
            r2, o2 = vlib.sh([hexe, hp], env=vlib.SAN_ENV, timeout=300)
            i2 = [l for l in o2.splitlines() if l.startswith(("repr=", "bad-op"))]
            m2 = vlib.run_driver("driver_hist", "\n".join(t) + "\n").splitlines()
            return r2 != 0 or i2 != m2[:len(t)]
        small = sc.ddmin(seq, bad, budget=60) if bad(seq) else seq
        if rc_h != 0:
            c.report("C01:crash:%s" % frame_of(out_h), "a call sequence on the commit history trips a sanitizer / crashes in %s" % frame_of(out_h),
                     {"kind": "impl-violation", "mode": "history", "ops": small, "log": out_h[-2500:]})
        else:
            c.report("C01:correspondence:commit-history", "the commit history and its model disagree after `%s`: impl %s, model %s" % (hdiff[1][:80], hdiff[2][:200], hdiff[3][:200]),
                     {"kind": "correspondence", "mode": "history", "ops": small, "impl": hdiff[2], "model": hdiff[3]}, no_input=True)

    # ---- (1b) structured histories of the session checks (same generator as C02), crash = C01 violation
    sexe = sc.build()
    sws = sc.make_workspace(os.path.join(c.work, "sws"), list(sc.SCHEMAS))
    hs, rows_for = sc.standard_histories(c, 48 if quick else 400, 120 if quick else 300)
    # besides crashes, the implementation's own segment list is checked against the geometric invariant the substr / loop
    # theorems rest on (a broken invariant without a crash = the property is no longer shown to hold: no-failing-input-found)
    geo = lambda st, op, o: sc.seg_geometry(o, contiguous=not sc.SCHEMAS.get(st.get("sid"), {}).get("dupSegments"))
    sstats = sc.session_check(c, "C01", geo, hs, rows_for, sexe, sws, "segment geometry (the invariant behind substr_in_range)",
                              report_diffs=False, monitor_no_input=True)
    gst = sc.stock_monitor_check(c, "C01", geo, [sc.gen_stock_history(c.rng, 150 if quick else 300) for _ in range(12 if quick else 200)],
                                 sexe, c1.make_full_workspace(os.path.join(c.work, "fws"), user_dict=False),
                                 "segment geometry (the invariant behind substr_in_range)", monitor_no_input=True)
    stats["fuzz_ops"] += gst["stock_ops"]
    stats["crashes"] += gst["stock_crashes"]
    stats["geometry_observations"] = sstats["ops"] + gst["stock_ops"]
    stats["fuzz_histories"] += sstats["histories"]
    stats["fuzz_ops"] += sstats["ops"]
    stats["crashes"] += sstats["crashes"]

    # ---- (1b') the standard editors / navigator / selector with `bindings` sections (checks/C05.py: keys bound to actions, to
    # `noop` — removing a default binding or naming an unbound key —, entries LoadConfig must step over): every key the sections
    # name, in every kind of state; a crash / sanitizer report = C01 violation
    from checks import C05 as c5
    bws = c5.bind_workspace(c, "ws_bind01")
    brows = sc.gen_table(c.rng, "abc")
    stats["bindings_histories"] = 0
    for bsid in sorted(c5.BIND_SCHEMAS):
        bhs = c5.bind_crash_histories(c.rng, bsid, 6 if quick else 80)
        stats["bindings_histories"] += len(bhs)
        script, index = sc.make_script(brows, [(bsid, h) for h in bhs])
        p = os.path.join(c.work, "bind01_%s.script" % bsid)
        with open(p, "w") as f:
            f.write(script)
        rcb, outb = sc.run_impl(sexe, bws, p)
        nb = len([l for l in outb.splitlines() if l.startswith("ret=")])
        stats["fuzz_ops"] += nb
        if rcb != 0 or nb < len(index):
            stats["crashes"] += 1
            hno = index[min(nb, len(index) - 1)][0]
            sc.report_crash(c, "C01", sexe, bws, brows, bsid, list(bhs[hno]), outb, lambda st, op, o: None)

    # ---- (1c) state that outlives one call: every short sequence of mode switches in an open composition, then a change of
    # schema (processors destroyed, notifier connections must be gone), then keys; and the switcher on a one-schema deployment
    grid, n_seq = c1.mode_grid(3 if quick else 4)
    per = 16 * 40          # 40 sessions of 16 lines per chunk
    chunks = [grid[i:i + per] for i in range(0, len(grid), per)]

    def renumber(lines):
        out, k = [], 0
        for l in lines:
            if l.startswith("destroy "):
                out.append("destroy %d" % k)
                k += 1
            else:
                out.append(l)
        return out

    def grid_job(j):
        i, lines = j
        d = os.path.join(c.work, "g%d" % i)
        shutil.copytree(base, d)
        lines = renumber(lines)
        rc, out = run_script(exe, d, lines, 300)
        shutil.rmtree(d, ignore_errors=True)
        return lines, rc, out

    stats["mode_grid_sequences"] = n_seq
    with ThreadPoolExecutor(WORKERS) as ex:
        for lines, rc, out in ex.map(grid_job, enumerate(chunks)):
            stats["fuzz_ops"] += len(lines)
            if rc != 0:
                stats["crashes"] += 1
                fr = frame_of(out)
                nrun = len(re.findall(r"^@\d+ ", out, re.M))
                # the session being executed when the process died, alone
                starts = [k for k, l in enumerate(lines) if l == "new"]
                s0 = max([k for k in starts if k < max(nrun, 1)] or [0])
                one = lines[s0:s0 + 16]
                one = [l if not l.startswith("destroy ") else "destroy 0" for l in one]
                d = os.path.join(c.work, "gshrink")

                def crashes_with(t):
                    shutil.rmtree(d, ignore_errors=True)
                    shutil.copytree(base, d)
                    rc2, out2 = run_script(exe, d, t, 120)
                    return rc2 != 0 and frame_of(out2) == fr
                small = sc.ddmin(one, crashes_with, budget=30) if crashes_with(one) else lines[:max(nrun, 2)]
                c.report("C01:crash:%s" % fr, "mode switches followed by a schema change crash / trip a sanitizer / hang in %s" % fr,
                         {"kind": "impl-violation", "mode": "fuzz", "schema": "vs_full", "table": [], "ops": small, "log": out[-2500:]})
    single = c1.make_single_schema_workspace(os.path.join(c.work, "single"))
    rc, out = run_script(exe, single, c1.short_history("vs_full"), 120)
    stats["fuzz_ops"] += len(c1.short_history("vs_full"))
    stats["single_schema_deployment"] = "ok" if rc == 0 else frame_of(out)
    if rc != 0:
        stats["crashes"] += 1
        fr = frame_of(out)
        nrun = len(re.findall(r"^@\d+ ", out, re.M))
        c.report("C01:crash:%s:single-schema" % fr, "a deployment with one schema in schema_list crashes / hangs in %s" % fr,
                 {"kind": "impl-violation", "mode": "single-schema", "ops": c1.short_history("vs_full")[:max(nrun, 2)], "log": out[-2500:]})

    # ---- (2) malformed schemas: every node type-mutated, one at a time
    jobs = []
    for which in ("vs_full.schema.yaml", "default.yaml"):
        rc, out = vlib.sh([exe, "paths", os.path.join(base, which)], env=vlib.SAN_ENV)
        for l in out.splitlines():
            if " " in l:
                t, p = l.split(" ", 1)
                jobs += [(which, p, k) for k in c1.MUT_KINDS]
    # sibling groups: all children of a short list mutated together (a list whose every alternative is malformed)
    pair_jobs = []
    for which in ("vs_full.schema.yaml", "default.yaml"):
        rc, out = vlib.sh([exe, "paths", os.path.join(base, which)], env=vlib.SAN_ENV)
        kids = {}
        for l in out.splitlines():
            if " " in l:
                t, p = l.split(" ", 1)
                if re.search(r"/@\d+$", p):
                    kids.setdefault(p.rsplit("/", 1)[0], []).append(p)
        for parent, ch in kids.items():
            if 1 <= len(ch) <= 3:
                for k in ("emptymap", "list1", "null", "emptylist"):
                    pair_jobs.append((which, "+".join(ch), k))
    c.rng.shuffle(jobs)
    c.rng.shuffle(pair_jobs)
    total_mutants = len(jobs) + len(pair_jobs)
    # every scalar of the schema emptied and nulled is run in BOTH tiers (the sample below may skip a node in the quick tier;
    # an empty string where the code takes the first character of a configured one is the classic case)
    scal = set()
    rc, out = vlib.sh([exe, "paths", os.path.join(base, "vs_full.schema.yaml")], env=vlib.SAN_ENV)
    for l in out.splitlines():
        if l.startswith("scalar "):
            scal.add(l.split(" ", 1)[1])
    # … and zero: the value a numeric option (page size, code length, limits) must never be taken at face value for
    always = [j for j in jobs if j[0] == "vs_full.schema.yaml" and j[1] in scal and j[2] in ("scalar:", "null", "scalar:0")]
    rest = [j for j in jobs if j not in always]
    jobs = always + rest[:n_mut] + pair_jobs[:(n_mut // 2)]
    hist = c1.short_history("vs_full")

    def mut_job(j):
        i, (which, p, k) = j
        d = os.path.join(c.work, "m%d" % i)
        shutil.copytree(base, d)
        shutil.rmtree(os.path.join(d, "build"), ignore_errors=True)
        srcf = os.path.join(base, which)
        for j, one in enumerate(p.split("+")):      # a sibling group is applied one node after the other
            subprocess.run([exe, "mutate", srcf, os.path.join(d, which) + (".%d" % j), one, k],
                           env=dict(os.environ, **vlib.SAN_ENV), capture_output=True)
            srcf = os.path.join(d, which) + (".%d" % j)
        os.replace(srcf, os.path.join(d, which))
        rc, out = run_script(exe, d, hist, 90)
        shutil.rmtree(d, ignore_errors=True)
        return which, p, k, rc, out

    with ThreadPoolExecutor(WORKERS) as ex:
        for which, p, k, rc, out in ex.map(mut_job, enumerate(jobs)):
            stats["mutants"] += 1
            if rc != 0:
                stats["crashes"] += 1
                fr = frame_of(out)
                c.report("C01:crash:%s:%s" % (fr, re.sub(r"@\d+", "@N", p)),
                         "schema with node %s of %s mutated to %s crashes / hangs in %s" % (p, which, k, fr),
                         {"kind": "impl-violation", "mode": "mutant", "file": which, "path": p, "mutation": k, "ops": hist, "log": out[-2500:]})
    if not audit["ok"] and not c.violations:
        c.report("C01:proof", "proof obligation no longer checks: %s" % "; ".join("%s: %s" % f for f in audit["failures"])[:600],
                 {"kind": "proof", "broken_theorems": audit["failures"], "unguarded_entry_points": genout.get("unguarded"),
                  "lean_log": audit["log"][-3000:]}, no_input=True)
    cov = vlib.proof_cov(audit, "lake build RimeModel.Props.C01 && #print axioms (all theorems) && forbidden-token scan"
                         + ("" if quick else " && leanchecker"),
                         vlib.STD_TRUSTED + ["translators gen/c01_api.py, gen/keymaps.py", "ASan/UBSan runtimes (support for the search only)"])
    cov.update({"evaluations": stats["fuzz_ops"] + stats["mutants"] * len(hist),
                "distinct_nontrivial": stats["fuzz_histories"] + stats["mutants"],
                "rule": "(1) seeded API fuzz histories with boundary values on a stock-like schema (luna_pinyin structure, all stock components, tiny dictionaries) and a synthetic one; (1b) the structured histories of the session checks; (1c) every sequence of at most 3 (quick) / 4 (thorough) mode switches in an open composition followed by a change of schema, and the fixed history on a one-schema deployment; (2) single type-mutations (10 kinds) of every node of the schema and of default.yaml, each deployed and driven by a fixed 90-call history; all under ASan+UBSan with a watchdog; non-trivial = each distinct history / mutant (all are)",
                "samples": stats["samples"], "fuzz_histories": stats["fuzz_histories"], "fuzz_ops": stats["fuzz_ops"],
                "mutants_run": stats["mutants"], "mutants_total": total_mutants, "op_kind_distribution": stats["kinds"],
                "crashes_or_hangs": stats["crashes"], "segment_geometry_observations": stats.get("geometry_observations"), "mode_grid_sequences": stats.get("mode_grid_sequences"),
                "single_schema_deployment": stats.get("single_schema_deployment"), "api_entries_generated": genout.get("entries"),
                "session_functions": genout.get("session_functions"), "free_pairs": genout.get("pairs"),
                "proof_failures": audit["failures"]})
    c.cov = cov
    c.assumptions = ["string arguments are non-null C strings (only session ids, indices, keycodes, masks and documented out-parameters are adversarial)",
                     "one client thread",
                     "TranslateGeo (geometric theorems only): every candidate a translator produces for a segment ends at or after the segment's start",
                     "NoPrevMatch (geometric theorems only): auto_select off or max_code_length set"]


def replay(c, r):
    from checks import C05 as c5
    if r.get("schema") in c5.BIND_SCHEMAS and "ops" in r and not r.get("mode"):
        # a history on a schema with `bindings` sections (session harness, part 1b')
        sexe = sc.build()
        res = sc.eval_history(c, sexe, c5.bind_workspace(c, "ws_bind01"), [tuple(x) for x in r.get("table", [])], r["schema"], r["ops"],
                              lambda st, op, o: None, "rp")
        print("rc=%d" % res["rc"])
        print(res["log"][-1500:])
        return 1 if res["rc"] else 0
    if r.get("schema") in sc.SCHEMAS and "ops" in r and not r.get("mode"):
        return sc.replay_history(c, r, lambda st, op, o: sc.seg_geometry(o, contiguous=not sc.SCHEMAS.get(r["schema"], {}).get("dupSegments")))
    exe, bdir = vlib.build_harness("c01_harness", "san", ["c01_harness.cc"])
    base = c1.make_full_workspace(os.path.join(c.work, "base"))
    if r.get("mode") == "mutant":
        for one in r["path"].split("+"):
            subprocess.run([exe, "mutate", os.path.join(base, r["file"]), os.path.join(base, r["file"]) + ".m", one, r["mutation"]],
                           env=dict(os.environ, **vlib.SAN_ENV))
            os.replace(os.path.join(base, r["file"]) + ".m", os.path.join(base, r["file"]))
        rc, out = run_script(exe, base, r["ops"], 90)
    elif r.get("mode") == "single-schema":
        rc, out = run_script(exe, c1.make_single_schema_workspace(os.path.join(c.work, "single")), r["ops"], 120)
    elif "ops" in r:
        rc, out = run_script(exe, base, sc.table_lines([tuple(x) for x in r.get("table", [])]) + r["ops"])
    else:
        print("replay: this file names a broken obligation:", r.get("what"))
        return 1
    print("rc=%d frame=%s" % (rc, frame_of(out) if rc else "-"))
    print(out[-800:])
    return 1 if rc else 0
