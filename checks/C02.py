"""C02 — the context reported after any call is well-formed."""
import os, sys, json
import vlib
from checks import session_common as sc

META = {
    "technique": "Lean 4 inductive invariant over all API histories of a session model + differential correspondence with the real engine",
    "level": "proof",
    "level_text": ("Theorem C02.wellformed_reachable: for every environment satisfying ComposeSpec (discharged for the concrete "
                   "Compose port with any translation oracle by C02.wellformed_reachable_concrete, and for the Compose with the punctuation "
                   "components by C02.wellformed_reachable_punct, stated over the pair of environments of the full_shape option; for schemas with a key binder "
                   "by C02.wellformed_reachable_keybinder / _keybinder_punct, whatever the binding list and the switches; for schemas with an ascii composer and "
                   "for every timing of the calls by C02.wellformed_reachable_timed; for schemas with recognizer, matcher, affix_segmentor and ascii_segmentor, "
                   "whatever the patterns match, by C02.wellformed_reachable_recognizer) and every finite list of API ops "
                   "from a fresh session, the view (input, caret, preedit, menu) is WellFormed; proved by an inductive invariant over "
                   "every context mutator, processor action (default keymaps regenerated from source) and API op. The model is run "
                   "op-for-op against the real librime on synthetic schemas (same C++ context/engine/processor code) and every "
                   "observation of the implementation is also checked against WellFormed directly."),
    "level_note": ("Trusted: Lean kernel; keymap translator; the hand-written model is tied by differential runs only (bounded by the "
                   "generator). UTF-8 boundary clause: proved for every composition under ASCII input and character-starting candidate texts (C02.preedit_utf8_boundaries), and monitored on the implementation. "
                   "The punctuator is inside the model: processor (Punctuator::ProcessKeyEvent, AlternatePunct, ConfirmUniquePunct, AutoCommitPunct, "
                   "PairPunct with its per-definition oddness; options ascii_punct / full_shape, use_space), punct_segmentor, punct_translator "
                   "(all four kinds of definition, shape labels), the full_shape formatter and post-processor; the invariant is proved for it "
                   "(punctProcess_inv, composeP_spec -> C02.wellformed_reachable_punct / _shaped) and two synthetic schemas (vs_punct, vs_punctf) run "
                   "it op-for-op against the engine. Not modelled there: digit separators (they read the commit history; configured off: "
                   "`digit_separators: \"\"`), punctuator/symbols, a punctuation key that is also a letter of the alphabet. "
                   "The key binder is inside the model: KeyBindings::LoadBindings / Bind (bindings of a key sorted by condition, a later one of the same "
                   "condition first; lookup on the exact keycode + modifier pair), the conditions always / composing / has_menu (off in ascii_mode) / paging "
                   "(`predicting` never holds: no component of the library sets the tag), ReinterpretPagingKey with last_key_, PerformKeyBinding: send / "
                   "send_sequence through a nested ConcreteEngine::ProcessKey (processors + shape post-processor) with the binder disabled (the redirecting_ "
                   "flag: C02.keybinder_nested_chain — one level deep, no fuel), toggle / set_option / unset_option with the Switches lookups (radio groups: "
                   "cycle, select, reset value; @index; an option no switch declares) and ConcreteEngine::InitializeOptions (`reset:`); the invariant is "
                   "proved through the re-entrant chain (kbProcess_inv generic in the nested function, processKeyNested_inv, procRun_inv) and two synthetic "
                   "schemas (vs_kb with punctuator and switches, vs_kbf with the period in the speller's alphabet) run it op-for-op against the engine, the "
                   "observation line now carrying the values of 11 options. Not modelled there: `select:` bindings (schema switching; the driver refuses a "
                   "schema that has one), std::stoul's leniency in `@index` targets, a binding changing full_shape when the key binder is not the first "
                   "processor or full_shape sits in a radio group (refused by the driver). "
                   "The ascii composer is inside the model: AsciiComposer::ProcessKeyEvent (switch keys Shift_L/R, Control_L/R, Eisu_toggle with "
                   "shift_key_pressed_ / ctrl_key_pressed_ and the 500 ms deadline — the steady_clock is a parameter of the model, Ctx.clock, and the "
                   "theorem quantifies over all delays; the harness has a `sleep` op and marks an observation `stall=1` when a release comes >= 450 ms "
                   "after its press without a sleep, such histories are set aside and counted), ProcessCapsLock (toggle_with_caps_, good_old_caps_lock, "
                   "letters with the Lock bit committed with swapped case through the formatter), ToggleAsciiModeWithKey / SwitchAsciiMode with the styles "
                   "inline_ascii / commit_text / commit_code / clear (`noop` entries not loaded, Caps_Lock: inline_ascii -> clear), inline editing and "
                   "direct commit in ascii_mode; two synthetic schemas (vs_ac: ascii composer + key binder + punctuator, vs_acf: good_old_caps_lock, "
                   "fluid editor). MODELLING CHOICE: AsciiComposer::OnContextUpdate (the temporary inline mode ends when the composition does) is a "
                   "listener on Context's update notifier; Ctx.update is shared by every mutator and was left unchanged, the listener's effect "
                   "(`acSettle`) is applied at the end of each ProcessKey (nested or not) and each API call — exact as long as nothing between the "
                   "update that ends the composition and that point reads ascii_mode or composes again, which holds for the modelled processors (the "
                   "readers, ascii composer and key binder, sit at the head of the chain) and is tied by the differential runs. Not modelled there: "
                   "the fallback to default.yaml's ascii_composer section when the schema has none. "
                   "The recognizer family is inside the model: Recognizer::ProcessKeyEvent and RecognizerPatterns::GetMatch (active input from the "
                   "confirmed position, a match must reach the end of the input and start at the current end position or at a segment start, std::map "
                   "order of the patterns, use_space, the accepted characters 0x21..0x7f), Matcher::Proceed (pops segments right of the match, tags the "
                   "range), AffixSegmentor::Proceed (prefix / suffix / tips / closing_tips / extra_tags; the prefix and suffix segments are born kGuess "
                   "with a prompt, `phony`, and never get a menu; a lone prefix renames the segment's tag; the rest of a partial selection inherits the "
                   "tag), AsciiSegmentor::Proceed (reads ascii_mode in the middle of a recomposition: the option travels with the composition as a ghost "
                   "field written by the one function that stores options). Regular expressions are NOT modelled: in the model a pattern is an arbitrary "
                   "search function and C02.wellformed_reachable_recognizer quantifies over all of them (composeR_spec: any segmentor order, any "
                   "patterns, any affix configurations); the DRIVER implements the class `[^] item… [$]`, item = literal or bracket class with nothing / "
                   "? / * / + (Boost's leftmost, greedy-backtracking semantics incl. ^ and $ at embedded line separators), from whose description both "
                   "the regex string given to librime and the driver's matcher are generated; a pattern outside the class has no description and the "
                   "driver refuses the schema. Three synthetic schemas (vs_rec: recognizer before the speller, stock segmentor order with ascii_segmentor, "
                   "an unanchored reverse-lookup pattern with an affix segmentor, a prefix-letter pattern, a digits pattern; vs_recf: recognizer after the "
                   "speller, fluid, affix segmentor on the default tag abc, punctuation components, use_space, a pattern anchored at the start only; "
                   "vs_reca: the stock processor order ascii_composer, recognizer, key_binder, speller, punctuator…) run it op-for-op, the observation "
                   "line carrying every tag of every segment. Not modelled there: translators of two tags answering for the same segment (merged "
                   "election; the synthetic schemas keep the tags apart). Processors outside the model "
                   "(chord_composer) are covered only "
                   "by the context-layer lemmas plus the WellFormed monitor on a stock-component schema (luna_pinyin's component list over "
                   "tiny dictionaries, digit separators at their default; both tiers, no model behind those runs)."),
    "design_ref": "DESIGN.md §2 M-session, §3 C02",
}


def monitor(state, op, o):
    return sc.wellformed(o)


def run(c):
    quick = c.tier == "quick"
    n_hist, n_ops = (84, 120) if quick else (700, 300)
    rc, out = vlib.sh([sys.executable, os.path.join(vlib.ROOT, "gen", "keymaps.py"), vlib.REPO,
                       os.path.join(vlib.LEAN, "RimeModel", "Gen", "Keymaps.lean")])
    gen_ok = rc == 0
    audit = vlib.lean_audit("C02")
    if not gen_ok:
        audit["ok"] = False
        audit["failures"].append(("gen/keymaps.py", "translator failed (fails closed): " + out[-500:]))
    if not quick and audit["ok"]:
        ok, log = vlib.leanchecker("RimeModel.Props.C02")
        if not ok:
            audit["ok"] = False
            audit["failures"].append(("RimeModel.Props.C02", "leanchecker: " + log))
    exe = sc.build()
    ws = sc.make_workspace(os.path.join(c.work, "ws"), list(sc.SCHEMAS))
    hs, rows_for = sc.standard_histories(c, n_hist, n_ops)
    stats = sc.session_check(c, "C02", monitor, hs, rows_for, exe, ws, "WellFormed(view)")
    # stock components the model does not port (recognizer, ascii_segmentor, `select:` bindings of the key binder, reverse lookup, real translators and
    # filters; the punctuator with digit separators on): the property is monitored on the implementation's observations, no model behind it
    from checks import c01_common as c1
    fws = c1.make_full_workspace(os.path.join(c.work, "fws"), user_dict=False)
    n_sh, n_sops = (24, 150) if quick else (300, 300)
    swd = sc.switcher_directed()
    if quick:
        swd = c.rng.sample(swd, 6)
    sst = sc.stock_monitor_check(c, "C02", monitor, swd + [sc.gen_stock_history(c.rng, n_sops) for _ in range(n_sh)], exe, fws,
                                 "WellFormed(view)")
    # …and the table translator with the phrase encoder and a live user dictionary (cangjie5's component list): candidates are
    # learnt from commits in a row and deleted again, so the menu under the highlight is rebuilt between two reads
    tws = c1.make_table_workspace(os.path.join(c.work, "tws"))
    n_th = 12 if quick else 150
    tst = sc.stock_monitor_check(c, "C02", monitor, c1.table_directed_histories() + [c1.gen_table_history(c.rng, n_sops) for _ in range(n_th)],
                                 exe, tws, "WellFormed(view)", sid="vs_cjfull")
    if not audit["ok"] and not c.violations:
        c.report("C02:proof", "proof obligation no longer checks: %s" % "; ".join("%s: %s" % f for f in audit["failures"])[:600],
                 {"kind": "proof", "broken_theorems": audit["failures"], "lean_log": audit["log"][-3000:]}, no_input=True)
    cov = vlib.proof_cov(audit, "lake build RimeModel.Props.C02 && #print axioms (all theorems) && forbidden-token scan"
                         + ("" if quick else " && leanchecker"), vlib.STD_TRUSTED + ["translator gen/keymaps.py"])
    cov.update({"evaluations": stats["ops"], "distinct_nontrivial": stats["distinct_nontrivial"],
                "rule": "seeded random API histories (keys over letters/editing/navigation/selection keys with modifiers, select/highlight/delete by global and on-page index incl. out of range, paging, set_input, set_caret_pos, options, commit, clear, get_commit; on the two schemas with a punctuator also punctuation keys pressed 1-6 times in a row alone / after letters / with the caret moved / with a menu open, followed by confirming, selecting, cancelling and editing keys, options ascii_punct and full_shape, set_input of mixed letters and punctuation; on the two schemas with a key binder also every bound key (sometimes with one modifier bit flipped) in each of the states idle / composing without menu / menu open / paged / caret inside / after a selection / punctuation alternatives, period-comma-letter sequences with modified keys, releases and API calls in between, runs of option bindings; plus a directed grid: every bound key x every state, the ReinterpretPagingKey sequences, every option binding four times in a row, pairs of radio-group bindings; on the two schemas with an ascii composer also switch-key taps (release reported with or without the modifier's own bit), a switch key held across another key / switch key / API call, Caps_Lock with the Lock bit clear or set and letters while it is on, typing / editing / committing in ascii mode, ascii_mode through the API; plus a directed grid: every switch key x every state tapped once and twice and held across a letter, a release after `sleep 700`, every way of ending the inline mode; on the three schemas of the recognizer family also words around a pattern / affix (typed key by key or set through the API, sometimes with one character changed, with line separators around them), BackSpace across suffix / code / prefix, the caret moved into the prefix, whole and partial selections inside the code segment, ascii_mode switched with the composition open; plus a directed grid: every word of the schema's list x every boundary move) on %d synthetic schemas x generated candidate tables, corpus first; non-trivial = observation in a composing state; distinct by (schema, full observation line)" % len(sc.SCHEMAS),
                "samples": stats["samples"], "histories": stats["histories"], "op_kind_distribution": stats["kinds"],
                "observations_with_menu": stats["menus"], "observations_composing": stats["composing"],
                "commits_read": stats["commits"], "model_impl_disagreements": stats["diffs"],
                "monitor_violations": stats["violations"], "sanitizer_aborts": stats["crashes"],
                "proof_failures": audit["failures"], "stock_component_monitoring": sst, "table_translator_monitoring": tst,
                "per_schema": stats["schemas"], "punctuator_schemas": stats["punct"]})
    if not quick:
        # how much of the C++ the model ports do the correspondence scripts of this run execute (gcov build; measurement, not a verdict)
        try:
            sys.path.insert(0, os.path.join(vlib.ROOT, "tools"))
            import model_coverage
            cov["modelled_code_coverage"] = model_coverage.coverage(
                c.work, sc.scripts_for(hs, rows_for), lambda d: sc.make_workspace(d, list(sc.SCHEMAS)))
        except Exception as e:
            cov["modelled_code_coverage"] = {"error": repr(e)[:300]}
    c.cov = cov
    c.assumptions = ["raw input is ASCII (all the key path can produce) for the UTF-8 boundary clause",
                     "translation oracle texts are valid UTF-8", "page_size >= 1 (Schema clamps it)"]


def replay(c, r):
    return sc.replay_history(c, r, monitor)
