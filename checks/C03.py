"""C03 — what is committed is what was shown, and it is delivered exactly once."""
import os, sys, json
import vlib
from checks import session_common as sc

META = {
    "technique": "Lean 4 theorems on the session model (commit = preview, select-to-end, delivery log refinement) + differential correspondence",
    "level": "proof",
    "level_text": ("Theorems C03.commit_eq_preview, select_to_end(_reachable), select_on_page_index, commit_clears(_concrete), read_returns_buffer, second_read_empty, "
                   "delivery_exactly_once, getCommit_refines_read about the session model (unbounded: any state, any buffer history); "
                   "the model is run op-for-op against the real engine (including the un-read commit buffer and candidate end "
                   "positions) and the four clauses are also monitored directly on the implementation's outputs."),
    "level_note": ("Trusted: Lean kernel; keymap translator; model tied by differential runs. select_to_end's length hypothesis "
                   "|composition input| <= |raw input| is an invariant of every reachable state (select_to_end_reachable); option `dumb` off; the shape "
                   "formatter is a parameter of the theorems (`env.format`; the monitor applies ShapeFormatter::Format while full_shape is on, "
                   "which the two schemas with a punctuator generate); punctuator's own commit: C03.punct_autocommit_eq_preview; commit_clears_punct "
                   "for the Compose with punctuation components; key binder: select_to_end_reachable_keybinder (clause b in every state reachable with bindings in play), "
                   "keybinder_option_action_delivers_nothing (a key bound to toggle / set_option / unset_option is handled and leaves the commit buffer as it was); "
                   "ascii composer: ascii_capslock_letter_delivered_once, ascii_inline_end_delivers_nothing; "
                   "the monitor reads the option values the session reports (a binding may have changed full_shape / soft_cursor); switcher menu not modelled "
                   "(out of the property's scope)."),
    "design_ref": "DESIGN.md §2 M-session, §3 C03",
}


def parse_menu(m):
    if m in (None, "~"):
        return None
    head, body = m.split(",[", 1)
    ps, pn, last, hi, num = [int(x) for x in head.split(",")]
    cands = []
    body = body.rstrip("]")
    for item in body.split("|") if body else []:
        t, cm, e = item.split(":")
        cands.append((sc.unhex(t), int(e)))
    return {"ps": ps, "pn": pn, "hi": hi, "num": num, "cands": cands}


def monitor(state, op, o):
    """state carries the previous observation of this session and option flags"""
    prev = state.get("prev")
    state["prev"] = o
    w = op.split(" ")
    if w[0] == "option":
        state.setdefault("opts", {})[w[1]] = w[2] == "1"
    if "nocontext" in o or prev is None or "nocontext" in prev:
        return None
    pend_b, pend_a = sc.unhex(prev.get("pending")), sc.unhex(o.get("pending"))
    opts = dict(state.get("opts", {}))
    # the values the session itself reported before this call (a key binder binding may have changed an option: the `option`
    # ops of the history are then not the whole story)
    opts.update(sc.reported_options(prev))
    # the engine's shape formatter rewrites committed text while full_shape is on (schemas with punctuation generate the option)
    fmt = sc.shape_format if opts.get("full_shape") else (lambda b: b)
    # (d) delivery
    if w[0] == "read_commit":
        got = sc.unhex(o.get("text")) if "text" in o else b""
        if got != pend_b:
            return "read!=buffer"
        if pend_a:
            return "buffer-not-reset"
        if (o.get("ret") == "1") != bool(pend_b):
            return "read-ret"
        return None
    if not pend_a.startswith(pend_b):
        return "buffer-lost-or-reordered"
    delivered = pend_a[len(pend_b):]
    composing_b = prev.get("composing") == "1"
    # (e) exactly once, at the level of the raw letters: a plain key adds at most its own character; a lower-case letter of the
    # input is afterwards either still composed or has been delivered as it was typed, never both (evaluated when no
    # candidate text of the table contains a lower-case ASCII letter, so that a delivered letter is a raw one)
    if w[0] == "key" and len(w) == 3 and w[2] == "0" and "texts" in state:
        if "letters_ok" not in state:
            state["letters_ok"] = not any(("a" <= ch <= "z") for t in state["texts"] for ch in t)
        if state["letters_ok"]:
            cnt = lambda b: {x: b.count(x) for x in set(b) if 97 <= x <= 122}
            have = cnt(sc.unhex(prev.get("input")) + (bytes([int(w[1])]) if 97 <= int(w[1]) <= 122 else b""))
            now = cnt(delivered + sc.unhex(o.get("input")))
            state["letter_accounts"] = state.get("letter_accounts", 0) + 1
            if any(n > have.get(x, 0) for x, n in now.items()):
                return "letter-delivered-and-still-composed"
    # (a) commit = preview
    if w[0] == "commit":
        if composing_b:
            if delivered != fmt(sc.unhex(prev.get("preview"))):
                return "commit!=preview"
            if o.get("composing") != "0" or sc.unhex(o.get("input")):
                return "still-composing-after-commit"
        elif delivered:
            return "commit-from-idle"
        return None
    # (a') the key bound to the editor's commit_composition action (Return in the fluid editor, which never commits on its own
    # otherwise): whenever it delivers text it has committed the composition, and what it delivers is the preview reported
    # just before (it first confirms the highlighted candidate, which is part of that preview already; if a menu is left it
    # commits nothing).  Only where no key binder can rebind the key and the editor's bindings are the defaults.
    # With the caret inside the input the confirmation moves the caret to the end and recomposes first (OnSelect), so the text
    # delivered is the preview AFTER that step: the clause is stated for the caret at the end of the input only.
    if (w[0] == "key" and len(w) == 3 and w[1] == str(sc.XK["Return"]) and w[2] == "0" and composing_b and delivered
            and prev.get("caret") == str(len(sc.unhex(prev.get("input"))))):
        sch = sc.SCHEMAS.get(state.get("sid"), {})
        procs = sch.get("procs", [])
        if "fluid_editor" in procs and "key_binder" not in procs and not sch.get("editor_bindings"):
            state["return_commits"] = state.get("return_commits", 0) + 1
            if delivered != fmt(sc.unhex(prev.get("preview"))):
                return "commit!=preview"
    # (b) select a displayed candidate that covers the rest of the input
    if w[0] in ("select", "select_page") and o.get("ret") == "1" and not opts.get("soft_cursor"):
        m = parse_menu(prev.get("menu"))
        if m:
            i = int(w[1]) if w[0] == "select_page" else int(w[1]) - m["pn"] * m["ps"]
            if 0 <= i < len(m["cands"]):
                text, end = m["cands"][i]
                inp = sc.unhex(prev.get("input"))
                if end == len(inp) and prev.get("preedit") not in (None, "~"):
                    # "the already confirmed text": what the engine itself attributed to the part before the current segment
                    # in the preview it reported just before (preview = that prefix + highlighted candidate's text + the input
                    # the highlighted candidate leaves uncovered).  The preedit in front of the selection is the same bytes
                    # whenever the earlier segments were confirmed by the user; it is NOT for an earlier, never confirmed
                    # segment whose best candidate is partial (GetPreedit shows the uncovered input, GetCommitText drops it) —
                    # equating the two raised a false alarm on vs_initials, whose delimiters split set_input text into
                    # several unconfirmed segments.
                    s0 = int(prev["sel"].split(",")[0])
                    prefix = sc.unhex(prev["preedit"])[:s0]
                    pv = sc.unhex(prev.get("preview"))
                    if 0 <= m["hi"] < len(m["cands"]):
                        ht, he = m["cands"][m["hi"]]
                        tail = ht + inp[he:]
                        if pv.endswith(tail):
                            prefix = pv[:len(pv) - len(tail)]
                    expected = prefix + text
                    state["select_to_end"] = state.get("select_to_end", 0) + 1
                    if delivered:           # auto-committing editor
                        if delivered != fmt(expected):
                            return "select-commit!=shown"
                        if o.get("composing") != "0":
                            return "still-composing-after-commit"
                    else:
                        procs = sc.SCHEMAS.get(state.get("sid"), {}).get("procs", [])
                        if "express_editor" in procs:
                            # an auto-committing editor delivers a selection that covers the rest of the input at once
                            return "select-not-delivered-at-once"
                        if sc.unhex(o.get("preview")) != expected:
                            return "select-preview!=shown"
    return None


def highlight_then_commit_grid(rows_for, hs):
    """directed: a multi-letter input whose menu offers candidates covering less than the whole input; the highlight is moved
    onto one of them (Down / Page_Down), then the editor's commit / confirm keys or the API commit follow.  What is delivered
    must be the preview reported before (clauses a / a'); an editor that only confirms must deliver nothing."""
    rows = [("a", "A1", "", ""), ("a", "A2", "", ""), ("ab", "AB", "", ""), ("b", "B1", "", ""), ("abc", "ABC", "", ""),
            ("c", "C1", "", ""), ("bc", "BC", "", "")]
    rows_for["hr"] = rows
    for sid, s in sc.SCHEMAS.items():
        if not set("abc") <= set(s["alphabet"]) or s.get("autoSelect") or s.get("maxCodeLength"):
            continue
        for word in ("ab", "abc", "abcb"):
            for moves in (["Down"], ["Down", "Down"], ["Down", "Down", "Down"], ["Next"], ["Down", "Up"]):
                for fin in ("key %d 0" % sc.XK["Return"], "key 32 0", "commit"):
                    ops = ["key %d 0" % ord(ch) for ch in word] + ["key %d 0" % sc.XK[m] for m in moves]
                    ops += [fin, "read_commit", fin, "read_commit"]
                    hs.append((sid, ops, "hr"))


def run(c):
    quick = c.tier == "quick"
    n_hist, n_ops = (84, 120) if quick else (700, 300)
    rc, out = vlib.sh([sys.executable, os.path.join(vlib.ROOT, "gen", "keymaps.py"), vlib.REPO,
                       os.path.join(vlib.LEAN, "RimeModel", "Gen", "Keymaps.lean")])
    audit = vlib.lean_audit("C03")
    if rc != 0:
        audit["ok"] = False
        audit["failures"].append(("gen/keymaps.py", "translator failed (fails closed): " + out[-500:]))
    if not quick and audit["ok"]:
        ok, log = vlib.leanchecker("RimeModel.Props.C03")
        if not ok:
            audit["ok"] = False
            audit["failures"].append(("RimeModel.Props.C03", "leanchecker: " + log))
    exe = sc.build()
    ws = sc.make_workspace(os.path.join(c.work, "ws"), list(sc.SCHEMAS))
    hs, rows_for = sc.standard_histories(c, n_hist, n_ops, profile="commit")
    highlight_then_commit_grid(rows_for, hs)
    stats = sc.session_check(c, "C03", monitor, hs, rows_for, exe, ws, "commit/preview/delivery law")
    if not audit["ok"] and not c.violations:
        c.report("C03:proof", "proof obligation no longer checks: %s" % "; ".join("%s: %s" % f for f in audit["failures"])[:600],
                 {"kind": "proof", "broken_theorems": audit["failures"], "lean_log": audit["log"][-3000:]}, no_input=True)
    cov = vlib.proof_cov(audit, "lake build RimeModel.Props.C03 && #print axioms (all theorems) && forbidden-token scan"
                         + ("" if quick else " && leanchecker"), vlib.STD_TRUSTED + ["translator gen/keymaps.py"])
    cov.update({"evaluations": stats["ops"], "distinct_nontrivial": stats["distinct_nontrivial"],
                "rule": "seeded API histories biased to multi-segment compositions, partial selections, reopened segments, commits and (double) reads on 4 synthetic schemas; non-trivial = observation in a composing state; distinct by (schema, observation line)",
                "samples": stats["samples"], "histories": stats["histories"], "op_kind_distribution": stats["kinds"],
                "commits_read": stats["commits"], "model_impl_disagreements": stats["diffs"],
                "monitor_violations": stats["violations"], "sanitizer_aborts_skipped": stats["crashes"],
                "proof_failures": audit["failures"]})
    c.cov = cov
    c.assumptions = ["committed text goes through the shape formatter (identity unless full_shape is on)", "option dumb off",
                     "outside the schema-switcher menu"]


def replay(c, r):
    return sc.replay_history(c, r, monitor)
