"""C04 — menu pages are windows onto one stable, duplicate-free candidate list."""
import os, sys, json, hashlib, shutil, glob, re
import vlib

META = {
    "technique": ("Lean 4 theorems about a line-by-line model of Menu / MergedTranslation / uniquifier / single_char_filter and of the "
                  "API's two read paths + differential correspondence with permuted fetch orders on the real library"),
    "level": "proof",
    "level_text": ("Theorems C04.cache_prefix(_ops), prepare_count(_uses), page_window, last_page_iff, last_page_sound, index_stable, "
                   "empty_iff, lazy_refines_full (every observation through get_context / candidate iterator / highlight / change_page / "
                   "selector paging on the lazily filled menu equals the one computed from the full list, for every call sequence), "
                   "merged_is_merge, elect_scans, cache_translation_transparent, distinct_output, uniq_nodup, uniq_nodup_any_consumer, "
                   "fixed_single_char_nodup, old_uniq_counterexample — all unbounded (any menu, any list, any op sequence). The executable "
                   "model is run against the real rime::Menu/MergedTranslation/Uniquifier/SingleCharFilter on generated translations, and "
                   "against the real API on luna_pinyin, cangjie5 and synthetic multi-translator schemas: each composing state is read in "
                   "several random orders, each on a fresh identical state, and compared with the straight iterator read of another fresh "
                   "state and with the model fed that list; window law, last-page flag, iterator, has-menu and no-duplicate-text are also "
                   "evaluated directly on the implementation's output."),
    "level_note": ("Trusted: Lean kernel; harness + python comparison. Real translations are generators with internal state: that a "
                   "fresh identical state yields the same list under every fetch granularity is sampled by the correspondence, not proved "
                   "(script/table translators, simplifier, OpenCC are not modelled; the stock schemas enter the model as their observed "
                   "list L). last_page_iff / lazy_refines_full assume no null Peek() is pending (the flag would be late by one fetch); "
                   "the check monitors flag exactness on every page read. Lists longer than the read cap are compared on their prefix."),
    "design_ref": "DESIGN.md §3 C04, §6 item 8",
}

SRC_FILES = ["src/rime/menu.cc", "src/rime/menu.h", "src/rime/translation.cc", "src/rime/translation.h", "src/rime/candidate.cc",
             "src/rime/gear/uniquifier.cc", "src/rime/gear/single_char_filter.cc", "src/rime/gear/simplifier.cc",
             "src/rime/gear/charset_filter.cc", "src/rime_api_impl.h", "src/rime/gear/selector.cc", "src/rime/context.cc"]


def hx(b):
    if isinstance(b, str):
        b = b.encode()
    return b.hex() if b else "-"


def unhex(h):
    return b"" if h in ("-", None, "") else bytes.fromhex(h)


# ------------------------------------------------------------------ schemas
# synthetic: several table-driven translators (c04_translator@<ns>, rows travel in the script), real merge + filters
SYN = {
    "c04_plain": dict(ps=4, trs=["a", "b"], filters=[], cycle=0),
    "c04_multi": dict(ps=5, trs=["a", "b", "c"], filters=["uniquifier"], cycle=1),
    "c04_scf": dict(ps=3, trs=["a", "b"], filters=["uniquifier", "single_char_filter"], cycle=0),      # cangjie5's order
    "c04_scf_first": dict(ps=2, trs=["a", "b", "c"], filters=["single_char_filter", "uniquifier"], cycle=0),
}
STOCK = {
    "luna_pinyin": dict(options=["zh_simp", "zh_tw"], uniq=True),
    "cangjie5": dict(options=["simplification", "extended_charset"], uniq=True),
}
FILTER_TOKEN = {"uniquifier": "uniq", "single_char_filter": "scf"}
# synthetic, with filters the model does not port (simplifier with every option the constructor reads, charset_filter): the
# same table-driven translators; like the stock schemas they enter the model as their observed list L.  Each names the options
# that switch its filters; `extra` is the configuration of the filters.
OPQ = {
    # one-to-many conversions (s2t: 发 -> 發 髮, 干 -> 幹 乾 干 …): Convert() queues several candidates per source candidate
    "c04_s2t": dict(ps=4, trs=["a", "b"], filters=["simplifier@s2t", "uniquifier"], cycle=0, options=["opt_s2t"],
                    extra=["s2t:", "  opencc_config: s2t.json", "  option_name: opt_s2t", "  tips: all"]),
    # the original kept as text, the converted form as comment; comments not inherited; comment_format; default option name
    "c04_t2s_cmt": dict(ps=3, trs=["a", "b", "c"], filters=["simplifier", "uniquifier"], cycle=1, options=["simplification"],
                        extra=["simplifier:", "  tips: char", "  show_in_comment: true", "  inherit_comment: false",
                               "  comment_format:", "    - xform/^/〔/", "    - xform/$/〕/"]),
    # two simplifiers in a row (the second converts what the first produced), a candidate type excluded, `tip:` (the older key),
    # tips off by name, then the single-char filter on top of the uniquifier
    "c04_chain": dict(ps=5, trs=["a", "b"], filters=["simplifier@zs", "simplifier@ztw", "uniquifier", "single_char_filter"], cycle=0,
                      options=["zs", "ztw"],
                      extra=["zs:", "  option_name: zs", "  tip: char", "  excluded_types: [vt]",
                             "ztw:", "  option_name: ztw", "  opencc_config: s2twp.json", "  tips: none", "  inherit_comment: true"]),
    # charset_filter as a filter of its own (off when `extended_charset` is on), ahead of a simplifier and the uniquifier
    # (the prescription must be written `charset_filter@`: the basic filter only works with an EMPTY name space, and a plain
    # `charset_filter` gets the name space "filter" — CharsetFilter::Apply then logs an error and filters nothing)
    "c04_charset": dict(ps=4, trs=["a", "b"], filters=["charset_filter@", "simplifier", "uniquifier"], cycle=0,
                        options=["extended_charset", "simplification"], extra=["simplifier:", "  tips: all"]),
}
# echo_translator behind a table-driven translator and NO filter (nothing between the merged translation and the menu): its
# translation overrides Compare() (it always lets the others go first), so the election among the merged translations is what
# decides when the list is known to be complete; the rows give lists whose length is an exact multiple of the page size
OPQ["c04_echo"] = dict(ps=3, trs=["a"], translators=["c04_translator@a", "echo_translator"], filters=[], cycle=0, options=[], extra=[])
OPQ["c04_echo2"] = dict(ps=3, trs=["a", "b"], translators=["echo_translator", "c04_translator@a", "c04_translator@b"], filters=[], cycle=1,
                        options=[], extra=[])
# punctuation segments (punct_segmentor + punct_translator; tag `punct`, not `abc`) under the uniquifier: lists that repeat an
# alternative, one of them a whole number of pages long; a simplifier restricted to `tags: [abc]` ahead of it
OPQ["c04_punct"] = dict(ps=3, trs=["a"], translators=["punct_translator", "c04_translator@a"], filters=["simplifier", "uniquifier"], cycle=0,
                        options=["simplification", "full_shape"], punct=True,
                        extra=["simplifier:", "  tags: [abc]", "  tips: all", "punctuator:", '  digit_separators: ""', "  half_shape:",
                               "    '/': ['、', '/', '、', '÷', '/']", "    ';': ['；', ';', '；', '︔', '；', '﹔', ';', '⁏', '؛']",
                               "    '$': ['￥', '￥']", "    ',': '，'", "  full_shape:", "    '/': ['／', '÷', '／']",
                               "    ';': ['；', '；', '；']", "    '$': ['＄', '￥', '$', '＄']"])
# the basic charset filter alone, directly on the merged translation (nothing behind it that would hide how it reports its end)
OPQ["c04_charset0"] = dict(ps=4, trs=["a", "b"], filters=["charset_filter@"], cycle=1, options=["extended_charset"], extra=[])
LAYOUT_OPTS = ["_vertical", "_linear", "_horizontal"]


def syn_yaml(sid, s):
    y = ["schema:", "  schema_id: %s" % sid, "  name: %s" % sid, "  version: '1'", "engine:", "  processors:",
         "    - speller"] + (["    - punctuator"] if s.get("punct") else []) + ["    - selector", "    - navigator", "    - express_editor",
         "  segmentors:", "    - abc_segmentor"] + (["    - punct_segmentor"] if s.get("punct") else []) + ["    - fallback_segmentor", "  translators:"]
    y += ["    - %s" % t for t in s.get("translators", ["c04_translator@%s" % ns for ns in s["trs"]])]
    if s["filters"]:
        y += ["  filters:"] + ["    - %s" % f for f in s["filters"]]
    y += ["speller:", "  alphabet: 'abc'", "menu:", "  page_size: %d" % s["ps"]]
    if s["cycle"]:
        y += ["  page_down_cycle: true"]
    y += s.get("extra", [])
    return "\n".join(y) + "\n"


def all_syn():
    return dict(SYN, **OPQ)


def workspace(c, bdir):
    """deployed workspace (stock data/minimal + synthetic schemas), cached under .build keyed by data + librime.so"""
    src = os.path.join(vlib.REPO, "data", "minimal")
    files = sorted(glob.glob(os.path.join(src, "*")))
    h = hashlib.sha256()
    for f in files:
        h.update(os.path.basename(f).encode() + b"\0" + open(f, "rb").read())
    for sid in sorted(all_syn()):
        h.update(syn_yaml(sid, all_syn()[sid]).encode())
    so = os.path.join(bdir, "lib", "librime.so")
    st = os.stat(os.path.realpath(so))
    h.update(("%s %d %d" % (os.path.realpath(so), st.st_mtime_ns, st.st_size)).encode())
    key = h.hexdigest()[:16]
    root = os.path.join(vlib.BUILD, "c04_ws")
    d = os.path.join(root, key)
    if not os.path.exists(os.path.join(d, ".deployed")):
        os.makedirs(root, exist_ok=True)
        tmp = d + ".tmp%d" % os.getpid()
        shutil.rmtree(tmp, ignore_errors=True)
        os.makedirs(tmp)
        for f in files:
            shutil.copy(f, tmp)
        dy = open(os.path.join(tmp, "default.yaml")).read()
        dy = dy.replace("  - schema: cangjie5\n", "  - schema: cangjie5\n" + "".join("  - schema: %s\n" % s for s in sorted(all_syn())), 1)
        if "c04_plain" not in dy:
            raise vlib.BuildError("C04: cannot add the synthetic schemas to data/minimal/default.yaml (schema_list shape changed)")
        open(os.path.join(tmp, "default.yaml"), "w").write(dy)
        for sid in all_syn():
            open(os.path.join(tmp, sid + ".schema.yaml"), "w").write(syn_yaml(sid, all_syn()[sid]))
        rc, out = vlib.sh([os.path.join(bdir, "bin", "rime_deployer"), "--build", tmp], env=vlib.SAN_ENV, timeout=1800)
        ok = rc == 0 and all(os.path.exists(os.path.join(tmp, "build", f)) for f in
                             ["cangjie5.table.bin", "luna_pinyin.table.bin", "c04_scf.schema.yaml", "default.yaml"] +
                             [x + ".schema.yaml" for x in OPQ])
        if not ok:
            shutil.rmtree(tmp, ignore_errors=True)
            raise vlib.BuildError("C04: rime_deployer --build failed on the stock workspace (rc=%d): %s" % (rc, out[-2000:]))
        open(os.path.join(tmp, ".deployed"), "w").write(key)
        # keep only the three newest cached workspaces
        try:
            os.rename(tmp, d)
        except OSError:
            shutil.rmtree(tmp, ignore_errors=True)
        olds = sorted((p for p in glob.glob(os.path.join(root, "*")) if os.path.isdir(p) and ".tmp" not in p), key=os.path.getmtime)
        for p in olds[:-3]:
            shutil.rmtree(p, ignore_errors=True)
    # private copy: sessions write user.yaml / userdb
    ws = os.path.join(c.work, "ws")
    shutil.rmtree(ws, ignore_errors=True)
    shutil.copytree(d, ws)
    return ws


# ------------------------------------------------------------------ generators
TEXTS = ["啊", "吧", "从", "的", "𨱈", "𠔗", "阿爸", "爸爸", "测试", "ab", "a", "é", "X", "吃多了"]


# texts for the schemas with a simplifier / charset filter: simplified forms with several traditional ones (发 干 后 面 台 里 只),
# traditional forms that fall together when simplified (發 髮 -> 发; 乾 幹 -> 干), words, and characters at both ends of
# the blocks is_extended_cjk lists (㐀 U+3400, 䶿 U+4DBF / ䷀ U+4DC0 outside; ㌀ U+3300, ㏿ U+33FF / ㋿ U+32FF outside;
# ︰ U+FE30, ﹏ U+FE4F / ﹐ U+FE50 outside; 豈 U+F900, 﫿 U+FAFF; 𠀀 U+20000, 𪛟 U+2A6DF, 𪜀 U+2A700, 𫝀 U+2B740, 𫠠 U+2B820,
# 𬺰 U+2CEB0, 𮯰 U+2EBF0, 丽 U+2F800, 𰀀 U+30000, 𱍐 U+31350) alone and inside words
TEXTS_X = ["发", "干", "后", "面", "台", "里", "只", "發", "髮", "乾", "幹", "著", "頭髮", "头发", "干净", "乾淨", "皇后", "後面", "啊",
           "㐀", "䶿", "䷀", "㌀", "㏿", "㋿", "︰", "﹏", "﹐", "豈", "﫿", "𠀀", "𪛟", "𪜀", "𫝀", "𫠠", "𬺰", "𮯰", "丽", "𰀀", "𱍐",
           "啊㐀", "𠀀的", "ab", "台灣", "里面"]


def gen_rows(rng, texts=None):
    """rows[ns][key] = [(text, comment, quality, flag)]: overlapping texts across translators, many equal qualities"""
    texts = texts or TEXTS
    rows = {}
    n = 0
    for ns in "abc":
        t = {}
        keys = set()
        for _ in range(rng.choice([4, 6, 9])):
            keys.add("".join(rng.choice("abc") for _ in range(rng.choice([1, 1, 2, 2, 3]))))
        for k in sorted(keys):
            r = []
            for _ in range(rng.choice([1, 2, 3, 5, 8])):
                n += 1
                r.append((rng.choice(texts), "" if texts is not TEXTS and rng.random() < 0.3 else "%s%d" % (ns, n), rng.choice([0, 0, 1, 1, 2, 3]),
                          "t" if rng.random() < 0.8 else "s"))
            t[k] = r
        rows[ns] = t
    return rows


def row_lines(rows):
    out = []
    for ns in sorted(rows):
        for k in sorted(rows[ns]):
            for (t, cm, q, f) in rows[ns][k]:
                out.append("row %s %s %s %s %d %s" % (ns, hx(k), hx(t), hx(cm), q, f))
    return out


def syn_tr_lines(rows, sid, inp):
    """what each c04_translator@ns yields for the one abc segment [0, len(inp))"""
    lines = []
    for ns in SYN[sid]["trs"]:
        cands = []
        for n in range(len(inp), 0, -1):
            for (t, cm, q, f) in rows.get(ns, {}).get(inp[:n], []):
                cands.append("%s:%s:0:%d:%d:%s" % (hx(t), hx(cm), n, q, f))
        lines.append("tr " + " ".join(cands))
    lines.append("menu " + " ".join(FILTER_TOKEN[f] for f in SYN[sid]["filters"]))
    return lines


KEYCODES = [0xff50, 0xff51, 0xff52, 0xff53, 0xff54, 0xff55, 0xff56, 0xff57,      # Home Left Up Right Down Prior Next End
            0xff95, 0xff96, 0xff97, 0xff98, 0xff99, 0xff9a, 0xff9b, 0xff9c]      # KP_Home … KP_End


def gen_order(rng, n, complete, ps, cap):
    """one order of reading/paging calls over a list of which n entries are known (all of it when complete)"""
    limit = n + 2 * ps if complete else max(0, cap - 3 * ps)
    ub = [0]          # upper bound of selected_index so far

    def idx():
        cs = [0, 1, ps - 1, ps, ps + 1, 2 * ps, n - 1, n, n + 1, max(0, n - ps), (n // ps) * ps, max(0, (n // ps) * ps - 1),
              rng.randrange(0, max(1, n + ps)), rng.randrange(0, max(1, n + ps))]
        cs = [x for x in cs if 0 <= x <= limit]
        return rng.choice(cs) if cs else 0

    def emit(ops, op):
        w = op.split(" ")
        new = ub[0]
        if w[0] == "hl":
            new = int(w[1])
        elif w[0] == "hlp":
            new = ub[0] + ps
        elif op in ("chpage +", "key next") or w[0] == "keyc":
            new = ub[0] + ps
        elif op == "key down":
            new = ub[0] + 1
        if not complete and new > limit:
            return
        ub[0] = new
        ops.append(op)

    def lst():
        a = idx()
        k = rng.choice([1, 2, ps, ps + 1, 3 * ps, 7])
        if not complete:
            k = max(0, min(k, cap - ps - a))
        return "list %d %d" % (a, k)

    profile = rng.choice(["page-first", "iter-first", "far-first", "hl-jumps", "keys", "keys", "mixed", "mixed"])
    ops = []
    # the arrow / paging / Home / End keys and their keypad twins by keycode: what each does depends on the layout options of
    # the state (the model looks the key up in the selector's keymap of that layout; a key the selector leaves to the navigator
    # is dropped from the order before it is run: it moves the caret, i.e. changes the input being composed)
    def keyc():
        return "keyc %d" % rng.choice(KEYCODES)
    if profile == "page-first":
        emit(ops, "ctx")
        for _ in range(rng.choice([1, 2, 4])):
            emit(ops, rng.choice(["chpage +", "key next"]))
            emit(ops, "ctx")
        for _ in range(rng.choice([1, 2, 5])):
            emit(ops, rng.choice(["chpage -", "key prior"]))
            emit(ops, "ctx")
        emit(ops, lst())
    elif profile == "iter-first":
        k = rng.choice([1, ps, 2 * ps + 1])
        if not complete:
            k = min(k, max(0, cap - 2 * ps))
        emit(ops, "list 0 %d" % k)
        emit(ops, "ctx")
        emit(ops, lst())
        emit(ops, "chpage +")
        emit(ops, "ctx")
    elif profile == "far-first":
        a = idx() if rng.random() < 0.5 else (max(0, min(limit, n - 1)) if n else 0)
        emit(ops, rng.choice(["list %d 2" % a if complete or a + 2 <= cap - ps else "ctx", "hl %d" % a]))
        emit(ops, "ctx")
        emit(ops, "list 0 %d" % min(ps + 1, max(0, cap - ps)))
        emit(ops, "hl 0")
        emit(ops, "ctx")
    elif profile == "hl-jumps":
        for _ in range(rng.choice([2, 3, 5])):
            emit(ops, rng.choice(["hl %d" % idx(), "hl %d" % idx(), "hlp %d" % rng.randrange(0, ps + 1)]))
            emit(ops, "ctx")
    elif profile == "keys":
        for _ in range(rng.choice([3, 6, 10])):
            emit(ops, rng.choice(["key next", "key down", "key down", "key up", "key prior", "key next", keyc(), keyc(), keyc(), keyc()]))
            if rng.random() < 0.6:
                emit(ops, "ctx")
        if rng.random() < 0.5:
            # Home / End with a candidate other than the first highlighted, at each alignment with the pages
            emit(ops, rng.choice(["hl %d" % idx(), "hlp %d" % rng.randrange(0, ps + 1), "key next", "key down"]))
            emit(ops, "keyc %d" % rng.choice([0xff50, 0xff57, 0xff95, 0xff9c]))
        emit(ops, "ctx")
    pool = ["ctx", "ctx", "chpage +", "chpage -", "key next", "key prior", "key up", "key down", keyc(), keyc(), keyc()]
    for _ in range(rng.choice([2, 4, 8]) if profile == "mixed" else rng.choice([0, 2])):
        r = rng.random()
        if r < 0.45:
            emit(ops, rng.choice(pool))
        elif r < 0.65:
            emit(ops, "hl %d" % idx())
        elif r < 0.75:
            emit(ops, "hlp %d" % rng.randrange(0, ps + 1))
        else:
            emit(ops, lst())
    emit(ops, "ctx")
    if rng.random() < 0.5:            # re-read
        emit(ops, "ctx")
        emit(ops, lst())
    return ops


def luna_inputs(rng, k):
    base = ["a", "ni", "hao", "nihao", "nihaoma", "zhongguo", "shi", "shishi", "xian", "women", "z", "zh", "n", "lv", "nv",
            "jue", "xiang", "tian", "mama", "haoma", "ai", "e", "o", "yi", "ge", "de", "bu", "wo", "zai", "ren", "you", "ta"]
    syl = []
    try:
        seen = set()
        for line in open(os.path.join(vlib.REPO, "data", "minimal", "luna_pinyin.dict.yaml"), encoding="utf-8"):
            p = line.rstrip("\n").split("\t")
            if len(p) >= 2 and re.fullmatch(r"[a-z]+", p[1]) and p[1] not in seen:
                seen.add(p[1])
                syl.append(p[1])
    except OSError:
        pass
    syl = sorted(syl) or base
    out = list(base[:max(4, k // 3)])
    while len(out) < k:
        s = "".join(rng.choice(syl) for _ in range(rng.choice([1, 1, 2, 2, 3])))
        if rng.random() < 0.3 and len(s) > 1:
            s = s[:rng.randrange(1, len(s))]
        out.append(s)
    return out[:k]


def cangjie_inputs(rng, quick):
    az = "abcdefghijklmnopqrstuvwxyz"
    one = list(az)
    two = [a + b for a in az for b in az]
    three_known = ["cdl", "con", "cop", "cuu", "dkp"]
    if quick:
        return rng.sample(one, 6) + rng.sample(two, 70) + three_known + ["".join(rng.choice(az) for _ in range(3)) for _ in range(45)]
    return one + two + three_known + ["".join(rng.choice(az) for _ in range(3)) for _ in range(800)] + \
        ["".join(rng.choice(az) for _ in range(rng.choice([4, 5]))) for _ in range(60)]


# ------------------------------------------------------------------ parsing observations
def parse_bracket(s):
    s = s.strip()
    assert s.startswith("[") and s.endswith("]"), s
    s = s[1:-1]
    return s.split("|") if s else []


def parse_api_line(l):
    w = l.split(" ", 4)
    if w[0] == "ctx":
        if len(w) >= 2 and w[1] == "none":
            return ("ctx", None)
        return ("ctx", dict(page=int(w[1]), last=int(w[2]), hl=int(w[3]), n=int(w[4].split(" ", 1)[0]),
                            cands=parse_bracket(w[4].split(" ", 1)[1])))
    if w[0] == "list":
        w = l.split(" ", 3)
        return ("list", dict(ended=int(w[1]), n=int(w[2]), cands=parse_bracket(w[3])))
    if w[0] == "ret":
        return ("ret", int(w[1]))
    if w[0] == "state":
        return ("state", (int(w[1]), int(w[2]))) if len(w) >= 3 else ("state", None)
    return (w[0], None)


def text_of(pair):
    return pair.split(":")[0]


def layout_opts(rng):
    """the options the selector derives its keymap from: none (horizontal text, stacked list) half of the time, else one of
    the other three layouts, `_horizontal` being the deprecated way to ask for a linear list"""
    return rng.choice([[], [], [], [("_vertical", 1)], [("_linear", 1)], [("_horizontal", 1)], [("_vertical", 1), ("_linear", 1)],
                       [("_vertical", 1), ("_horizontal", 1)], [("_linear", 1), ("_horizontal", 0)]])


# ------------------------------------------------------------------ API level
class Case:
    """one composing state: schema, option set, input, how it is entered"""

    def __init__(self, schema, opts, inp, how, rows_id=None, orders=None):
        self.schema, self.opts, self.inp, self.how, self.rows_id = schema, opts, inp, how, rows_id
        self.orders = orders        # fixed orders (corpus / replay) or None
        self.L, self.complete, self.ps, self.hasmenu = None, None, None, None

    def state_line(self):
        o = ",".join("%s=%d" % kv for kv in self.opts) or "-"
        return "state %s %s %s %s" % (self.schema, o, hx(self.inp), self.how)

    def layout(self):
        """text orientation | candidate list layout, as Selector numbers its keymaps (Vertical = 1, Linear = 2)"""
        o = dict(self.opts)
        return (1 if o.get("_vertical") else 0) | (2 if o.get("_linear") or o.get("_horizontal") else 0)

    def ident(self):
        return (self.schema, tuple(self.opts), self.inp, self.how)

    def as_json(self, ops=None):
        return {"kind": "api", "schema": self.schema, "options": [list(x) for x in self.opts], "input": self.inp, "how": self.how,
                "ops": ops, "rows_id": self.rows_id}


def run_harness_api(c, exe, ws, rows, body, tag):
    p = os.path.join(c.work, "%s.script" % tag)
    with open(p, "w") as f:
        f.write("\n".join(row_lines(rows) + body) + "\n")
    rc, out = vlib.sh([exe, "api", ws, p], env=vlib.SAN_ENV, timeout=3000)
    lines = [l for l in out.splitlines() if re.match(r"(state|ctx|list|ret|bad-op|nocontext|state-failed)\b", l)]
    return rc, out, lines


def monitor_read(case, op, obs, cap):
    """the property itself on one observation of the implementation, against the straight read L of a fresh
    identical state.  Returns a failing clause or None."""
    L, ps, complete = case.L, case.ps, case.complete
    kind, v = obs
    w = op.split(" ")
    if w[0] == "ctx":
        if v is None:
            return None if not L else "page-missing"
        s = v["page"] * ps
        if v["n"] != len(v["cands"]) or v["n"] == 0 or v["n"] > ps or not (0 <= v["hl"] < v["n"]):
            return "page-shape"
        if complete or s + ps <= len(L):
            if v["cands"] != L[s:s + ps]:
                return "window"
            if complete or s + ps < len(L):
                if bool(v["last"]) != (s + ps >= len(L)):
                    return "last-flag"
        return None
    if w[0] == "list":
        if kind == "ret":
            return None if not L else "iterator-refused"
        a, k = int(w[1]), int(w[2])
        if complete or a + k <= len(L):
            if v["cands"] != L[a:a + k]:
                return "iterator"
            if bool(v["ended"]) != (a + k > len(L)):
                return "iterator-end"
        return None
    return None


def api_round(c, exe, ws, rows, cases, n_orders, cap, stats, tag):
    """phase 1: straight iterator read of every state (own process); phase 2: every order on a fresh identical
    state; compare with L (monitor) and with the model.  Returns list of failures (case, order_ops, clause, detail)."""
    fails = []
    body = []
    # per state: the straight read as the FIRST call on the fresh state, then one context read, then the same read again
    # (what the iterator yields must not depend on whether a context was read before it)
    for cs in cases:
        body += [cs.state_line(), "list 0 %d" % cap, "ctx", "list 0 %d" % cap]
    rc, out, lines = run_harness_api(c, exe, ws, rows, body, tag + "p1")
    if rc != 0 or len(lines) != 4 * len(cases):
        stats["harness_aborts"] += 1
        # find the case that broke the run
        k = min(len(lines) // 4, len(cases) - 1)
        fails.append((cases[k], ["list 0 %d" % cap], "crash", out[-2500:]))
        cases = cases[:len(lines) // 4]
        lines = lines[:4 * len(cases)]
    for i, cs in enumerate(cases):
        st = parse_api_line(lines[4 * i])
        rd = parse_api_line(lines[4 * i + 1])
        if st[1] is not None and lines[4 * i + 3] != lines[4 * i + 1]:
            fails.append((cs, ["list 0 %d" % cap, "ctx", "list 0 %d" % cap], "iterator",
                          "the straight read gives %s as the first call on the state and %s after one context read" % (
                              lines[4 * i + 1][:120], lines[4 * i + 3][:120])))
        if st[1] is None:
            fails.append((cs, [], "state-failed", lines[4 * i]))
            cs.L = None
            continue
        cs.hasmenu, cs.ps = st[1]
        if rd[0] == "list":
            cs.L, cs.complete = rd[1]["cands"], bool(rd[1]["ended"])
        else:
            cs.L, cs.complete = [], True
        stats["states"] += 1
        stats.setdefault("per_schema", {})[cs.schema] = stats.get("per_schema", {}).get(cs.schema, 0) + 1
        stats["list_lengths"].append(len(cs.L))
        if bool(cs.hasmenu) != bool(cs.L):
            fails.append((cs, [], "has-menu", "HasMenu=%d but the iterator yields %d candidates" % (cs.hasmenu, len(cs.L))))
        uses_uniq = STOCK.get(cs.schema, {}).get("uniq") or "uniquifier" in all_syn().get(cs.schema, {}).get("filters", [])
        if uses_uniq:
            texts = [text_of(p) for p in cs.L]
            if len(set(texts)) != len(texts):
                seen = {}
                for j, t in enumerate(texts):
                    if t in seen:
                        fails.append((cs, ["list 0 %d" % (j + 1)], "duplicate",
                                      "text %s (%r) at indices %d and %d" % (t, unhex(t).decode("utf-8", "replace"), seen[t], j)))
                        break
                    seen[t] = j
    cases = [cs for cs in cases if cs.L is not None]
    # phase 2
    orders = {}
    for i, cs in enumerate(cases):
        orders[i] = cs.orders if cs.orders is not None else [gen_order(c.rng, len(cs.L), cs.complete, cs.ps, cap) for _ in range(n_orders)]

    # `key next|prior|up|down` name the selector's actions in the default layout; in the other layouts the same keys are
    # sent by keycode and mean what the layout's keymap says
    NAMED = {"key next": "keyc %d" % 0xff56, "key prior": "keyc %d" % 0xff55, "key up": "keyc %d" % 0xff52, "key down": "keyc %d" % 0xff54}
    for i, cs in enumerate(cases):
        if cs.layout() != 0 and cs.orders is None:
            orders[i] = [[NAMED.get(op, op) for op in ops] for ops in orders[i]]

    def model_script():
        """the orders as a driver script; mindex per line: None | ("L", i, j) | ("op", i, j, k)"""
        mlines, mindex = [], []
        for i, cs in enumerate(cases):
            for j, ops in enumerate(orders[i]):
                if j > 0:
                    mlines.append("again")
                    mindex.append(None)
                elif cs.schema in SYN:
                    mlines += ["reset"] + syn_tr_lines(rows, cs.schema, cs.inp)
                    mlines += ["layout %d" % cs.layout(), "seg %d %d" % (cs.ps, SYN[cs.schema]["cycle"]), "L"]
                    mindex += [None] * (len(SYN[cs.schema]["trs"]) + 4) + [("L", i, j)]
                else:
                    cyc = OPQ[cs.schema]["cycle"] if cs.schema in OPQ else 0
                    mlines += ["layout %d" % cs.layout(), "full %d %d %s" % (cs.ps, cyc, " ".join(cs.L))]
                    mindex += [None, None]
                for k, op in enumerate(ops):
                    mlines.append(op)
                    mindex.append(("op", i, j, k))
        mout = vlib.run_driver("driver_c04", "\n".join(mlines) + "\n").splitlines()
        if len(mout) != len(mlines):
            raise vlib.BuildError("driver_c04 printed %d lines for %d ops" % (len(mout), len(mlines)))
        return mindex, mout

    # the model says which key ops the selector leaves to the navigator in the state they would be sent in (`oos`): those move
    # the caret, so they are taken out of the order (they do not change the model's state either)
    if any(op.startswith("keyc") for i in orders for ops in orders[i] for op in ops):
        mindex, mout = model_script()
        drop = set(m[1:] for m, mo in zip(mindex, mout) if m and m[0] == "op" and mo == "oos")
        if drop:
            stats["keys_left_to_navigator_dropped"] = stats.get("keys_left_to_navigator_dropped", 0) + len(drop)
            for i in orders:
                orders[i] = [[op for k, op in enumerate(ops) if (i, j, k) not in drop] for j, ops in enumerate(orders[i])]
    body, index = [], []          # index: (case_no, order_no, op_no or None, op or None)
    for i, cs in enumerate(cases):
        for j, ops in enumerate(orders[i]):
            body.append(cs.state_line() if (j % 2 == 0 or cs.orders is not None) else "restate")
            index.append((i, j, None, None))
            for k, op in enumerate(ops):
                body.append(op)
                index.append((i, j, k, op))
    rc, out, lines = run_harness_api(c, exe, ws, rows, body, tag + "p2")
    if rc != 0 or len(lines) != len(index):
        stats["harness_aborts"] += 1
        k = min(len(lines), len(index) - 1)
        i, j = index[k][0], index[k][1]
        fails.append((cases[i], orders[i][j], "crash", out[-2500:]))
        index, lines = index[:len(lines)], lines[:len(index)]
    impl_at = {}
    bad = set()
    for (i, j, k, op), l in zip(index, lines):
        if op is None:
            continue
        impl_at[(i, j, k)] = l
        cs = cases[i]
        stats["evaluations"] += 1
        stats["op_kinds"][op.split(" ")[0]] = stats["op_kinds"].get(op.split(" ")[0], 0) + 1
        if op.startswith("keyc"):
            stats["layouts_keyed"][cs.layout()] = stats["layouts_keyed"].get(cs.layout(), 0) + 1
        why = monitor_read(cs, op, parse_api_line(l), cap)
        if why and (i, j) not in bad:
            bad.add((i, j))
            fails.append((cs, orders[i][j], why, "after `%s`: %s" % (op, l[:300])))
    mindex, mout = model_script()
    for m, mo in zip(mindex, mout):
        if m is None:
            continue
        if m[0] == "L":
            cs = cases[m[1]]
            Lm = parse_bracket(mo.split(" ", 1)[1])
            stats["model_lists_compared"] += 1
            if (Lm != cs.L) if cs.complete else (Lm[:len(cs.L)] != cs.L):
                fails.append((cs, [], "model-list", "model list %s != implementation list %s" % (Lm[:8], cs.L[:8])))
        else:
            _, i, j, k = m
            l = impl_at.get((i, j, k))
            if l is None:
                continue          # the harness did not get that far (reported as a crash above)
            if mo != l and (i, j) not in bad:
                bad.add((i, j))
                fails.append((cases[i], orders[i][j], "model-diff", "after `%s`: impl %s | model %s" % (orders[i][j][k], l[:200], mo[:200])))
    for i, cs in enumerate(cases):
        if len(cs.L) > cs.ps:
            stats["nontrivial"].add(cs.ident())
        if len(stats["samples"]) < 5 and len(cs.L) > cs.ps and orders[i]:
            stats["samples"].append({"schema": cs.schema, "options": dict(cs.opts), "input": cs.inp, "list_length": len(cs.L),
                                     "list_complete": cs.complete, "order": orders[i][0],
                                     "first_candidates": [unhex(text_of(p)).decode("utf-8", "replace") for p in cs.L[:6]]})
    return fails


def single_case_fails(c, exe, ws, rows, cs, ops, cap, clause):
    """does this one case (with this one order) still fail with `clause`?"""
    st = {"states": 0, "evaluations": 0, "harness_aborts": 0, "list_lengths": [], "op_kinds": {}, "model_lists_compared": 0,
          "nontrivial": set(), "samples": [], "layouts_keyed": {}}
    one = Case(cs.schema, cs.opts, cs.inp, cs.how, cs.rows_id, orders=[ops] if ops is not None else [])
    f = api_round(c, exe, ws, rows, [one], 0, cap, st, "min")
    return [x for x in f if x[2] == clause]


def ddmin(ops, fails, budget=40):
    n, evals = 2, 0
    while len(ops) >= 2 and evals < budget:
        chunk = max(1, len(ops) // n)
        reduced = False
        for i in range(0, len(ops), chunk):
            cand = ops[:i] + ops[i + chunk:]
            evals += 1
            if fails(cand):
                ops, n, reduced = cand, max(n - 1, 2), True
                break
            if evals >= budget:
                break
        if not reduced:
            if chunk == 1:
                break
            n = min(len(ops), n * 2)
    return ops


def report_api_failure(c, exe, ws, rows, cs, ops, clause, detail, cap):
    sig_clause = {"window": "window", "last-flag": "last-flag", "iterator": "iterator", "iterator-end": "iterator",
                  "page-shape": "window", "page-missing": "window", "iterator-refused": "iterator"}.get(clause, clause)
    if clause == "duplicate":
        # minimise the option set (the input is already a single code)
        opts = list(cs.opts)
        for k in range(len(opts)):
            if opts[k][1] == 1:
                trial = opts[:k] + [(opts[k][0], 0)] + opts[k + 1:]
                t = Case(cs.schema, trial, cs.inp, cs.how, cs.rows_id)
                if single_case_fails(c, exe, ws, rows, t, None, cap, "duplicate"):
                    opts = trial
        small = Case(cs.schema, opts, cs.inp, cs.how, cs.rows_id)
        f = single_case_fails(c, exe, ws, rows, small, None, cap, "duplicate")
        detail = f[0][3] if f else detail
        r = small.as_json(ops=[])
        r.update({"clause": "duplicate", "detail": detail, "rows": rows if cs.schema in all_syn() else None})
        c.report("C04:duplicate:%s" % cs.schema,
                 "candidate list of %s with %s, input %r has the same text twice: %s" %
                 (cs.schema, ",".join("%s=%d" % kv for kv in opts) or "no options", cs.inp, detail), r)
        return
    if clause in ("crash", "state-failed"):
        r = cs.as_json(ops=ops)
        r.update({"clause": clause, "log": detail, "rows": rows if cs.schema in all_syn() else None})
        c.report("C04:%s:%s" % (clause, cs.schema), "harness aborted / sanitizer report while reading the candidates of %s input %r" %
                 (cs.schema, cs.inp), r)
        return
    small = ops
    if ops:
        small = ddmin(list(ops), lambda t: bool(single_case_fails(c, exe, ws, rows, cs, t, cap, clause)))
        f = single_case_fails(c, exe, ws, rows, cs, small, cap, clause)
        detail = f[0][3] if f else detail
    r = cs.as_json(ops=small)
    r.update({"clause": clause, "detail": detail, "rows": rows if cs.schema in all_syn() else None})
    if clause in ("model-diff", "model-list"):
        c.report("C04:correspondence:%s" % cs.schema,
                 "model and implementation disagree on %s input %r (no property violation found on this case): %s" %
                 (cs.schema, cs.inp, detail[:300]), dict(r, broken="correspondence driver_c04 vs c04_harness (api)"), no_input=True)
    else:
        c.report("C04:%s:%s" % (sig_clause, cs.schema),
                 "%s: reading %s input %r through %d calls disagrees with the straight iterator read of a fresh identical state: %s" %
                 (clause, cs.schema, cs.inp, len(small or []), detail[:300]), r)


# ------------------------------------------------------------------ menu level
def gen_menu_case(rng):
    filters = rng.choice([[], [], ["uniq"], ["uniq"], ["uniq", "scf"], ["uniq", "scf"], ["scf", "uniq"], ["scf"]])
    allow_null = "uniq" not in filters
    lines = ["reset"]
    ntr = rng.choice([0, 1, 2, 2, 3, 3, 4])
    serial = [0]

    def cand(allow_null_here):
        if allow_null_here and rng.random() < 0.08:
            return "null"
        serial[0] += 1
        start = rng.choice([0, 0, 0, 0, 1])
        end = start + rng.choice([1, 1, 2, 2, 3])
        flag = "t" if rng.random() < (0.85 if "scf" in filters else 0.4) else "s"
        return "%s:%s:%d:%d:%d:%s" % (hx(rng.choice(TEXTS[:9])), hx("c%d" % serial[0]), start, end, rng.choice([-1, 0, 0, 1, 1, 2]), flag)
    probe = rng.random() < 0.15
    for _ in range(ntr):
        wr = []
        distinct = rng.random() < 0.2
        if distinct:
            wr.append("distinct")
        if rng.random() < 0.25:
            wr.append("cache")
        if rng.random() < 0.2:
            wr.append("prefetch%d" % rng.choice([1, 1, 2, 3, 9]))
        k = rng.choice([0, 1, 2, 3, 4, 6, 9])
        r = rng.random()
        if r < 0.08:
            wr.append("unique")
            cs = [cand(False)]
        elif r < 0.30:
            # a UnionTranslation of 2 (operator+) or more pieces, empty ones among them
            wr.append("union")
            cs = []
            for piece in range(rng.choice([2, 2, 3, 4])):
                cs += (["/"] if piece else []) + [cand(allow_null and not distinct) for _ in range(rng.choice([0, 0, 1, 2, 3]))]
        else:
            cs = [cand(allow_null and not distinct) for _ in range(k)]
        lines.append(" ".join(["tr"] + wr + cs))
        if probe and rng.random() < 0.4:
            lines.append("tprobe %d" % rng.choice([1, 3, len(cs) + 2, len(cs) + 3]))
    if probe:
        # the translations alone, past their exhaustion: no menu in this case
        lines.append("probe %d" % rng.choice([2, 5, 12, 40]))
        return {"lines": lines, "filters": [], "ntr": ntr, "probe": True}
    lines.append("menu " + " ".join(filters))
    for _ in range(rng.choice([3, 6, 10, 16])):
        r = rng.random()
        if r < 0.25:
            lines.append("prepare %d" % rng.choice([0, 1, 2, 3, 5, 8, 13, 40]))
        elif r < 0.55:
            lines.append("page %d %d" % (rng.choice([1, 2, 3, 3, 4, 5, 0]), rng.choice([0, 0, 1, 1, 2, 3, 6])))
        elif r < 0.8:
            lines.append("at %d" % rng.choice([0, 1, 2, 3, 4, 5, 7, 11, 30]))
        elif r < 0.88:
            lines.append("empty")
        elif r < 0.94:
            lines.append("count")
        else:
            lines.append("dump")
    lines += ["prepare 100000", "dump", "empty"]
    return {"lines": lines, "filters": filters, "ntr": ntr}


def strip_g(item):
    return ":".join(item.split(":")[:4])


def menu_monitor(case, impl):
    """window / index / last-flag / no-duplicate on the implementation's menu-level output, against its own final dump"""
    lines = case["lines"]
    if len(impl) != len(lines):
        return "crash"
    if case.get("probe"):
        return None          # translations driven past their exhaustion: compared with the model only
    full = [strip_g(x) for x in parse_bracket(impl[-2].split(" ", 1)[1])]
    nulls = any("null" in l.split(" ") for l in lines if l.startswith("tr"))
    for op, o in zip(lines, impl):
        w = op.split(" ")
        if w[0] == "page":
            ps, p = int(w[1]), int(w[2])
            if o == "page null":
                if ps > 0 and ps * p < len(full):
                    return "window"
                continue
            f = o.split(" ", 5)
            got = [strip_g(x) for x in parse_bracket(f[5])]
            if got != full[ps * p: ps * p + ps]:
                return "window"
            if ps > 0 and not nulls and bool(int(f[3])) != (ps * (p + 1) >= len(full)):
                return "last-flag"
            if ps > 0 and int(f[3]) and ps * (p + 1) < len(full):
                return "last-flag"
        elif w[0] == "at":
            i = int(w[1])
            want = full[i] if i < len(full) else None
            got = None if o == "at null" else strip_g(o.split(" ", 1)[1])
            if got != want:
                return "index"
        elif w[0] == "prepare":
            if int(o.split(" ")[1]) > len(full):
                return "count"
    if case["filters"] and case["filters"][-1] == "uniq" or case["filters"] == ["uniq", "scf"]:
        texts = [x.split(":")[0] for x in full]
        if len(set(texts)) != len(texts):
            return "duplicate"
    return None


def run_menu_cases(c, exe, cases, tag):
    p = os.path.join(c.work, "%s.script" % tag)
    body = []
    for cs in cases:
        body += cs["lines"]
    with open(p, "w") as f:
        f.write("\n".join(body) + "\n")
    rc, out = vlib.sh([exe, "menu", p], env=vlib.SAN_ENV, timeout=3000)
    impl = [l for l in out.splitlines() if re.match(r"(reset|tr ok|menu ok|prepare|page|at|empty|count|dump|tprobe|probe|bad-op)\b", l)]
    model = vlib.run_driver("driver_c04", "\n".join(body) + "\n").splitlines()
    return rc, out, impl, model


def menu_round(c, exe, cases, stats, tag="m"):
    """returns list of (case, kind, detail)"""
    fails = []
    rc, out, impl, model = run_menu_cases(c, exe, cases, tag)
    pos = 0
    for cs in cases:
        n = len(cs["lines"])
        i_seg, m_seg = impl[pos:pos + n], model[pos:pos + n]
        pos += n
        if len(i_seg) < n:
            fails.append((cs, "crash", out[-2500:]))
            break
        stats["menu_cases"] += 1
        stats["probe_cases"] = stats.get("probe_cases", 0) + bool(cs.get("probe"))
        stats["evaluations"] += n
        if cs["ntr"] >= 2:
            stats["nontrivial"].add(hashlib.sha256("\n".join(cs["lines"]).encode()).hexdigest())
        why = menu_monitor(cs, i_seg)
        if why:
            fails.append((cs, why, "\n".join(i_seg[-4:])))
            continue
        for op, a, b in zip(cs["lines"], i_seg, m_seg):
            if a != b:
                fails.append((cs, "model-diff", "after `%s`: impl %s | model %s" % (op, a[:300], b[:300])))
                break
    if rc != 0 and not fails:
        fails.append((cases[-1], "crash", out[-2500:]))
    return fails


def report_menu_failure(c, exe, cs, kind, detail):
    st = {"menu_cases": 0, "evaluations": 0, "nontrivial": set()}
    if cs.get("probe"):
        r = {"kind": "menu", "lines": cs["lines"], "filters": [], "ntr": cs["ntr"], "probe": True, "clause": kind, "detail": detail}
        if kind == "model-diff":
            c.report("C04:correspondence:menu", "translation model and the translations of translation.cc disagree when driven past their exhaustion: %s" % detail[:300],
                     dict(r, broken="correspondence driver_c04 vs c04_harness (menu)"), no_input=True)
        else:
            c.report("C04:%s:menu" % kind, "translations of translation.cc driven past their exhaustion: %s: %s" % (kind, detail[:300]), r)
        return
    head = [l for l in cs["lines"] if l.split(" ")[0] in ("reset", "tr", "menu")]
    tail = ["prepare 100000", "dump", "empty"]
    mid = [l for l in cs["lines"][len(head):-3]]

    def fails(ops):
        t = dict(cs, lines=head + ops + tail)
        return any(f[1] == kind for f in menu_round(c, exe, [t], dict(st, nontrivial=set()), "mm"))
    small = ddmin(mid, fails) if mid and fails(mid) else mid
    r = {"kind": "menu", "lines": head + small + tail, "filters": cs["filters"], "ntr": cs["ntr"], "clause": kind, "detail": detail}
    if kind == "model-diff":
        c.report("C04:correspondence:menu", "Menu/translation model and rime::Menu disagree: %s" % detail[:300],
                 dict(r, broken="correspondence driver_c04 vs c04_harness (menu)"), no_input=True)
    else:
        c.report("C04:%s:menu" % kind, "rime::Menu over generated translations (filters %s): %s violated: %s" %
                 (cs["filters"], kind, detail[:300]), r)


# ------------------------------------------------------------------ corpus
def corpus_cases():
    api, menu = [], []
    d = os.path.join(vlib.CORPUS, "C04")
    for f in sorted(glob.glob(os.path.join(d, "*.json"))):
        r = json.load(open(f))
        if r.get("kind") == "api":
            api.append((r, os.path.basename(f)))
        elif r.get("kind") == "menu":
            menu.append((r, os.path.basename(f)))
    return api, menu


def case_from_json(r):
    orders = [r["ops"]] if r.get("ops") else None
    return Case(r["schema"], [tuple(x) for x in r.get("options", [])], r["input"], r.get("how", "keys"), orders=orders)


def rows_from_json(r):
    rows = r.get("rows") or {}
    return {ns: {k: [tuple(x) for x in v] for k, v in t.items()} for ns, t in rows.items()}


# ------------------------------------------------------------------ run
def run(c):
    quick = c.tier == "quick"
    cap = 400 if quick else 2500
    n_orders = 3 if quick else 4
    audit = vlib.lean_audit("C04")
    if not quick and audit["ok"]:
        ok, log = vlib.leanchecker("RimeModel.Props.C04")
        if not ok:
            audit["ok"] = False
            audit["failures"].append(("RimeModel.Props.C04", "leanchecker: " + log))
    exe, bdir = vlib.build_harness("c04_harness", "san", ["c04_harness.cc"])
    rcd, outd = vlib.lake_build(["driver_c04"])
    if rcd != 0:
        raise vlib.BuildError("driver_c04 does not build: " + outd[-3000:])
    ws = workspace(c, bdir)
    stats = {"states": 0, "evaluations": 0, "harness_aborts": 0, "list_lengths": [], "op_kinds": {}, "model_lists_compared": 0,
             "nontrivial": set(), "samples": [], "menu_cases": 0, "layouts_keyed": {}, "probe_cases": 0}
    found = []          # (reporter, args) — reported after all rounds so that minimisation does not disturb the counts
    api_corpus, menu_corpus = corpus_cases()

    # --- menu level: corpus, then generated
    mcases = [dict(r, lines=r["lines"], filters=r.get("filters", []), ntr=r.get("ntr", 2), probe=r.get("probe", False)) for r, _ in menu_corpus]
    mcases += [gen_menu_case(c.rng) for _ in range(400 if quick else 4000)]
    for k in range(0, len(mcases), 500):
        for cs, kind, detail in menu_round(c, exe, mcases[k:k + 500], stats, "m%d" % k):
            found.append(("menu", (cs, kind, detail)))
    menu_sample = mcases[len(menu_corpus)]["lines"] if len(mcases) > len(menu_corpus) else None

    # --- API level
    rounds = []         # (rows, cases)
    for r, name in api_corpus:
        rounds.append((rows_from_json(r), [case_from_json(r)], "corpus"))
    # synthetic schemas: several tables
    for t in range(2 if quick else 6):
        rows = gen_rows(c.rng)
        cases = []
        for sid in sorted(SYN):
            keys = sorted({k for ns in SYN[sid]["trs"] for k in rows[ns]})
            inputs = set(keys[:])
            for _ in range(6 if quick else 20):
                inputs.add("".join(c.rng.choice("abc") for _ in range(c.rng.choice([1, 2, 3, 4]))))
            for inp in sorted(inputs)[: (14 if quick else 40)]:
                cases.append(Case(sid, layout_opts(c.rng), inp, c.rng.choice(["keys", "keys", "set"]), rows_id=t))
        rounds.append((rows, cases, "syn%d" % t))
    # synthetic schemas with simplifier / charset_filter: every combination of their options over the rounds
    for t in range(2 if quick else 6):
        rows = gen_rows(c.rng, TEXTS_X)
        cases = []
        if t == 0:
            # directed: whole pages of kept candidates (page size 4) with removed ones at the very start, in the middle and —
            # one to three of them — at the very end (the page before that tail is the last one):
            # `c` = R k k k k R R R; `cc` = k k R k k R R + the list of `c`; `ccc` = k k k k R + the list of `cc`
            for ns in rows:
                for k in ("c", "cc", "ccc"):
                    rows[ns].pop(k, None)
            plain = ["一", "二", "三", "四", "五", "六", "七", "八", "九", "十", "百", "千"]
            K = lambda xs: [(x, "d", 0, "t") for x in xs]
            R = lambda xs: [(x, "", 0, "s") for x in xs]
            rows["a"]["c"] = R(["𠀀"]) + K(plain[:4]) + R(["㐀", "丽", "䶿"])
            rows["a"]["cc"] = K(plain[4:6]) + R(["㏿"]) + K(plain[6:8]) + R(["豈", "𪜀"])
            rows["a"]["ccc"] = K(plain[8:]) + R(["𫝀"])
            # (the filter alone first: behind a uniquifier a filter that misreports its end can take the whole run down)
            for sid0 in ("c04_charset0", "c04_charset"):
                for inp in ("ccc", "cc", "c"):
                    for ext in (0, 1):
                        if sid0 == "c04_charset0":
                            cases.append(Case(sid0, [("extended_charset", ext)] + layout_opts(c.rng), inp, c.rng.choice(["keys", "set"]), rows_id="x0"))
                        else:
                            cases.append(Case(sid0, [("extended_charset", ext), ("simplification", 0)], inp, "keys", rows_id="x0"))
        if t == 0:
            # directed: lists of exactly 1, 2, 3 and 4 whole pages (page size 3) in the schemas with echo_translator
            # (the echoed input itself is never elected while another translation has candidates: EchoTranslation::Compare)
            plain2 = ["甲", "乙", "丙", "丁", "戊", "己", "庚", "辛", "壬", "癸", "子", "丑"]
            for ns in rows:
                for k in ("b", "bb", "bbb", "bbbb"):
                    rows[ns].pop(k, None)
            for n, k in enumerate(("bbbb", "bbb", "bb", "b")):
                rows["a"][k] = [(x, "e", 0, "t" if n % 2 else "s") for x in plain2[3 * n:3 * n + 3]]
            for inp in ("bbbb", "bbb", "bb", "b"):
                for how in ("keys", "set"):
                    cases.append(Case("c04_echo", layout_opts(c.rng), inp, how, rows_id="x0"))
                    cases.append(Case("c04_echo2", [], inp, how, rows_id="x0"))
        # punctuation keys: one segment tagged `punct`; after a letter as well (the punctuation segment follows an abc segment)
        for inp in ("/", ";", "$", "a/", "b;"):
            combo = c.rng.randrange(4)
            cases.append(Case("c04_punct", [("simplification", combo & 1), ("full_shape", combo >> 1)] + layout_opts(c.rng), inp,
                              c.rng.choice(["keys", "set"]), rows_id="x%d" % t))
        for sid in sorted(OPQ):
            keys = sorted({k for ns in OPQ[sid]["trs"] for k in rows[ns]})
            c.rng.shuffle(keys)
            for n, inp in enumerate(keys[: (6 if quick else 30)]):
                names = OPQ[sid]["options"]
                combo = (t * 7 + n) % (1 << len(names))
                opts = [(nm, (combo >> b) & 1) for b, nm in enumerate(names)]
                cases.append(Case(sid, opts + layout_opts(c.rng), inp, c.rng.choice(["keys", "keys", "set"]), rows_id="x%d" % t))
        rounds.append((rows, cases, "opq%d" % t))
    # stock schemas
    cases = []
    for code in cangjie_inputs(c.rng, quick):
        if quick:
            combos = [c.rng.choice([(1, 1), (1, 1), (1, 0), (0, 1), (0, 0)])]
        else:
            combos = [(1, 1)] + ([(0, 0), c.rng.choice([(1, 0), (0, 1)])] if len(code) <= 2 else [])
        for (s, e) in combos:
            cases.append(Case("cangjie5", [("simplification", s), ("extended_charset", e)] + layout_opts(c.rng), code, c.rng.choice(["keys", "keys", "set"])))
    for w in luna_inputs(c.rng, 40 if quick else 300):
        simp, tw = c.rng.choice([(0, 0), (1, 0), (1, 0), (0, 1), (1, 1)])
        cases.append(Case("luna_pinyin", [("zh_simp", simp), ("zh_tw", tw)] + layout_opts(c.rng), w, c.rng.choice(["keys", "keys", "set"])))
    for k in range(0, len(cases), 150):
        rounds.append(({}, cases[k:k + 150], "stock%d" % k))
    for rows, cs_list, tag in rounds:
        for (cs, ops, clause, detail) in api_round(c, exe, ws, rows, cs_list, n_orders, cap, stats, tag):
            found.append(("api", (rows, cs, ops, clause, detail)))

    # --- verdicts (O first: property violations with their minimised input; then correspondence; then proof)
    prop = [f for f in found if (f[0] == "api" and f[1][3] not in ("model-diff", "model-list")) or
            (f[0] == "menu" and f[1][1] != "model-diff")]
    corr = [f for f in found if f not in prop]
    seen_sig = set()
    for kind, args in prop + ([] if prop else corr):
        if kind == "api":
            rows, cs, ops, clause, detail = args
            key = (cs.schema, clause)
            if key in seen_sig:
                continue
            seen_sig.add(key)
            report_api_failure(c, exe, ws, rows, cs, ops, clause, detail, cap)
        else:
            cs, k, detail = args
            if ("menu", k) in seen_sig:
                continue
            seen_sig.add(("menu", k))
            report_menu_failure(c, exe, cs, k, detail)
    if not audit["ok"] and not c.violations and not c.known_hits:
        c.report("C04:proof", "proof obligation no longer checks: %s" % "; ".join("%s: %s" % f for f in audit["failures"])[:600],
                 {"kind": "proof", "broken_theorems": audit["failures"], "lean_log": audit["log"][-3000:]}, no_input=True)

    cov = vlib.proof_cov(audit, "lake build RimeModel.Props.C04 && #print axioms (all theorems) && forbidden-token scan"
                         + ("" if quick else " && leanchecker RimeModel.Props.C04"),
                         vlib.STD_TRUSTED + ["OpenCC / dictionary data as installed (stock schemas enter the model as their observed list)"])
    ll = stats["list_lengths"]
    samples = stats["samples"]
    if menu_sample:
        samples = samples + [{"menu_level_case": menu_sample}]
    cov.update({
        "evaluations": stats["evaluations"], "distinct_nontrivial": len(stats["nontrivial"]),
        "rule": ("API level: composing states (schema, option set, input, keys|set_input) on cangjie5 (1-3 letter codes, "
                 "simplification x extended_charset), luna_pinyin (syllable strings, zh_simp/zh_tw) and 4 synthetic schemas with 2-3 "
                 "table-driven translators (overlapping texts, equal qualities; filters none / uniquifier / uniquifier+single_char_filter / "
                 "single_char_filter+uniquifier); each state is read straight through by the iterator in one process (cap %d candidates) and "
                 "then in %d random orders (page-first, iterator-first, far-index-first, highlight jumps, selector keys, re-reads), each on a "
                 "fresh identical state (new session / re-composed) in another process; every observation is compared with the straight list "
                 "and with the Lean model. Menu level: generated translations (0-4, with nulls, cache/distinct wrappers, 5 filter chains) "
                 "driven by random Prepare/CreatePage/GetCandidateAt/empty sequences against the model. evaluations = observation lines "
                 "compared; non-trivial = API state whose list spans more than one page, or menu case with >= 2 translations; distinct by "
                 "(schema, options, input, how) / script hash. Added: 4 synthetic schemas whose filters are simplifier (s2t one-to-many, "
                 "show_in_comment / inherit_comment / comment_format / tips all-char-none / tip / excluded_types / two in a row) and "
                 "charset_filter, every combination of their options, texts at both ends of the extended-CJK blocks (model fed their "
                 "observed list, like the stock schemas); every state carries one of the selector's four layouts (_vertical, _linear, "
                 "_horizontal) and the orders send the 16 arrow / paging / Home / End keys by keycode, the model looking each up in the "
                 "generated keymap of that layout (keys the selector leaves to the navigator are taken out first); menu level: "
                 "UnionTranslation (operator+ and +=, empty pieces), UniqueTranslation, a PrefetchTranslation with a queueing "
                 "Replenish, and `probe` cases calling Peek / Next on single and merged translations past their exhaustion") % (cap, n_orders),
        "samples": samples[:6],
        "api_states": stats["states"], "menu_cases": stats["menu_cases"], "op_kind_distribution": stats["op_kinds"],
        "translation_probe_cases": stats.get("probe_cases", 0), "key_ops_by_selector_layout": {str(k): v for k, v in sorted(stats["layouts_keyed"].items())},
        "key_ops_left_to_navigator_dropped": stats.get("keys_left_to_navigator_dropped", 0), "states_per_schema": stats.get("per_schema", {}),
        "model_lists_compared": stats["model_lists_compared"], "harness_aborts": stats["harness_aborts"],
        "list_length_max": max(ll) if ll else 0, "list_length_median": sorted(ll)[len(ll) // 2] if ll else 0,
        "lists_truncated_at_cap": sum(1 for x in ll if x >= cap),
        "corpus_cases": len(api_corpus) + len(menu_corpus),
        "property_failures_found": len(prop), "correspondence_mismatches": len(corr),
        "source_hash": vlib.source_hash(SRC_FILES), "proof_failures": audit["failures"],
    })
    c.cov = cov
    c.assumptions = ["input, options and learned data unchanged between the reads being compared (no commits are made)",
                     "no null Peek() pending when the last-page flag is computed (monitored: the flag is checked on every page read)",
                     "page_size >= 1 (Schema::page_size enforces it)"]


def replay(c, r):
    exe, bdir = vlib.build_harness("c04_harness", "san", ["c04_harness.cc"])
    rcd, outd = vlib.lake_build(["driver_c04"])
    if rcd != 0:
        raise vlib.BuildError("driver_c04 does not build: " + outd[-3000:])
    if r.get("kind") == "menu":
        st = {"menu_cases": 0, "evaluations": 0, "nontrivial": set()}
        cs = dict(lines=r["lines"], filters=r.get("filters", []), ntr=r.get("ntr", 2), probe=r.get("probe", False))
        rc, out, impl, model = run_menu_cases(c, exe, [cs], "rp")
        for op, a, b in zip(cs["lines"], impl, model):
            print("%-14s impl: %s%s" % (op[:14], a[:200], "" if a == b else "   | MODEL: " + b[:200]))
        f = menu_round(c, exe, [cs], st, "rp")
        print("replay:", [(k, d[:200]) for _, k, d in f] or "ok")
        return 1 if f else 0
    if r.get("kind") == "api":
        ws = workspace(c, bdir)
        cap = 400 if r.get("tier", "quick") == "quick" else 2500
        cs = case_from_json(r)
        if cs.orders is None:
            cs.orders = []
        st = {"states": 0, "evaluations": 0, "harness_aborts": 0, "list_lengths": [], "op_kinds": {}, "model_lists_compared": 0,
              "nontrivial": set(), "samples": [], "layouts_keyed": {}}
        f = api_round(c, exe, ws, rows_from_json(r), [cs], 0, cap, st, "rp")
        print("state: %s  list length %s%s" % (cs.state_line(), len(cs.L or []), "" if cs.complete else " (truncated)"))
        print("first candidates:", [unhex(text_of(p)).decode("utf-8", "replace") for p in (cs.L or [])[:8]])
        for (_, ops, clause, detail) in f:
            print("replay: %s: %s" % (clause, detail[:400]))
        if not f:
            print("replay: ok")
        return 1 if f else 0
    print("replay: this file names a broken obligation, no concrete input:", r.get("what"))
    return 1
