"""C05 — editing keys act on the raw input exactly like a text buffer with a caret."""
import os, sys, json, itertools
import vlib
from checks import session_common as sc

META = {
    "technique": "Lean 4 refinement proof (processor chain with generated keymaps refines a caret text buffer) + differential correspondence",
    "level": "proof",
    "level_text": ("Theorem C05.chain_refines_buf(_concrete): for every environment in the configuration class Cfg05 (standard chain, no "
                   "auto-select / max code length / auto-clear), both editor flavours, any translation oracle and every finite "
                   "sequence over the editing-key alphabet, (input, caret), the handled flags and the commit buffer of the modelled "
                   "chain equal those of the plain text buffer; proved by a simulation step (key_refines_step) over a state-shape "
                   "invariant, with the concrete Compose port shown to satisfy the segmentation hypothesis (compose_letters). "
                   "Default keymaps are regenerated from editor.cc/navigator.cc/selector.cc and the 34 keymap facts the proof uses "
                   "are re-checked by the kernel on every run. The model is run key-for-key against the real engine and the real "
                   "engine is compared with the text buffer directly."),
    "level_note": ("Trusted: Lean kernel; keymap translator; model tied by differential runs (all sequences to a length bound + random "
                   "long ones). Processors ahead of the speller in stock schemas (ascii_composer, recognizer, key_binder) are assumed "
                   "noop on the alphabet — monitored on luna_pinyin/cangjie5 in the thorough tier, since any acceptance changes the "
                   "observation."),
    "design_ref": "DESIGN.md §3 C05",
}

KEYS = {"BackSpace": "backSpace", "Delete": "delete", "KP_Left": "kpLeft", "KP_Right": "kpRight", "Right": "right",
        "Home": "home", "End": "end", "Escape": "escape"}
CODE2NAME = {sc.XK[k]: k for k in KEYS}


def buf_step(text, caret, code):
    """the specification (same as RimeModel.Session.Buf.step)"""
    if 0x20 < code < 0x7f:
        return text[:caret] + bytes([code]) + text[caret:], caret + 1
    k = CODE2NAME[code]
    if k == "BackSpace":
        return (text, caret) if caret == 0 else (text[:caret - 1] + text[caret:], caret - 1)
    if k == "Delete":
        return (text, caret) if caret + 1 > len(text) else (text[:caret] + text[caret + 1:], caret)
    if k == "KP_Left":
        return text, (len(text) if caret == 0 else caret - 1)
    if k in ("KP_Right", "Right"):
        return text, (0 if caret >= len(text) else caret + 1)
    if k == "Home":
        return text, 0
    if k == "End":
        return text, len(text)
    return b"", 0


def monitor(state, op, o):
    w = op.split(" ")
    if w[0] != "key" or "nocontext" in o:
        if w[0] in ("new", "schema"):
            state["buf"] = (b"", 0)
        return None
    code = int(w[1])
    text, caret = state.get("buf", (b"", 0))
    handled_expected = bool(text) or (0x20 < code < 0x7f)
    text, caret = buf_step(text, caret, code)
    state["buf"] = (text, caret)
    if sc.unhex(o.get("input")) != text:
        return "input!=buffer"
    if int(o.get("caret", -1)) != caret:
        return "caret!=buffer"
    if (o.get("ret") == "1") != handled_expected:
        return "handled-flag"
    if sc.unhex(o.get("pending")):
        return "committed"
    return None


IN_CLASS = ["vs_script", "vs_fluid", "vs_multi", "vs_semi", "vs_semif"]


def histories(c, quick):
    rows_for, hs = {}, []
    edit_codes = [sc.XK[k] for k in KEYS]
    for sid in IN_CLASS:
        s = sc.SCHEMAS[sid]
        rows_for[sid] = sc.gen_table(c.rng, s["alphabet"])
        letters = [ord(x) for x in s["alphabet"][:2]]
        if not s["alphabet"].isalpha():      # a spelling key outside a-z, where a syllable starts and elsewhere
            letters = [ord(s["alphabet"][0]), ord(next(ch for ch in s["alphabet"] if not ch.isalpha()))]
        alphabet = letters + edit_codes
        depth = 3 if quick else 4
        for n in range(1, depth + 1):
            for seq in itertools.product(alphabet, repeat=n):
                # only maximal-length sequences plus a sample of shorter ones: prefixes are covered by the longer ones
                if n == depth:
                    hs.append((sid, ["key %d 0" % k for k in seq], sid))
        for _ in range(12 if quick else 120):
            hs.append((sid, sc.gen_history(c.rng, sid, s, 60 if quick else 400, "edit"), sid))
    return hs, rows_for


def run(c):
    quick = c.tier == "quick"
    rc, out = vlib.sh([sys.executable, os.path.join(vlib.ROOT, "gen", "keymaps.py"), vlib.REPO,
                       os.path.join(vlib.LEAN, "RimeModel", "Gen", "Keymaps.lean")])
    audit = vlib.lean_audit("C05")
    if rc != 0:
        audit["ok"] = False
        audit["failures"].append(("gen/keymaps.py", "translator failed (fails closed): " + out[-500:]))
    if not quick and audit["ok"]:
        ok, log = vlib.leanchecker("RimeModel.Props.C05")
        if not ok:
            audit["ok"] = False
            audit["failures"].append(("RimeModel.Props.C05", "leanchecker: " + log))
    exe = sc.build()
    ws = sc.make_workspace(os.path.join(c.work, "ws"), list(sc.SCHEMAS))
    hs, rows_for = histories(c, quick)
    stats = sc.session_check(c, "C05", monitor, hs, rows_for, exe, ws, "text-buffer refinement")
    if not audit["ok"] and not c.violations:
        c.report("C05:proof", "proof obligation no longer checks: %s" % "; ".join("%s: %s" % f for f in audit["failures"])[:600],
                 {"kind": "proof", "broken_theorems": audit["failures"], "lean_log": audit["log"][-3000:]}, no_input=True)
    cov = vlib.proof_cov(audit, "lake build RimeModel.Props.C05 && #print axioms (all theorems) && forbidden-token scan"
                         + ("" if quick else " && leanchecker"), vlib.STD_TRUSTED + ["translator gen/keymaps.py"])
    cov.update({"evaluations": stats["ops"], "distinct_nontrivial": stats["distinct_nontrivial"],
                "rule": "all key sequences of length %d over {2 letters, BackSpace, Delete, KP_Left, KP_Right, Right, Home, End, Escape} plus seeded random long sequences, on the 5 synthetic schemas of the class (express and fluid editors); non-trivial = observation in a composing state; distinct by (schema, observation line)" % (3 if quick else 4),
                "samples": stats["samples"] or [{"schema": hs[0][0], "ops": hs[0][1]}], "histories": stats["histories"],
                "op_kind_distribution": stats["kinds"], "model_impl_disagreements": stats["diffs"],
                "monitor_violations": stats["violations"], "sanitizer_aborts_skipped": stats["crashes"],
                "proof_failures": audit["failures"]})
    c.cov = cov
    c.assumptions = ["schema in class Cfg05 (checked for the corpus schemas by construction of the generated YAML)",
                     "no selection made, options _linear/_vertical/_horizontal off, no user key rebinding"]


def replay(c, r):
    return sc.replay_history(c, r, monitor)
