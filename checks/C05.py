"""C05 — editing keys act on the raw input exactly like a text buffer with a caret."""
import os, sys, json, itertools
import vlib
from checks import session_common as sc

META = {
    "technique": "Lean 4 refinement proof (processor chain with generated keymaps refines a caret text buffer) + differential correspondence",
    "level": "proof",
    "level_text": ("Theorem C05.chain_refines_buf(_concrete): for every environment in the configuration class Cfg05 (standard chain, no "
                   "auto-select / max code length / auto-clear), both editor flavours, any translation oracle and every finite "
                   "sequence over the editing-key alphabet, (input, caret), the handled flags and the commit buffer of the modelled "
                   "chain equal those of the plain text buffer; proved by a simulation step (key_refines_step) over a state-shape "
                   "invariant, with the concrete Compose port shown to satisfy the segmentation hypothesis (compose_letters). "
                   "Default keymaps are regenerated from editor.cc/navigator.cc/selector.cc and the 34 keymap facts the proof uses "
                   "are re-checked by the kernel on every run. The model is run key-for-key against the real engine and the real "
                   "engine is compared with the text buffer directly."),
    "level_note": ("Trusted: Lean kernel; keymap translator; model tied by differential runs (all sequences to a length bound + random "
                   "long ones). Processors ahead of the speller in stock schemas (ascii_composer, recognizer, key_binder) are assumed "
                   "noop on the alphabet — monitored on luna_pinyin/cangjie5 in the thorough tier, since any acceptance changes the "
                   "observation."),
    "design_ref": "DESIGN.md §3 C05",
}

KEYS = {"BackSpace": "backSpace", "Delete": "delete", "KP_Left": "kpLeft", "KP_Right": "kpRight", "Right": "right",
        "Home": "home", "End": "end", "Escape": "escape"}
CODE2NAME = {sc.XK[k]: k for k in KEYS}


def buf_step(text, caret, code, k=None):
    """the specification (same as RimeModel.Session.Buf.step); `k` names the editing action when the key is not one of the
    default ones (schemas with `bindings`)"""
    if k is None and 0x20 < code < 0x7f:
        return text[:caret] + bytes([code]) + text[caret:], caret + 1
    k = k or CODE2NAME[code]
    if k == "BackSpace":
        return (text, caret) if caret == 0 else (text[:caret - 1] + text[caret:], caret - 1)
    if k == "Delete":
        return (text, caret) if caret + 1 > len(text) else (text[:caret] + text[caret + 1:], caret)
    if k == "KP_Left":
        return text, (len(text) if caret == 0 else caret - 1)
    if k in ("KP_Right", "Right"):
        return text, (0 if caret >= len(text) else caret + 1)
    if k == "Home":
        return text, 0
    if k == "End":
        return text, len(text)
    return b"", 0


def monitor(state, op, o):
    w = op.split(" ")
    if w[0] != "key" or "nocontext" in o:
        if w[0] in ("new", "schema"):
            state["buf"] = (b"", 0)
        return None
    code = int(w[1])
    text, caret = state.get("buf", (b"", 0))
    handled_expected = bool(text) or (0x20 < code < 0x7f)
    text, caret = buf_step(text, caret, code)
    state["buf"] = (text, caret)
    if sc.unhex(o.get("input")) != text:
        return "input!=buffer"
    if int(o.get("caret", -1)) != caret:
        return "caret!=buffer"
    if (o.get("ret") == "1") != handled_expected:
        return "handled-flag"
    if sc.unhex(o.get("pending")):
        return "committed"
    return None


IN_CLASS = ["vs_script", "vs_fluid", "vs_multi", "vs_semi", "vs_semif"]

# ------------------------------------------------------------------ schemas with `bindings` sections (no model behind them)
# The standard editors and the navigator load user bindings (KeyBindingProcessor::LoadConfig, Editor::LoadConfig).  These
# schemas leave every default editing key on its standard action and put the same standard actions on further keys; the
# sections also hold what LoadConfig has to step over (an unknown action name, a key name that does not parse, an entry that
# is not a scalar) and `noop` entries (one removes a default binding, one names a key that has none).  The map is read in
# key order, so every kind of entry is followed by a binding whose effect the runs observe.  The property is evaluated with
# the text buffer directly: each key bound to a standard action must act as that action's default key does.
BIND_SCHEMAS = {
    "vm_bind": dict(
        editor="express_editor",
        yaml=["editor:", "  char_handler: direct_commit", "  bindings:",
              "    BackSpace: revert", "    Control+Return: noop", "    Control+d: delete", "    Control+g: cancel", "    Control+h: back",
              "    F10: no_such_action", "    F11: [cancel]", "    F12: noop", "    NoSuchKey: cancel", "    Shift+F9: cancel",
              "navigator:", "  bindings:",
              "    Control+Left: noop", "    Control+a: home", "    Control+b: left_by_char", "    Control+e: end", "    Control+f: right_by_char",
              "    F10: bogus", "    Left: left_by_char", "    NoSuchKey: home", "    Shift+F8: end",
              "  vertical:", "    bindings:", "      Left: right_by_char",
              "selector:", "  bindings:", "    F10: bogus", "    F7: home"],
        keys={("Control+d",): "Delete", ("Control+g",): "Escape", ("Control+h",): "BackSpace", ("Shift+F9",): "Escape",
              ("Control+a",): "Home", ("Control+b",): "KP_Left", ("Control+e",): "End", ("Control+f",): "Right", ("Left",): "KP_Left",
              ("Shift+F8",): "End"}),
    "vm_bindf": dict(
        editor="fluid_editor",
        yaml=["editor:", "  char_handler: no_such_handler", "  bindings:",
              "    BackSpace: back", "    Control+Delete: noop", "    Control+k: cancel", "    Control+x: delete", "    Delete: delete",
              "    Escape: cancel", "    F10: Confirm", "    F6: revert", "    Shift+Return: noop",
              "navigator:", "  bindings:",
              "    End: end", "    F10: [home]", "    F5: right_by_char", "    Home: home", "    KP_Left: left_by_char", "    Left: left_by_char",
              "    Right: right_by_char", "    Shift+Right: noop", "    Shift+Tab: left_by_char", "    Tab: right_by_char"],
        keys={("Control+k",): "Escape", ("Control+x",): "Delete", ("F6",): "BackSpace", ("F5",): "Right", ("Left",): "KP_Left",
              ("Shift+Tab",): "KP_Left", ("Tab",): "Right"}),
}
sc.KEYNAMES.update({"F7": 0xffc4, "F8": 0xffc5, "F9": 0xffc6, "F10": 0xffc7, "F11": 0xffc8, "F12": 0xffc9})


def bind_yaml(sid, s):
    y = ["schema:", "  schema_id: %s" % sid, "  name: %s" % sid, "  version: '1'", "engine:", "  processors:"]
    y += ["    - %s" % p for p in ["speller", "selector", "navigator", s["editor"]]]
    y += ["  segmentors:", "    - abc_segmentor", "    - fallback_segmentor", "  translators:", "    - vt_translator",
          "speller:", "  alphabet: 'abc'", '  delimiter: "\'"', "menu:", "  page_size: 3"] + s["yaml"]
    return "\n".join(y) + "\n"


def bind_keymap(s):
    """(keycode, mask) -> the default key whose action the key is bound to"""
    km = {(sc.XK[k], 0): k for k in KEYS}
    for (rep,), k in s["keys"].items():
        km[sc.kev(rep)] = k
    return km


def bind_monitor(state, op, o):
    """the text buffer on a schema of BIND_SCHEMAS: as `monitor`, with the schema's own key table"""
    w = op.split(" ")
    if w[0] != "key" or "nocontext" in o:
        if w[0] in ("new", "schema"):
            state["buf"] = (b"", 0)
        return None
    code, mask = int(w[1]), int(w[2])
    text, caret = state.get("buf", (b"", 0))
    letter = mask == 0 and 0x20 < code < 0x7f
    k = None if letter else state["keymap"][(code, mask)]
    handled_expected = bool(text) or letter
    text, caret = buf_step(text, caret, code, k)
    state["buf"] = (text, caret)
    if sc.unhex(o.get("input")) != text:
        return "input!=buffer"
    if int(o.get("caret", -1)) != caret:
        return "caret!=buffer"
    if (o.get("ret") == "1") != handled_expected:
        return "handled-flag"
    if sc.unhex(o.get("pending")):
        return "committed"
    return None


def bind_histories(c, sid, quick):
    s = BIND_SCHEMAS[sid]
    keys = sorted(bind_keymap(s))
    letters = [ord("a"), ord("b")]
    hs = []
    # every key after every buffer of up to two letters with the caret at each place, twice in a row, then a letter and a BackSpace
    for w in ([], [97], [97, 98], [98, 97, 97]):
        for back in range(len(w) + 1):
            pre = ["key %d 0" % x for x in w] + ["key %d 0" % sc.XK["KP_Left"]] * back
            for (code, mask) in keys:
                hs.append(pre + ["key %d %d" % (code, mask)] * 2 + ["key 97 0", "key %d 0" % sc.XK["BackSpace"], "key %d %d" % (code, mask)])
    for _ in range(10 if quick else 150):
        h = []
        for _ in range(50 if quick else 300):
            h.append("key %d 0" % c.rng.choice(letters) if c.rng.random() < 0.45 else "key %d %d" % c.rng.choice(keys))
        hs.append(h)
    return hs


def bind_all_keys(s):
    """every key the `bindings` sections of the schema name — bound to an action, to `noop`, to an unknown action, to a
    non-scalar — as (keycode, mask); names KeyEvent::Parse rejects are left out"""
    import re
    out = []
    for l in s["yaml"]:
        m = re.match(r"\s{4,}([\w+]+): ", l)
        if not m:
            continue
        try:
            k = sc.kev(m.group(1))
        except KeyError:
            continue
        if k not in out:
            out.append(k)
    return out


def bind_crash_histories(rng, sid, n_random):
    """for the no-crash property: every key named in the schema's bindings sections, pressed idle, composing, with the menu
    paged, with the caret inside and after a selection (twice in a row, then a letter and the key again), plus random mixes"""
    s = BIND_SCHEMAS[sid]
    keys = bind_all_keys(s) + [(sc.XK[k], 0) for k in ("Left", "Right", "Up", "Down", "Return", "space", "BackSpace", "Delete", "Escape")] + \
        [(sc.XK["Return"], sc.CONTROL), (sc.XK["Return"], sc.SHIFT), (sc.XK["Delete"], sc.CONTROL), (sc.XK["Left"], sc.CONTROL), (sc.XK["Right"], sc.SHIFT)]
    A, B = "key 97 0", "key 98 0"
    states = [[], [A], [A, B, A], [A, "key %d 0" % sc.XK["Next"]], [A, B, "key %d 0" % sc.XK["KP_Left"]], [A, B, A, "select 1"], ["option _vertical 1", A, B]]
    hs = []
    for (code, mask) in keys:
        key = "key %d %d" % (code, mask)
        for st in states:
            hs.append(st + [key, key, A, key, "key %d 0" % sc.XK["space"], "read_commit"])
    for _ in range(n_random):
        h = []
        for _ in range(80):
            r = rng.random()
            h.append("key %d 0" % rng.choice([97, 98, 99]) if r < 0.4 else "key %d %d" % rng.choice(keys) if r < 0.9 else
                     rng.choice(["select 1", "page +", "caret 1", "option _vertical 1", "option _vertical 0", "commit", "clear"]))
        hs.append(h)
    return hs


def bind_workspace(c, name="ws_bind"):
    ws = os.path.join(c.work, name)
    sc.make_workspace(ws, sorted(BIND_SCHEMAS), extra_files={sid + ".schema.yaml": bind_yaml(sid, s) for sid, s in BIND_SCHEMAS.items()})
    return ws


def bind_eval(c, exe, ws, rows, sid, histories, tag):
    """the histories of one schema in one harness run; returns (rc, log, [(history_no, op_no, op, clause, line)] first per history, ops run)"""
    script, index = sc.make_script(rows, [(sid, h) for h in histories])
    p = os.path.join(c.work, "%s.script" % tag)
    with open(p, "w") as f:
        f.write(script)
    rc, out = sc.run_impl(exe, ws, p)
    impl = [l for l in out.splitlines() if l.startswith("ret=") or l == "bad-op"]
    km = bind_keymap(BIND_SCHEMAS[sid])
    states, bad, n = {}, {}, 0
    for i, (h, j, op) in enumerate(index):
        if i >= len(impl):
            break
        st = states.setdefault(h, {"keymap": km})
        why = bind_monitor(st, op, sc.parse_obs(impl[i]))
        n += j >= 0
        if why and j >= 0 and h not in bad:
            bad[h] = (h, j, op, why, impl[i])
    if len(impl) < len(index) and rc == 0:
        rc = -1
    return rc, out[-2500:], [bad[h] for h in sorted(bad)], n


def bind_check(c, exe, quick):
    """runs BIND_SCHEMAS; reports violations (shrunk); returns evidence counts"""
    st = {"schemas": sorted(BIND_SCHEMAS), "histories": 0, "ops": 0, "violations": 0, "aborts": 0, "keys_with_user_binding": 0}
    ws = os.path.join(c.work, "ws_bind")
    sc.make_workspace(ws, sorted(BIND_SCHEMAS), extra_files={sid + ".schema.yaml": bind_yaml(sid, s) for sid, s in BIND_SCHEMAS.items()})
    rows = sc.gen_table(c.rng, "abc")
    for sid in sorted(BIND_SCHEMAS):
        hs = bind_histories(c, sid, quick)
        st["keys_with_user_binding"] += len(BIND_SCHEMAS[sid]["keys"])
        rc, log, bad, n = bind_eval(c, exe, ws, rows, sid, hs, "bind_" + sid)
        st["histories"] += len(hs)
        st["ops"] += n
        if rc != 0:
            st["aborts"] += 1
        for (h, j, op, why, line) in bad[:1]:
            st["violations"] += 1
            ops = hs[h][:j + 1]
            fails = lambda t: any(b[3] == why for b in bind_eval(c, exe, ws, rows, sid, [t], "bind_sh")[2])
            small = sc.ddmin(ops, fails)
            c.report("C05:%s:%s" % (sc.op_kind(small[-1]), why),
                     "text-buffer refinement violated (%s) after %d keys on %s (standard editor and navigator with a `bindings` section)" % (why, len(small), sid),
                     {"kind": "impl-violation", "schema": sid, "schema_yaml": bind_yaml(sid, BIND_SCHEMAS[sid]), "table": rows, "ops": small,
                      "observation": line, "clause": why})
    return st


def histories(c, quick):
    rows_for, hs = {}, []
    edit_codes = [sc.XK[k] for k in KEYS]
    for sid in IN_CLASS:
        s = sc.SCHEMAS[sid]
        rows_for[sid] = sc.gen_table(c.rng, s["alphabet"])
        letters = [ord(x) for x in s["alphabet"][:2]]
        if not s["alphabet"].isalpha():      # a spelling key outside a-z, where a syllable starts and elsewhere
            letters = [ord(s["alphabet"][0]), ord(next(ch for ch in s["alphabet"] if not ch.isalpha()))]
        alphabet = letters + edit_codes
        depth = 3 if quick else 4
        for n in range(1, depth + 1):
            for seq in itertools.product(alphabet, repeat=n):
                # only maximal-length sequences plus a sample of shorter ones: prefixes are covered by the longer ones
                if n == depth:
                    # + one more editing key: the handled flag of a key depends on the state the sequence left behind
                    hs.append((sid, ["key %d 0" % k for k in seq] + ["key %d 0" % sc.XK["BackSpace"]], sid))
        for _ in range(12 if quick else 120):
            hs.append((sid, sc.gen_history(c.rng, sid, s, 60 if quick else 400, "edit"), sid))
        # long buffers (beyond 256 letters): typed at the end, passed by inserting at an inner caret and at the start, shortened
        # from both ends and in the middle, cleared
        if sid in ("vs_script", "vs_fluid") or not quick:
            a, b = "key %d 0" % letters[0], "key %d 0" % letters[1]
            K = lambda name: "key %d 0" % sc.XK[name]
            hs.append((sid, [a] * 253 + [b] * 6 + [K("BackSpace")] * 2 + [K("Home"), b, b, K("KP_Right"), a, K("End"), b, K("KP_Left"), K("Delete"),
                             K("Home"), K("Delete"), K("Escape"), a], sid))
            hs.append((sid, [a] * 250 + [K("Home")] + [b] * 8 + [K("KP_Left")] * 3 + [a] * 3 + [K("End"), a, K("BackSpace"), K("KP_Right"), b], sid))
            hs.append((sid, [a] * 128 + [K("KP_Left")] * 64 + [b] * 130 + [K("Delete"), K("BackSpace"), K("End"), a, K("Home"), K("KP_Left"), b], sid))
    return hs, rows_for


def run(c):
    quick = c.tier == "quick"
    rc, out = vlib.sh([sys.executable, os.path.join(vlib.ROOT, "gen", "keymaps.py"), vlib.REPO,
                       os.path.join(vlib.LEAN, "RimeModel", "Gen", "Keymaps.lean")])
    audit = vlib.lean_audit("C05")
    if rc != 0:
        audit["ok"] = False
        audit["failures"].append(("gen/keymaps.py", "translator failed (fails closed): " + out[-500:]))
    if not quick and audit["ok"]:
        ok, log = vlib.leanchecker("RimeModel.Props.C05")
        if not ok:
            audit["ok"] = False
            audit["failures"].append(("RimeModel.Props.C05", "leanchecker: " + log))
    exe = sc.build()
    ws = sc.make_workspace(os.path.join(c.work, "ws"), list(sc.SCHEMAS))
    hs, rows_for = histories(c, quick)
    stats = sc.session_check(c, "C05", monitor, hs, rows_for, exe, ws, "text-buffer refinement")
    bst = bind_check(c, exe, quick)
    if not audit["ok"] and not c.violations:
        c.report("C05:proof", "proof obligation no longer checks: %s" % "; ".join("%s: %s" % f for f in audit["failures"])[:600],
                 {"kind": "proof", "broken_theorems": audit["failures"], "lean_log": audit["log"][-3000:]}, no_input=True)
    cov = vlib.proof_cov(audit, "lake build RimeModel.Props.C05 && #print axioms (all theorems) && forbidden-token scan"
                         + ("" if quick else " && leanchecker"), vlib.STD_TRUSTED + ["translator gen/keymaps.py"])
    cov.update({"evaluations": stats["ops"], "distinct_nontrivial": stats["distinct_nontrivial"],
                "rule": "all key sequences of length %d over {2 letters, BackSpace, Delete, KP_Left, KP_Right, Right, Home, End, Escape} each followed by one more BackSpace, three directed sequences with buffers of 250-330 letters (typed at the end, inserted at an inner caret and at the start, deleted from both ends), plus seeded random long sequences, on the 5 synthetic schemas of the class (express and fluid editors); non-trivial = observation in a composing state; distinct by (schema, observation line)" % (3 if quick else 4),
                "samples": stats["samples"] or [{"schema": hs[0][0], "ops": hs[0][1]}], "histories": stats["histories"],
                "op_kind_distribution": stats["kinds"], "model_impl_disagreements": stats["diffs"],
                "monitor_violations": stats["violations"], "sanitizer_aborts_skipped": stats["crashes"],
                "proof_failures": audit["failures"], "schemas_with_bindings_sections": bst})
    cov["evaluations"] += bst["ops"]
    c.cov = cov
    c.assumptions = ["schema in class Cfg05 (checked for the corpus schemas by construction of the generated YAML)",
                     "no selection made, options _linear/_vertical/_horizontal off; user bindings only where they put the standard actions on further keys (the vm_bind* schemas, text buffer evaluated directly, no model)"]


def replay(c, r):
    if r.get("schema") in BIND_SCHEMAS:
        exe = sc.build()
        ws = os.path.join(c.work, "ws_bind")
        sc.make_workspace(ws, sorted(BIND_SCHEMAS), extra_files={sid + ".schema.yaml": bind_yaml(sid, s) for sid, s in BIND_SCHEMAS.items()})
        rc, log, bad, n = bind_eval(c, exe, ws, [tuple(x) for x in r["table"]], r["schema"], [r["ops"]], "rp")
        print("rc=%d first_viol=%s" % (rc, bad[:1]))
        return 1 if (rc != 0 or bad) else 0
    return sc.replay_history(c, r, monitor)
