"""C06 — a compiled dictionary contains exactly its source entries."""
import os, sys, json, math, struct, re, shutil, glob, time
import vlib
from checks import c06_ext as X

META = {
    "technique": "Lean 4 theorems over a model of collector / vocabulary / four-level index / reverse table / mmap arena + "
                 "differential correspondence with the real DictCompiler on generated *.dict.yaml sources",
    "level": "proof",
    "level_text": ("Theorems C06.enumerate_build_perm / no_foreign_code / weight_sorted / original_order / reverse_exact / "
                   "find_node_correct (+ compile_enumerate_perm end to end from source rows, pack_syllabary_fixed / pack_is_treatment / "
                   "pack_enumerate_perm for a pack's table over the fixed primary syllabary, arena theorems allocate_disjoint, "
                   "allocate_aligned, grow_preserves, offsetptr_get_set): for every list of source rows, any syllabary and any "
                   "sorting routine that returns a weight-sorted permutation, the full enumeration of the built index is a "
                   "permutation of the treated source rows with index code ++ extra code = the row's code, each code's entries "
                   "are in non-increasing weight order (source order for sort: original), the reverse table maps a text to exactly "
                   "its one-syllable codes, and binary search on a built trunk array finds exactly the present keys. The model "
                   "(row parser, collector, LocateEntries paging, BuildIndex, walk, reverse table, stod weight parsing) is run "
                   "against the real DictCompiler + Table::Load + a raw walk of the mapped file on generated sources and diffed "
                   "list by list; the property is also evaluated directly on the implementation's dump against an independent "
                   "python reading of the source — including sources with rows without a code (script and rule-based phrase encoder), "
                   "a stem column (reverse keys text+\\x1fstem, LookupStems), a preset vocabulary with max_phrase_length / "
                   "min_phrase_weight, and packs (own tables over the primary syllabary, also recompiled after a pack was edited)."),
    "level_note": ("Trusted: Lean kernel; yaml-cpp for the header (column map / sort / import_tables are handed to the model), "
                   "marisa-trie (string ids <-> strings), libstdc++ stod / libm log (the monotone cast W -> float is applied by "
                   "the check with the same libm), the harness under ASan+UBSan. Outside the theorems: validity of raw C++ "
                   "pointers across MappedFile::Allocate when the file grows (a runtime matter the offset model cannot exhibit) "
                   "— the generator forces growth and the monitor sees the effect; the phrase encoders (rows without a code, "
                   "preset-vocabulary phrases: ScriptEncoder / TableEncoder with rules, exclude_patterns, tail_anchor), the weight a "
                   "preset vocabulary lends to rows without one, the stem column and the filtering of a pack's rows by the primary "
                   "syllabary are read by an independent python reference (checks/c06_ext.py) that is compared with the real compiler on "
                   "every such source; the Lean model takes the CreateEntry calls that reference derives and builds / enumerates / "
                   "reverse-indexes them as it does explicit rows (packs: a case of their own over the fixed syllabary); byte-level "
                   "layout of the tree in the arena (only allocate/OffsetPtr laws are proved)."),
    "design_ref": "DESIGN.md §3 C06, §2 M-arena",
}

SRC_FILES = ["src/rime/dict/dict_compiler.cc", "src/rime/dict/entry_collector.cc", "src/rime/dict/vocabulary.cc",
             "src/rime/dict/table.cc", "src/rime/dict/table.h", "src/rime/dict/mapped_file.cc", "src/rime/dict/mapped_file.h",
             "src/rime/dict/string_table.cc", "src/rime/dict/reverse_lookup_dictionary.cc", "src/rime/dict/dict_settings.cc",
             "src/rime/algo/strings.cc", "src/rime/algo/encoder.cc"]
GEN_VERSION = 2
DBL_EPSILON = 2.220446049250313e-16
DBL_MIN = 2.2250738585072014e-308
WS = b" \t\n\v\f\r"

# ------------------------------------------------------------------------------------------------ cases
# case = {"name": str, "files": [file...]}; files[0] is the dictionary, the rest its import_tables (in order)
# file = {"fname": str, "columns": [..] | None, "sort": str | None, "body": bytes}


def pack_name(case, k):
    return "%s_p%d" % (case["name"], k)


def vocab_name(case):
    return "%s_voc" % case["name"]


def header_text(case, f, main, fname=None):
    h = "# Rime dictionary (generated)\n---\nname: %s\nversion: \"1\"\n" % (fname or f["fname"])
    if f.get("sort"):
        h += "sort: %s\n" % f["sort"]
    if f.get("columns") is not None:
        h += "columns:\n" + "".join("  - %s\n" % x for x in f["columns"])
    if f.get("cfg"):
        h += X.cfg_yaml(f["cfg"], vocab_name(case))
    if main and fname is None and len(case["files"]) > 1:
        h += "import_tables:\n" + "".join("  - %s\n" % g["fname"] for g in case["files"][1:])
    if f.get("extra_header"):
        h += f["extra_header"]
    return h + "...\n"


def write_case(d, case, packs_key="packs"):
    os.makedirs(d, exist_ok=True)
    for i, f in enumerate(case["files"]):
        with open(os.path.join(d, f["fname"] + ".dict.yaml"), "wb") as o:
            o.write(header_text(case, f, i == 0).encode())
            o.write(f["body"])
    for k, pk in enumerate(case.get(packs_key) or case.get("packs") or []):
        pth = os.path.join(d, pack_name(case, k) + ".dict.yaml")
        if pk is None:
            if os.path.exists(pth):
                os.remove(pth)
            continue
        with open(pth, "wb") as o:
            o.write(header_text(case, pk, True, pack_name(case, k)).encode())
            o.write(pk["body"])
    if case.get("vocab") is not None:
        with open(os.path.join(d, vocab_name(case) + ".txt"), "wb") as o:
            o.write(case["vocab"])
    ep = os.path.join(d, "essay.txt")
    if not os.path.exists(ep):
        with open(ep, "wb") as o:
            o.write(X.essay_body())


def is_ext(case):
    """the source uses what only the extended reference reads: options in the header, a stem column, packs, rows without a code"""
    return bool(case.get("ext") or case.get("packs") is not None or case.get("vocab") is not None or str(case.get("profile", "")).startswith("ext_")
                or any(f.get("cfg") or "stem" in (f.get("columns") or []) for f in case["files"]))


def cols_of(f):
    c = f.get("columns")
    if c is None:
        return 0, 1, 2
    ix = lambda n: c.index(n) if n in c else -1
    return ix("text"), ix("code"), ix("weight")


def case_to_json(case):
    out = {"name": case["name"], "files": []}
    if case.get("before"):
        out["before"] = case_to_json({"name": case["name"], "files": case["before"]})["files"]
    if is_ext(case):
        out["profile"] = case.get("profile") if str(case.get("profile", "")).startswith("ext_") else "ext_replay"
    for key in ("packs", "packs_before"):
        if case.get(key) is not None:
            out[key] = [None if pk is None else case_to_json({"name": "-", "files": [dict(pk, fname="-")]})["files"][0] for pk in case[key]]
    if case.get("vocab") is not None:
        out["vocab_hex"] = case["vocab"].hex()
    for f in case["files"]:
        g = {k: f[k] for k in ("fname", "columns", "sort", "cfg") if k in f}
        try:
            s = f["body"].decode("utf-8")
            if s.encode("utf-8") == f["body"] and "\r" not in s and "\x0b" not in s and "\x0c" not in s:
                g["body"] = s
            else:
                raise ValueError
        except (UnicodeDecodeError, ValueError):
            g["body_hex"] = f["body"].hex()
        out["files"].append(g)
    return out


def case_from_json(j):
    case = {"name": j["name"], "files": []}
    if j.get("profile"):
        case["profile"] = j["profile"]
        case["ext"] = str(j["profile"]).startswith("ext_")
    for key in ("packs", "packs_before"):
        if j.get(key) is not None:
            case[key] = [None if pk is None else case_from_json({"name": "-", "files": [pk]})["files"][0] for pk in j[key]]
    if j.get("vocab_hex") is not None:
        case["vocab"] = bytes.fromhex(j["vocab_hex"])
    for g in j["files"]:
        f = {"fname": g["fname"], "columns": g.get("columns"), "sort": g.get("sort")}
        if g.get("cfg"):
            f["cfg"] = g["cfg"]
        f["body"] = g["body"].encode("utf-8") if "body" in g else bytes.fromhex(g["body_hex"])
        case["files"].append(f)
    if j.get("before"):
        case["before"] = case_from_json({"name": j["name"], "files": j["before"]})["files"]
    return case


# ------------------------------------------------------------------------------------------------ generator
CJK = [chr(c) for c in range(0x4E00, 0x4E00 + 600)]
SYL_STYLES = ["latin", "latin", "pinyin", "punct", "bytes", "utf8", "digits"]
WEIGHT_ODD = [b"0", b"0.0", b"-3", b"", b"1e300", b"1e308", b"1e400", b"1e-320", b"1e-400", b"1e-300", b"12abc", b"abc", b"+7",
              b".5", b"5.", b"1e", b"1e+", b"2E3", b"50%", b"%", b"x%", b"inf", b"-inf", b"nan", b"INF", b"Infinity", b" 8",
              b"0.000001", b"123456789012345678901234567890", b"1.0000000000000000000001", b"3.14159", b"00012", b"-0", b"1e-5x",
              b"0x", b"1,5", b"4294967296", b"1e0", b"1.5e+2", b"7e-1"]


def gen_syllables(rng, style, n):
    out = set()
    tries = 0
    while len(out) < n and tries < n * 50:
        tries += 1
        if style == "latin":
            s = "".join(rng.choice("abcdefgh") for _ in range(rng.randint(1, 3))).encode()
        elif style == "pinyin":
            s = (rng.choice(["b", "p", "zh", "ch", "sh", "x", "q", "", "l", "n"]) + rng.choice(["a", "i", "ang", "iong", "u", "e", "uo"])).encode()
        elif style == "punct":   # bytes that are delimiters elsewhere (speller delimiters, comment sign, percent, quotes)
            s = "".join(rng.choice("a'b-#%;,.\"`:!") for _ in range(rng.randint(1, 3))).encode()
        elif style == "bytes":
            s = bytes(rng.choice([rng.randint(0x21, 0x7e), rng.randint(0x80, 0xff)]) for _ in range(rng.randint(1, 2)))
        elif style == "utf8":
            s = "".join(rng.choice("āáǎàēéěèīíǐìüńa") for _ in range(rng.randint(1, 2))).encode("utf-8")
        else:
            s = str(rng.randint(0, 999)).encode()
        if s and not any(b in WS for b in s):
            out.add(s)
    return sorted(out) or [b"a"]


def gen_text(rng, kind):
    if kind == "long":
        return "".join(rng.choice(CJK) for _ in range(rng.randint(10, 14))).encode("utf-8")
    k = rng.random()
    if k < 0.7:
        return "".join(rng.choice(CJK[:60 if kind == "dense" else 600]) for _ in range(rng.randint(1, 4))).encode("utf-8")
    if k < 0.8:
        return "".join(rng.choice("abc xyz") for _ in range(rng.randint(1, 6))).strip().encode() or b"w"
    if k < 0.85:
        return b"#" + rng.choice(CJK).encode("utf-8")
    if k < 0.9:
        return bytes(rng.randint(0x80, 0xff) for _ in range(rng.randint(1, 3)))  # not UTF-8
    return (rng.choice(CJK) + rng.choice(["%", "'", "\"", ":", " -", "\\", "#"]) + rng.choice(CJK)).encode("utf-8")


def gen_weight(rng, mode):
    if mode == "plain":
        return str(rng.randint(0, 100000)).encode()
    if mode == "ties":
        return str(rng.choice([0, 1, 1, 2, 5, 5, 100])).encode()
    k = rng.random()
    if k < 0.45:
        return str(rng.randint(0, 1000)).encode()
    if k < 0.6:
        return ("%.*f" % (rng.randint(0, 6), rng.random() * 10 ** rng.randint(-3, 6))).encode()
    if k < 0.7:
        return ("%de%d" % (rng.randint(1, 99), rng.randint(-30, 30))).encode()
    return rng.choice(WEIGHT_ODD)


def line_needs_encoder(line, colnames, comment_on):
    l = trim_right(line)
    if not l or (comment_on and l[:1] == b"#"):
        return False
    r = l.split(b"\t")
    tc, cc = colnames.index("text"), colnames.index("code")
    if len(r) <= tc or not r[tc]:
        return False
    return not (cc < len(r) and r[cc])


def gen_file(rng, fname, syll, n_rows, prof, columns_pool=True):
    layouts = [None, ["text", "code", "weight"], ["code", "text", "weight"], ["text", "weight", "code"], ["text", "code"],
               ["code", "text"], ["weight", "code", "text"], ["text", "note", "code", "weight"], ["note", "code", "weight", "text"]]
    columns = rng.choice(layouts) if columns_pool and rng.random() < 0.5 else None
    colnames = columns if columns is not None else ["text", "code", "weight"]
    code_last = colnames[-1] == "code"
    maxlen = prof.get("maxlen", 8)
    lens = prof.get("lens") or [1, 1, 1, 2, 2, 3, 3, 4, 4, 5, 6, 7, 8]
    lens = [l for l in lens if l <= maxlen] or [1]
    wmode = prof.get("weights", rng.choice(["plain", "ties", "odd", "odd"]))
    tkind = prof.get("texts", rng.choice(["dense", "sparse"]))
    code_pool, text_pool, single_pool = [], [], []
    lines = []
    comment_on = True
    eol = b"\r\n" if rng.random() < 0.1 else b"\n"
    for i in range(n_rows):
        r = rng.random()
        if not prof.get("clean") and r < 0.03:
            l = rng.choice([b"", b"# a comment", b"#", b"   ", b"\t", b"#\tnot\ta row"])
            if not line_needs_encoder(l, colnames, comment_on):
                lines.append(l)
            continue
        if not prof.get("clean") and r < 0.035 and comment_on:
            lines.append(b"# no comment")
            comment_on = False
            continue
        # code
        if code_pool and rng.random() < prof.get("repeat_code", 0.3):
            code = rng.choice(code_pool)
        else:
            ln = rng.choice(lens)
            if code_pool and rng.random() < prof.get("share_prefix", 0.4):
                base = rng.choice(code_pool)
                k = rng.randint(0, len(base))
                code = (base[:k] + [rng.choice(syll) for _ in range(max(0, ln - k))])[:max(1, ln)] or [rng.choice(syll)]
            else:
                code = [rng.choice(syll) for _ in range(ln)]
            code_pool.append(code)
        # text
        if text_pool and rng.random() < prof.get("repeat_text", 0.25):
            text = rng.choice(text_pool)
        else:
            text = gen_text(rng, tkind)
            text_pool.append(text)
        if text.startswith(b"#") and comment_on and colnames[0] == "text":
            pass  # will be read as a comment: that is the collector's rule, both references implement it
        if len(code) == 1 and single_pool and rng.random() < prof.get("dup_single", 0.15):
            text, code = rng.choice(single_pool)
        if len(code) == 1:
            single_pool.append((text, code))
        sep = b" "
        cs = sep.join(code)
        if not prof.get("clean"):
            q = rng.random()
            if q < 0.04:
                cs = b"  ".join(code)
            elif q < 0.07:
                cs = b" " + cs
            elif q < 0.09 and not code_last:
                cs = cs + b" "
        w = gen_weight(rng, wmode)
        if b"\t" in w or b"\n" in w:
            w = b"1"
        note = rng.choice([b"", b"n", b"# x", b"5%"])
        if not prof.get("clean") and rng.random() < 0.01:
            text = b""            # empty text: row skipped
        if not prof.get("clean") and rng.random() < 0.006 and not code_last:
            cs = b"  "            # code column of blanks: entry without syllables, dropped by LocateEntries
        vals = {"text": text, "code": cs, "weight": w, "note": note}
        row = [vals[c] for c in colnames]
        if "weight" in colnames and colnames[-1] == "weight" and rng.random() < 0.1 and not prof.get("clean"):
            row = row[:-1]         # weight column missing
        line = b"\t".join(row)
        if not prof.get("clean") and rng.random() < 0.03:
            line += rng.choice([b" ", b"\t", b"  \t"])
        # never produce a row without a code (that would go to the phrase encoder, outside this property)
        if line_needs_encoder(line, colnames, comment_on):
            line = b"\t".join(vals[c] if c != "code" else sep.join(code) for c in colnames)
        lines.append(line)
    body = eol.join(lines) + (eol if lines and rng.random() < 0.9 else b"")
    sort = prof.get("sort", rng.choice([None, "by_weight", "original", "by_weight"]))
    return {"fname": fname, "columns": columns, "sort": sort, "body": body}


PROFILES = {
    "tiny": dict(rows=(0, 6), syl=(1, 4)),
    "small": dict(rows=(5, 40), syl=(2, 12)),
    "deep": dict(rows=(20, 120), syl=(2, 6), lens=[3, 4, 4, 5, 6, 7, 8], share_prefix=0.7),
    "homophones": dict(rows=(30, 200), syl=(1, 3), lens=[1, 1, 2, 3, 4, 5], repeat_code=0.7, weights="ties"),
    "medium": dict(rows=(200, 600), syl=(20, 400)),
    "large": dict(rows=(2000, 5000), syl=(50, 1500), clean=True, lens=[1, 1, 2, 2, 2, 3]),
    # the string table image outgrows the estimate at the end of the build (long texts)
    "growth": dict(rows=(300, 4500), syl=(30, 60), clean=True, lens=[4, 5, 6, 7, 8, 8, 8], texts="long", share_prefix=0.0,
                   repeat_code=0.0, repeat_text=0.0, weights="plain"),
    # the index alone (about 76 bytes per row of an 8-syllable code with its own prefix) outgrows the estimate: growth in mid-build
    "growth_index": dict(rows=(500, 2500), syl=(80, 140), clean=True, lens=[8, 8, 8, 7], texts="dense", share_prefix=0.0,
                         repeat_code=0.0, repeat_text=0.3, weights="plain"),
}


def gen_case(rng, name, profile):
    prof = dict(PROFILES[profile])
    style = rng.choice(SYL_STYLES)
    if profile in ("large", "growth", "growth_index", "medium") and style in ("digits",):
        style = "latin"
    n_syl = rng.randint(*prof["syl"])
    syll = gen_syllables(rng, style if n_syl < 300 else "latin" if n_syl < 500 else "digits", n_syl)
    if n_syl >= 500:
        syll = sorted({("s%d" % i).encode() for i in range(n_syl)})
    n = rng.randint(*prof["rows"])
    files = [gen_file(rng, name, syll, n, prof)]
    if profile not in ("large", "growth", "growth_index") and rng.random() < 0.3:
        for k in range(rng.randint(1, 2)):
            extra = gen_syllables(rng, style, rng.randint(1, 4)) if rng.random() < 0.5 else []
            # the file names of the imports sort before, between and after the dictionary's own (the tables are read in
            # the order they are listed, which is not the order of their names)
            iname = rng.choice(["%s_i%d", "0%s_i%d", "%s.x%d", "zz%s%d", "%s_i%d"]) % (name, k if rng.random() < 0.5 else 9 - k)
            files.append(gen_file(rng, iname, sorted(set(syll + extra)), rng.randint(0, max(3, n // 2)), prof))
    return {"name": name, "files": files, "profile": profile, "style": style}


def edited_case(rng, case, name):
    """the same dictionary after its sources were edited: `before` = the edition compiled first, `files` = the current one.
    The edits are small and mostly near the end of a file (a row dropped, a weight changed, a row added)."""
    ren = lambda fn: name if fn == case["name"] else fn.replace(case["name"], name)
    before = [dict(f, fname=ren(f["fname"])) for f in case["files"]]
    files = [dict(f) for f in before]
    for _ in range(rng.choice([1, 1, 2])):
        f = rng.choice(files)
        lines = f["body"].split(b"\n")
        ti, ci, wi = cols_of(f)
        full = lambda l: (lambda cl: 0 <= ti < len(cl) and 0 <= ci < len(cl) and cl[ti].strip() and cl[ci].strip())(l.split(b"\t"))
        rows = [i for i, l in enumerate(lines) if b"\t" in l and not l.startswith(b"#") and full(l)]   # (a row with text and code)
        if not rows:
            continue
        i = rows[-1] if rng.random() < 0.6 else rng.choice(rows)
        kind = rng.choice(["drop", "dup", "weight", "text"])
        cols = lines[i].split(b"\t")
        if kind == "drop":
            del lines[i]
        elif kind == "dup" and 0 <= ti < len(cols):
            c2 = list(cols)
            c2[ti] = "改".encode() + c2[ti]
            lines.insert(i + 1 if rng.random() < 0.7 else len(lines), b"\t".join(c2))
        elif kind == "weight" and 0 <= wi < len(cols) and cols[wi].strip().isdigit():
            cols[wi] = str(int(cols[wi]) + rng.choice([1, 7, 1000])).encode()      # same length or longer
            lines[i] = b"\t".join(cols)
        elif 0 <= ti < len(cols) and cols[ti]:
            cols[ti] = "异".encode() + cols[ti]
            lines[i] = b"\t".join(cols)
        f["body"] = b"\n".join(lines)
    return {"name": name, "files": files, "before": before, "profile": "edited", "style": case.get("style")}


# ------------------------------------------------------------------------------------------------ python reference (O)
def trim_right(b):
    return b.rstrip(WS)


def tokens(cs):
    return [t for t in cs.split(b" ") if t]


STOD = re.compile(rb"^[ \t\n\v\f\r]*([+-]?)(?:(inf|nan)|((?:\d+\.?\d*|\.\d+)(?:[eE][+-]?\d+)?))", re.I)


def eff_weight(w):
    """the double whose log is stored: mirrors CreateEntry + BuildTable (no preset vocabulary)"""
    if not w or w.endswith(b"%"):
        return DBL_EPSILON
    m = STOD.match(w)
    if not m:
        return DBL_EPSILON
    neg = m.group(1) == b"-"
    if m.group(2):
        v = math.inf if m.group(2).lower() == b"inf" else math.nan
    else:
        try:
            v = float(m.group(3))
        except (ValueError, OverflowError):
            return DBL_EPSILON
        if math.isinf(v):
            return DBL_EPSILON                  # ERANGE -> out_of_range -> 0.0
        if abs(v) < DBL_MIN:
            return DBL_EPSILON                  # zero, or subnormal (ERANGE)
    if neg:
        v = -v
    return v if v > 0 else DBL_EPSILON


def f32bits(x):
    return struct.unpack("<I", struct.pack("<f", x))[0]


def stored_bits(v):
    return f32bits(math.log(v)) if not math.isinf(v) else f32bits(math.inf)


def okey(bits):
    """order-preserving integer of a float32 bit pattern"""
    return bits ^ 0x80000000 if not (bits & 0x80000000) else (~bits) & 0xFFFFFFFF


def ref_rows(case):
    """independent reading of the source: (syllabary, kept rows [(text, [syl], weight bytes)], needs_encoder, num_entries)"""
    syl, words, rows, need, nent = set(), set(), [], 0, 0
    for f in case["files"]:
        tc, cc, wc = cols_of(f)
        if tc < 0:
            continue
        comment = True
        for raw in f["body"].split(b"\n"):
            line = trim_right(raw)
            if not line:
                continue
            if comment and line[:1] == b"#":
                if line == b"# no comment":
                    comment = False
                continue
            r = line.split(b"\t")
            if len(r) <= tc or not r[tc]:
                continue
            text = r[tc]
            cs = r[cc] if 0 <= cc < len(r) else b""
            ws = r[wc] if 0 <= wc < len(r) else b""
            if not cs:
                need += 1
                continue
            code = tokens(cs)
            syl.update(code)
            if len(code) == 1:
                if (text, cs) in words:
                    continue
                words.add((text, cs))
            nent += 1
            if code:                      # a code column of blanks: LocateEntries returns NULL, the entry is dropped
                rows.append((text, code, ws))
    return sorted(syl), rows, need, nent


def bits_of(w):
    return stored_bits(X.clamp(w))


def reference(case):
    """what the tables must hold -> {"syl", "rows" [(text, [syl], float bits)], "nent", "stems", "rules", "name", "packs" [same | None],
    "sims"}.  Plain sources are read by ref_rows above; sources with rows without a code, a stem column, header options or packs by
    the collector / encoder reading in c06_ext."""
    if not is_ext(case):
        syl, rows, need, nent = ref_rows(case)
        return {"syl": syl, "rows": [(t, c, stored_bits(eff_weight(ws))) for t, c, ws in rows], "nent": nent, "stems": {}, "rules": None,
                "packs": [], "derived": 0, "need": need}
    cfg = case["files"][0].get("cfg") or {}
    vb = None
    if X.uses_vocab(cfg):
        vb = case.get("vocab") if cfg.get("vocabulary") else X.essay_body()
    sim = X.simulate(case["files"], cfg, vb)
    syl = sorted(sim.syl)
    out = {"syl": syl, "rows": [(t, c, bits_of(w)) for t, c, w, _ in sim.entries if c], "nent": sim.nent, "stems": sim.stems,
           "rules": len(cfg["rules"]) if isinstance(cfg.get("rules"), list) else None, "packs": [], "sim": sim, "need": 0,
           "derived": sum(1 for e in sim.entries if e[3]), "vocab": vb is not None,
           "encode_failures": sim.encode_failures, "dfs_limit_hits": sim.dfs_limit_hits}
    for pk in case.get("packs") or []:
        if pk is None:
            out["packs"].append(None)
            continue
        ps = X.simulate([pk], pk.get("cfg") or {}, None, fixed=syl)
        out["packs"].append({"syl": syl, "rows": [(t, c, bits_of(w)) for t, c, w, _ in ps.entries if c], "nent": ps.nent, "sim": ps,
                             "original": pk.get("sort") == "original", "derived": sum(1 for e in ps.entries if e[3])})
        out["derived"] += out["packs"][-1]["derived"]
        out["encode_failures"] += ps.encode_failures
    return out


# ------------------------------------------------------------------------------------------------ running both sides
def parse_impl(out):
    """harness output -> {name: dict}"""
    res, cur = {}, None
    for line in out.splitlines():
        p = line.split(" ")
        if p[0] == "case" and len(p) == 2:
            cur = top = {"name": p[1], "syl": {}, "e": [], "r": [], "done": False, "flags": {}, "packs": []}
            res[p[1]] = cur
        elif cur is None:
            continue
        elif p[0] == "end":
            top["done"] = True
            cur = None
        elif p[0] == "pack" and len(p) == 3:
            cur = {"name": p[2], "syl": {}, "e": [], "r": [], "flags": {}}
            top["packs"].append(cur)
        elif p[0] == "syl":
            cur["syl"][int(p[1])] = unhex(p[2])
        elif p[0] == "e":
            cur["e"].append((ids(p[1]), ids(p[2]), unhex(p[3]), int(p[4], 16)))
        elif p[0] == "r":
            cur["r"].append((unhex(p[1]), unhex(p[2])))
        elif p[0] in ("compile", "load", "rload", "rl"):
            cur["flags"][p[0]] = int(p[1])
        elif p[0] in ("size", "meta", "walk", "qp", "sizes", "layout", "tmaps", "rs"):
            cur["flags"][p[0]] = tuple(int(x) for x in p[1:])
        elif p[0] == "ds" and len(p) == 5:
            cur["flags"]["ds"] = (int(p[1]), int(p[2]), int(p[3]), unhex(p[4]))
        elif p[0] == "corrupt":
            cur["flags"]["corrupt"] = " ".join(p[1:])
    return res


def parse_model(out):
    res, cur = {}, None
    for line in out.splitlines():
        p = line.split(" ")
        if p[0] == "case" and len(p) == 2:
            cur = {"name": p[1], "syl": {}, "e": [], "r": [], "done": False, "unsupported": None}
            res[p[1]] = cur
        elif cur is None:
            continue
        elif p[0] == "end":
            cur["done"] = True
            cur = None
        elif p[0] == "syl":
            cur["syl"][int(p[1])] = unhex(p[2])
        elif p[0] == "e":
            cur["e"].append((ids(p[1]), ids(p[2]), unhex(p[3]), p[4]))
        elif p[0] == "r":
            cur["r"].append((unhex(p[1]), unhex(p[2])))
        elif p[0] in ("sizes", "layout"):
            cur[p[0]] = tuple(int(x) for x in p[1:])
        elif p[0] in ("unsupported", "bad-op"):
            cur["unsupported"] = line
    return res


def unhex(h):
    return b"" if h == "-" else bytes.fromhex(h)


def ids(s):
    return () if s == "-" else tuple(int(x) for x in s.split(","))


def synth_body(calls):
    """CreateEntry calls as rows in the default layout (comments off; an empty weight column is written `0`: same stored weight)"""
    return b"# no comment\n" + b"".join(t + b"\t" + cs + b"\t" + w + b"\n" for t, cs, w in calls)


def resolved(w):
    return b"inf" if w == math.inf else repr(w).encode() if w > 0 else b"0"


def model_input(case, ref=None):
    """plain source: the files.  Extended source: the files, then (`derived`) the CreateEntry calls the reference encoder makes in
    Finish; with a preset vocabulary (weights looked up there) every call with its resolved weight instead of the files.  A pack is a
    case of its own (`<name>.p<k>`) over the fixed syllabary."""
    if not is_ext(case):
        o = ["case %s" % case["name"], "sort %s" % (case["files"][0].get("sort") or "by_weight")]
        for f in case["files"]:
            tc, cc, wc = cols_of(f)
            o.append("file %d %d %d %s" % (tc, cc, wc, f["body"].hex() or "-"))
        o.append("run")
        return "\n".join(o) + "\n"
    ref = ref or reference(case)
    o = []

    def one(name, sort, files, sim, vocab, fixed):
        o.append("case %s" % name)
        o.append("sort %s" % (sort or "by_weight"))
        if fixed is not None:
            o.append("fixed %s" % (",".join(x.hex() for x in fixed) or "-"))
        if vocab:
            o.append("derived %s" % synth_body([(t, cs, resolved(w)) for t, cs, ws, w, ph in sim.calls]).hex())
        else:
            for f in files:
                tc, cc, wc = cols_of(f)
                o.append("file %d %d %d %s" % (tc, cc, wc, f["body"].hex() or "-"))
            o.append("derived %s" % synth_body([(t, cs, ws or b"0") for t, cs, ws, w, ph in sim.calls if ph != "collect"]).hex())
        o.append("run")
    one(case["name"], case["files"][0].get("sort"), case["files"], ref["sim"], ref.get("vocab"), None)
    for k, pk in enumerate(case.get("packs") or []):
        if pk is not None:
            one("%s.p%d" % (case["name"], k), pk.get("sort"), [pk], ref["packs"][k]["sim"], False, ref["syl"])
    return "\n".join(o) + "\n"


def model_bits(tok):
    if tok == "z":
        return stored_bits(DBL_EPSILON)
    if tok == "inf":
        return f32bits(math.inf)
    return stored_bits(float(tok))


def pack_arg(case):
    pk = case.get("packs")
    return "@" + ",".join(pack_name(case, k) for k in range(len(pk))) if pk else ""


class Runner:
    def __init__(self, c):
        self.c = c
        self.exe, self.bdir = vlib.build_harness("c06_harness", "san", ["c06_harness.cc"], libs=["-lmarisa"])
        # second flavour without sanitizer: ASan changes where mmap places a re-opened mapping, which hides (or changes the face
        # of) stale-pointer writes after the table file grew; the growth cases are therefore also run on the plain build
        self.exe_plain, _ = vlib.build_harness("c06_harness", "plain", ["c06_harness.cc"], libs=["-lmarisa"])
        rc, out = vlib.lake_build(["driver_c06"])
        if rc != 0:
            raise vlib.BuildError("driver_c06 does not build: " + out[-3000:])
        self.n_ws = 0
        self.harness_runs = 0
        self.harness_s = 0.0
        self.model_s = 0.0

    def impl(self, cases, flavour="san"):
        """compile every case with the real code; returns ({name: dict}, {name: workdir-table-size or None}, log)"""
        exe = self.exe if flavour == "san" else self.exe_plain
        self.n_ws += 1
        d = os.path.join(self.c.work, "ws%d" % self.n_ws)
        t0 = time.time()
        # a case with an earlier edition (`before`): that one is compiled first, then the sources are replaced and the
        # dictionary is compiled again over the existing build (harness argument `+name`)
        earlier = [case for case in cases if case.get("before")]
        if earlier:
            for case in earlier:
                write_case(d, dict(case, files=case["before"]), "packs_before")
            vlib.sh([exe, d] + [case["name"] + pack_arg(case) for case in earlier], env=vlib.SAN_ENV, timeout=3600)
            self.harness_runs += 1
        for case in cases:
            write_case(d, case)
        names = [case["name"] for case in cases]
        arg_of = {case["name"]: ("+" if case.get("before") else "") + case["name"] + pack_arg(case) for case in cases}
        res, logs, todo = {}, {}, list(names)
        single = False
        while todo:
            batch = todo[:1] if single else todo
            for attempt in range(4):
                rc, out = vlib.sh([exe, d] + [arg_of[n] for n in batch], env=vlib.SAN_ENV, timeout=3600)
                if rc == 127 or "error while loading shared libraries" in out:
                    # librime.so is being re-linked by a concurrent build of the working tree: wait for that build (lock), retry
                    vlib.build_librime(flavour)
                    time.sleep(1 + attempt)
                    continue
                break
            else:
                raise vlib.BuildError("harness cannot be started: " + out[-500:])
            self.harness_runs += 1
            got = parse_impl(out)
            progressed = False
            for n in batch:
                if n in got and got[n]["done"]:
                    res[n] = got[n]
                    todo.remove(n)
                    progressed = True
                else:
                    break
            if todo and (rc != 0 or not progressed):
                n = todo[0]
                if single or len(batch) == 1 or (n in got and not got[n]["done"]):
                    # this very case kills the harness
                    r = got.get(n) or {"name": n, "syl": {}, "e": [], "r": [], "done": False, "flags": {}, "packs": []}
                    r["crash"] = (rc, out[-3000:])
                    res[n] = r
                    todo.remove(n)
                    single = False
                else:
                    single = True
        sizes = {}
        for n in names:
            p = os.path.join(d, "build", n + ".table.bin")
            sizes[n] = os.path.getsize(p) if os.path.exists(p) else None
        self.harness_s += time.time() - t0
        shutil.rmtree(d, ignore_errors=True)
        return res, sizes

    def model(self, cases, refs=None):
        t0 = time.time()
        out = vlib.run_driver("driver_c06", "".join(model_input(case, (refs or {}).get(case["name"])) for case in cases))
        self.model_s += time.time() - t0
        return parse_model(out)


# ------------------------------------------------------------------------------------------------ comparisons
def close(a, b):
    return abs(okey(a) - okey(b)) <= 1


def table_clauses(syl, rows, imt, sort_original, bad, what=""):
    """one loaded table against the rows it must hold; appends (clause, detail); returns {code: [(text, bits)]} wanted or None"""
    fl = imt["flags"]
    isyl = [imt["syl"].get(i) for i in range(len(imt["syl"]))]
    if isyl != syl:
        bad.append(("syllabary", "%ssyllabary differs: impl %d entries, source %d" % (what, len(isyl), len(syl))))
        return None
    sid = {s: i for i, s in enumerate(syl)}
    want = {}
    for text, code, bits in rows:
        want.setdefault(tuple(sid[s] for s in code), []).append((text, bits))
    got = {}
    for idx, extra, text, bits in imt["e"]:
        if len(idx) > 3 or (extra and len(idx) != 3):
            bad.append(("rows", "%sentry filed under index code %s with extra %s" % (what, idx, extra)))
        got.setdefault(idx + extra, []).append((text, bits))
    for code in sorted(set(want) | set(got)):
        w, g = want.get(code, []), got.get(code, [])
        if sorted(t for t, _ in w) != sorted(t for t, _ in g):
            cw, cg = {}, {}
            for t, _ in w:
                cw[t] = cw.get(t, 0) + 1
            for t, _ in g:
                cg[t] = cg.get(t, 0) + 1
            lost = sorted(t for t in cw if cw[t] > cg.get(t, 0))
            extra = sorted(t for t in cg if cg[t] > cw.get(t, 0))
            bad.append(("rows", "%scode %s: source has %d entries, table %d; lost %s invented %s (text: times in source/table)" %
                        (what, [syl[i].decode("latin-1") if 0 <= i < len(syl) else i for i in code], len(w), len(g),
                         ["%s: %d/%d" % (t.decode("utf-8", "replace"), cw[t], cg.get(t, 0)) for t in lost[:3]],
                         ["%s: %d/%d" % (t.decode("utf-8", "replace"), cw.get(t, 0), cg[t]) for t in extra[:3]])))
            continue
        ws_, gs_ = sorted(w), sorted(g)
        if any(a[0] != b[0] or not close(a[1], b[1]) for a, b in zip(ws_, gs_)):
            bad.append(("weight", "%scode %s: weights differ beyond float precision: %s vs %s" % (what, code, ws_[:4], gs_[:4])))
            continue
        if sort_original:
            if [t for t, _ in g] != [t for t, _ in w]:
                bad.append(("order", "%scode %s: sort: original but enumeration order differs from the source order" % (what, code,)))
        else:
            ks = [okey(b) for _, b in g]
            if any(ks[i] < ks[i + 1] for i in range(len(ks) - 1)):
                bad.append(("order", "%scode %s: weights not non-increasing: %s" % (what, code, [hex(b) for _, b in g][:8])))
    if "walk" in fl and fl["walk"][1] != 1:
        bad.append(("walk", "%swalking with TableQuery (as rime_table_decompiler) yields other rows than the index holds" % what))
    if "qp" in fl and fl["qp"][1] != 0:
        bad.append(("query", "%sTable::QueryPhrases disagrees with the index on %d codes" % (what, fl["qp"][1])))
    return want


def monitor(case, im, tsize, ref=None):
    """the property on the implementation's dump vs the python reading of the source -> list of (clause, detail)"""
    ref = ref or reference(case)
    syl, rows, nent = ref["syl"], ref["rows"], ref["nent"]
    sort_original = (case["files"][0].get("sort") == "original")
    bad = []
    est = 4096 + 32 * len(syl) + 64 * nent
    grew = tsize is not None and tsize > est
    info = {"syllables": len(syl), "rows": len(rows), "estimate": est, "table_file": tsize, "grew": grew}
    if is_ext(case):
        info.update({"derived": ref["derived"], "packs": sum(1 for p in ref["packs"] if p), "stem_keys": len(ref["stems"]),
                     "encode_failures": ref.get("encode_failures", 0), "dfs_limit_hits": ref.get("dfs_limit_hits", 0),
                     "vocabulary": bool(ref.get("vocab")), "rules": ref["rules"] or 0,
                     "pack_rows": sum(len(p["rows"]) for p in ref["packs"] if p)})
    if "crash" in im:
        log = im["crash"][1]
        m = re.search(r"SUMMARY: .*", log)
        fr = re.findall(r"#\d+ 0x[0-9a-f]+ in (\S+) (\S+)", log)
        where = "; ".join("%s %s" % (a, os.path.basename(b)) for a, b in fr[:4])
        rc = im["crash"][0]
        sig = " = killed by signal %d%s" % (-rc, " (SIGSEGV)" if rc == -11 else "") if isinstance(rc, int) and rc < 0 else ""
        return [("crash", "DictCompiler::Compile / Table::Load kills the process (rc=%s%s): %s [%s]" %
                 (rc, sig, m.group(0) if m else log[-300:].strip(), where))], info
    fl = im["flags"]
    if not fl.get("load"):
        bad.append(("load-fails", "Table::Load of the compiled table fails (DictCompiler::Compile returned %s)" % bool(fl.get("compile"))))
        return bad, info
    if syl and not fl.get("compile"):
        bad.append(("compile-fails", "DictCompiler::Compile returned false although the table loads"))
    if "corrupt" in fl:
        bad.append(("corrupt", "a link of the loaded table leaves the file image at %s" % fl["corrupt"]))
        return bad, info
    want = table_clauses(syl, rows, im, sort_original, bad)
    if want is None:
        return bad, info
    # reverse lookup: a text -> its one-syllable codes; text + "\x1fstem" -> the stems the source gives it
    rwant = {}
    for text, code, bits in rows:
        if len(code) == 1:
            rwant.setdefault(text, set()).add(code[0])
    rwant = {k: b" ".join(sorted(v)) for k, v in rwant.items()}
    for text, st in ref["stems"].items():
        rwant[text + X.STEM_SUFFIX] = b" ".join(sorted(st))
    if not fl.get("rload"):
        bad.append(("reverse", "reverse db does not load"))
    else:
        rgot = {}
        for k, v in im["r"]:
            if k in rgot:
                bad.append(("reverse", "key listed twice"))
            rgot[k] = v
        if rgot != rwant:
            d = [k for k in set(rgot) | set(rwant) if rgot.get(k) != rwant.get(k)]
            bad.append(("reverse", "reverse lookup differs for %d texts, e.g. %s: table %r, source %r" %
                        (len(d), d[0].hex(), rgot.get(d[0]), rwant.get(d[0]))))
        if fl.get("rl"):
            bad.append(("reverse", "ReverseDb::Lookup disagrees with the stored index"))
        if "rs" in fl:
            if not fl["rs"][0]:
                bad.append(("reverse", "ReverseLookupDictionary::Load fails on the reverse db that ReverseDb::Load accepts"))
            elif fl["rs"][1]:
                bad.append(("reverse", "ReverseLookupDictionary::ReverseLookup / LookupStems disagree with the stored index for %d keys" % fl["rs"][1]))
            elif fl["rs"][2]:
                bad.append(("reverse", "%d texts that are no key of the reverse db have a reverse entry" % fl["rs"][2]))
        if "ds" in fl and fl.get("rs", (0,))[0]:
            ds = fl["ds"]
            if ref["rules"] is not None and (not ds[0] or not ds[1] or ds[2] != ref["rules"] or ds[3] != case["name"].encode()):
                bad.append(("reverse-settings", "dictionary settings read back from the reverse db: present %d, rule-based %d, %d rules, name %r; "
                            "the header has %d rules" % (ds[0], ds[1], ds[2], ds[3], ref["rules"])))
    # packs: each listed pack with a source has its own table over the primary syllabary; one without a source has none
    # (a primary source without any syllable does not compile — BuildPrism refuses an empty syllabary — and its packs are never reached)
    for k, pr in enumerate(ref["packs"] if syl else []):
        imp = im["packs"][k] if k < len(im.get("packs", [])) else None
        what = "pack %d: " % k
        if imp is None:
            bad.append(("pack", what + "no dump"))
            continue
        if pr is None:
            if imp["flags"].get("load"):
                bad.append(("pack", what + "a table exists for a pack that has no source"))
            continue
        if not imp["flags"].get("load"):
            bad.append(("pack", what + "the pack's table does not load"))
            continue
        if "corrupt" in imp["flags"]:
            bad.append(("pack", what + "a link of the loaded table leaves the file image at %s" % imp["flags"]["corrupt"]))
            continue
        pb = []
        table_clauses(syl, pr["rows"], imp, pr["original"], pb, what)
        bad.extend(("pack", "%s: %s" % (cl, de)) for cl, de in pb)
    info["codes"] = len(want)
    info["long_codes"] = sum(1 for k in want if len(k) > 3)
    info["homophone_lists"] = sum(1 for v in want.values() if len(v) > 1)
    info["reverse_keys"] = len(rwant)
    return bad, info


def correspond_capacity(im, mo, tsize):
    """plain build only: the file is created with exactly the model's estimated_file_size, and re-mapped (grown) only for the
    string table image, to max(needed, 2*capacity)"""
    tm = im["flags"].get("tmaps")
    if tm is None or mo is None or not mo.get("layout") or "crash" in im or not im["flags"].get("load"):
        return []
    end, bound, est = mo["layout"]
    want = [est] + ([max(tsize, 2 * est)] if tsize > est else [])
    if list(tm) != want:
        return [("capacity", "read-write mappings of the table file %s, model (estimated_file_size, growth for the string table) %s"
                 % (list(tm), want))]
    return []


def lists_differ(imt, mot, sort_original, bad, what=""):
    a, b = {}, {}
    for idx, extra, text, bits in imt["e"]:
        a.setdefault((idx, bool(extra)), []).append((extra, text, bits))
    for idx, extra, text, tok in mot["e"]:
        b.setdefault((idx, bool(extra)), []).append((extra, text, model_bits(tok)))
    for idx in sorted(set(a) | set(b)):
        x, y = a.get(idx, []), b.get(idx, [])
        if sort_original:
            same = len(x) == len(y) and all(p[:2] == q[:2] and close(p[2], q[2]) for p, q in zip(x, y))
        else:
            xs, ys = sorted(x), sorted(y)
            same = len(xs) == len(ys) and all(p[:2] == q[:2] and close(p[2], q[2]) for p, q in zip(xs, ys))
            ks = [okey(t[2]) for t in y]
            if any(ks[i] < ks[i + 1] for i in range(len(ks) - 1)):
                bad.append(("model-order", "%smodel list %s not weight-sorted" % (what, idx,)))
        if not same:
            bad.append(("list", "%slist at index code %s: impl %s model %s" % (what, idx, x[:3], y[:3])))


def correspond(case, im, mo, mos=None):
    """model vs implementation, list by list -> list of (clause, detail)"""
    if mo is None or not mo["done"]:
        return [("model-missing", "driver printed nothing for this case")]
    if mo["unsupported"]:
        return [("unsupported", mo["unsupported"])]
    if "crash" in im or not im["flags"].get("load") or "corrupt" in im["flags"]:
        return []
    bad = []
    if [im["syl"].get(i) for i in range(len(im["syl"]))] != [mo["syl"].get(i) for i in range(len(mo["syl"]))]:
        return [("syllabary", "model and implementation syllabaries differ")]
    sort_original = (case["files"][0].get("sort") == "original")
    lists_differ(im, mo, sort_original, bad)
    if "sizes" in im["flags"] and im["flags"]["sizes"] != mo.get("sizes"):
        bad.append(("record-sizes", "sizeof/alignof of the table records: headers %s, layout model %s" % (im["flags"]["sizes"], mo.get("sizes"))))
    if "layout" in im["flags"] and mo.get("layout") and im["flags"]["layout"][0] != mo["layout"][0]:
        bad.append(("index-end", "the index ends at byte %d of the table file, the model's allocation sequence at %d" %
                    (im["flags"]["layout"][0], mo["layout"][0])))
    if im["flags"].get("rload"):
        stem = [kv for kv in im["r"] if kv[0].endswith(X.STEM_SUFFIX)]          # (the stem keys are not in the model's reverse table)
        if sorted(kv for kv in im["r"] if kv not in stem) != sorted(mo["r"]):
            bad.append(("reverse", "reverse tables differ: impl %d keys, model %d" % (len(im["r"]) - len(stem), len(mo["r"]))))
    for k, pk in enumerate(case.get("packs") or []):
        if pk is None or k >= len(im.get("packs", [])):
            continue
        imp, mp = im["packs"][k], (mos or {}).get("%s.p%d" % (case["name"], k))
        if not imp["flags"].get("load") or "corrupt" in imp["flags"]:
            continue
        if mp is None or not mp["done"] or mp["unsupported"]:
            bad.append(("pack-model-missing", "driver printed no table for pack %d: %s" % (k, mp and mp["unsupported"])))
            continue
        lists_differ(imp, mp, pk.get("sort") == "original", bad, "pack %d: " % k)
        if "layout" in imp["flags"] and mp.get("layout") and imp["flags"]["layout"][0] != mp["layout"][0]:
            bad.append(("index-end", "pack %d: the index ends at byte %d of the table file, the model's allocation sequence at %d" %
                        (k, imp["flags"]["layout"][0], mp["layout"][0])))
    return bad


# ------------------------------------------------------------------------------------------------ shrinking
def all_lines(case):
    return [(fi, l) for fi, f in enumerate(case["files"]) for l in f["body"].split(b"\n")]


EXT_KEYS = ("packs", "packs_before", "vocab", "profile", "ext")


def with_lines(case, lines):
    out = {"name": case["name"], "files": []}
    out.update({k: case[k] for k in EXT_KEYS if k in case})
    for fi, f in enumerate(case["files"]):
        g = dict(f)
        g["body"] = b"\n".join(l for i, l in lines if i == fi)
        if g["body"]:
            g["body"] += b"\n"
        out["files"].append(g)
    if case.get("before"):
        out["before"] = [dict(f) for f in case["before"]]
    return out


EQUIV = {"crash": ("crash", "load-fails"), "load-fails": ("load-fails", "crash")}   # one defect, two faces (address layout decides)


def shrink(run, case, clause, budget, flavour="san"):
    """ddmin over source lines, then shorter codes/texts, keeping `clause` (or its equivalent) failing"""
    evals = [0]
    accept = EQUIV.get(clause, (clause,))

    def fails(cs):
        evals[0] += 1
        old = cs["name"]
        cs["name"] = "m%d" % evals[0]
        for k, f in enumerate(cs["files"]):
            # the names keep their shape (and with it their order as file names)
            f["fname"] = cs["name"] if k == 0 else f["fname"].replace(old, cs["name"]) if old in f["fname"] else "%s_i%d" % (cs["name"], k - 1)
        for k, f in enumerate(cs.get("before") or []):
            f["fname"] = cs["files"][k]["fname"]
        im, sizes = run.impl([cs], flavour)
        bad, _ = monitor(cs, im[cs["name"]], sizes[cs["name"]])
        return any(cl in accept for cl, _ in bad)

    lines = all_lines(case)
    n = 2
    while len(lines) >= 2 and evals[0] < budget:
        chunk = max(1, len(lines) // n)
        reduced = False
        for i in range(0, len(lines), chunk):
            cand = lines[:i] + lines[i + chunk:]
            if cand and fails(with_lines(case, cand)):
                lines, n, reduced = cand, max(n - 1, 2), True
                break
            if evals[0] >= budget:
                break
        if not reduced:
            if chunk == 1:
                break
            n = min(len(lines), n * 2)
    best = with_lines(case, lines)
    # drop import files that became empty
    if len(best["files"]) > 1:
        cand = dict(best, files=[best["files"][0]] + [f for f in best["files"][1:] if f["body"].strip()])
        if len(cand["files"]) < len(best["files"]) and fails(json_copy(cand)):
            best = cand
    # a dictionary that only imports: promote the single import
    if len(best["files"]) == 2 and not best["files"][0]["body"].strip():
        cand = dict(best, files=[dict(best["files"][1], sort=best["files"][0].get("sort"), cfg=best["files"][0].get("cfg"))])
        if fails(json_copy(cand)):
            best = cand
    # structured reductions: fewer syllables per code, shorter texts
    for mode in ("code", "text"):
        for keep in ((7, 6, 5, 4, 3, 2, 1) if mode == "code" else (8, 4, 2, 1)):
            if evals[0] >= budget:
                break
            cand = json_copy(best)
            ok = True
            for f in cand["files"]:
                tc, cc, wc = cols_of(f)
                out = []
                for l in f["body"].split(b"\n"):
                    r = l.split(b"\t")
                    if mode == "code" and 0 <= cc < len(r):
                        r[cc] = b" ".join(tokens(r[cc])[:keep]) or r[cc]
                    if mode == "text" and 0 <= tc < len(r) and r[tc]:
                        try:
                            r[tc] = r[tc].decode("utf-8")[:keep].encode("utf-8") or r[tc]
                        except UnicodeDecodeError:
                            ok = False
                    out.append(b"\t".join(r))
                f["body"] = b"\n".join(out)
            if ok and fails(cand):
                best = cand
            else:
                break
    best["name"] = "min"
    best["files"][0]["fname"] = "min"
    for k, f in enumerate(best["files"][1:]):
        f["fname"] = "min_i%d" % k
    return best, evals[0]


def json_copy(case):
    out = {"name": case["name"], "files": [dict(f) for f in case["files"]]}
    out.update({k: case[k] for k in EXT_KEYS if k in case})
    if case.get("before"):
        out["before"] = [dict(f) for f in case["before"]]
    return out


# ------------------------------------------------------------------------------------------------ the check
def site_of(info, clause):
    """`table-growth`: the table could not be produced/loaded and its file outgrew Table::Build's size estimate"""
    return "table-growth" if info.get("grew") and clause in ("crash", "load-fails", "corrupt", "compile-fails") else "compile"


def corpus_cases():
    out = []
    for p in sorted(glob.glob(os.path.join(vlib.CORPUS, "C06", "*.json"))):
        case = case_from_json(json.load(open(p)))
        base = re.sub(r"[^A-Za-z0-9_]", "_", os.path.splitext(os.path.basename(p))[0])
        ren = {f["fname"]: ("c_%s" % base if i == 0 else "c_%s_i%d" % (base, i - 1)) for i, f in enumerate(case["files"])}
        for f in case["files"]:
            f["fname"] = ren[f["fname"]]
        case["name"] = case["files"][0]["fname"]
        case["profile"] = "corpus"
        case["corpus_file"] = os.path.basename(p)
        out.append(case)
    return out


def plan(c):
    quick = c.tier == "quick"
    counts = ([("tiny", 150), ("small", 300), ("deep", 120), ("homophones", 80), ("medium", 30), ("large", 4), ("growth", 5), ("growth_index", 4)] if quick else
              [("tiny", 1200), ("small", 2500), ("deep", 1000), ("homophones", 600), ("medium", 250), ("large", 30), ("growth", 30), ("growth_index", 30)])
    cases, k = [], 0
    for prof, n in counts:
        for _ in range(n):
            k += 1
            cases.append(gen_case(c.rng, "g%d" % k, prof))
    # dictionaries whose sources are edited after a first compilation and compiled again over the existing build
    pool = [cs for cs in cases if cs["profile"] in ("tiny", "small", "deep", "homophones", "medium")]
    for j, cs in enumerate(c.rng.sample(pool, min(len(pool), 40 if quick else 300))):
        cases.append(edited_case(c.rng, cs, "e%d" % j))
    # sources that reach the rest of the compiler: rows without a code (script / rule-based phrase encoder), a stem column, a preset
    # vocabulary with its filters, packs (own tables over the primary syllabary), a pack edited and compiled again
    ext = ([("script", 60), ("table", 90), ("vocab", 50), ("packs", 50), ("stems", 30), ("mixed", 60)] if quick else
           [("script", 500), ("table", 800), ("vocab", 400), ("packs", 400), ("stems", 250), ("mixed", 600)])
    k = 0
    for kind, n in ext:
        for _ in range(n):
            k += 1
            cases.append(X.gen_ext_case(c.rng, "x%d" % k, kind))
    withp = [cs for cs in cases if cs.get("packs") and any(cs["packs"])]
    for j, cs in enumerate(c.rng.sample(withp, min(len(withp), 25 if quick else 200))):
        cases.append(X.pack_edit_case(c.rng, cs, "xe%d" % j))
    return cases


def run(c):
    quick = c.tier == "quick"
    # P
    audit = vlib.lean_audit("C06")
    if not quick and audit["ok"]:
        ok, log = vlib.leanchecker("RimeModel.Props.C06")
        if not ok:
            audit["ok"] = False
            audit["failures"].append(("RimeModel.Props.C06", "leanchecker: " + log))
    # B
    run_ = Runner(c)
    cases = corpus_cases() + plan(c)
    stats = {"cases": 0, "rows": 0, "entries_compared": 0, "grew": 0, "by_profile": {}, "long_codes": 0, "homophone_lists": 0,
             "reverse_keys": 0, "imports": 0, "sort_original": 0, "impl_failures": 0, "model_impl_disagreements": 0,
             "crashes": 0, "plain_flavour_cases": 0, "capacity_checks": 0, "max_rows": 0, "max_syllables": 0, "unsupported_by_model": 0, "shrink_evals": 0,
             "columns_layouts": {}, "decompiler_walks": 0, "query_phrases_calls": 0,
             "ext_cases": 0, "derived_entries": 0, "rule_based_cases": 0, "vocabulary_cases": 0, "packs_compiled": 0, "pack_rows": 0,
             "stem_keys": 0, "encode_failures": 0, "dfs_limit_hits": 0, "dict_settings_read_back": 0}
    nontrivial = set()
    samples = []
    failing, disagreeing = [], []
    # K + O, in batches (small cases share a harness process)
    batches, cur, cur_rows = [], [], 0
    for case in cases:
        nrows = sum(f["body"].count(b"\n") + 1 for f in case["files"])
        cur.append(case)
        cur_rows += nrows
        if cur_rows > 3000 or len(cur) >= 40:
            batches.append(cur)
            cur, cur_rows = [], 0
    if cur:
        batches.append(cur)
    models, refs = {}, {}
    for batch in batches:
        for case in batch:
            refs[case["name"]] = reference(case)
        im, sizes = run_.impl(batch)
        mo = run_.model(batch, refs)
        models.update(mo)
        for case in batch:
            n = case["name"]
            bad, info = monitor(case, im[n], sizes[n], refs[n])
            kbad = correspond(case, im[n], mo.get(n), mo)
            if "derived" in info:
                stats["ext_cases"] += 1
                stats["derived_entries"] += info["derived"]
                stats["rule_based_cases"] += 1 if info["rules"] else 0
                stats["vocabulary_cases"] += 1 if info["vocabulary"] else 0
                stats["packs_compiled"] += info["packs"]
                stats["pack_rows"] += info["pack_rows"]
                stats["stem_keys"] += info["stem_keys"]
                stats["encode_failures"] += info["encode_failures"]
                stats["dfs_limit_hits"] += info["dfs_limit_hits"]
                stats["dict_settings_read_back"] += 1 if im[n]["flags"].get("ds", (0,))[0] else 0
            stats["cases"] += 1
            stats["rows"] += info["rows"]
            stats["entries_compared"] += len(im[n]["e"])
            stats["grew"] += 1 if info.get("grew") else 0
            stats["by_profile"][case["profile"]] = stats["by_profile"].get(case["profile"], 0) + 1
            stats["long_codes"] += info.get("long_codes", 0)
            stats["homophone_lists"] += info.get("homophone_lists", 0)
            stats["reverse_keys"] += info.get("reverse_keys", 0)
            stats["imports"] += len(case["files"]) - 1
            stats["sort_original"] += 1 if case["files"][0].get("sort") == "original" else 0
            stats["max_rows"] = max(stats["max_rows"], info["rows"])
            stats["max_syllables"] = max(stats["max_syllables"], info["syllables"])
            stats["decompiler_walks"] += 1 if "walk" in im[n]["flags"] else 0
            stats["query_phrases_calls"] += im[n]["flags"].get("qp", (0, 0))[0]
            for f in case["files"]:
                key = ",".join(f["columns"]) if f.get("columns") is not None else "default"
                stats["columns_layouts"][key] = stats["columns_layouts"].get(key, 0) + 1
            if "crash" in im[n]:
                stats["crashes"] += 1
            if info["rows"] >= 2 and (info.get("long_codes") or info.get("homophone_lists")):
                nontrivial.add((info["rows"], info["syllables"], info.get("codes"), info.get("long_codes"), info.get("homophone_lists"),
                                info.get("reverse_keys"), len(case["files"])))
            if len(samples) < 6 and stats["cases"] % max(1, len(cases) // 6) == 1:
                samples.append({"case": n, "profile": case["profile"], "rows": info["rows"], "syllables": info["syllables"],
                                "codes": info.get("codes"), "long_codes": info.get("long_codes"), "grew": info.get("grew"),
                                "table_bytes": sizes[n], "first_line": case["files"][0]["body"].split(b"\n")[0][:60].decode("latin-1")})
            if bad:
                stats["impl_failures"] += 1
                failing.append((case, bad, info))
            elif kbad:
                if any(cl == "unsupported" for cl, _ in kbad):
                    stats["unsupported_by_model"] += 1
                stats["model_impl_disagreements"] += 1
                disagreeing.append((case, kbad, info))
    # the same monitor on the build without sanitizer: corpus, every forced-growth source, a sample of the rest
    plain_cases = [cs for i, cs in enumerate(cases) if cs["profile"] in ("corpus", "growth", "growth_index", "large") or i % 12 == 0]
    stats["plain_flavour_cases"] = len(plain_cases)
    for k in range(0, len(plain_cases), 30):
        batch = plain_cases[k:k + 30]
        im, sizes = run_.impl(batch, "plain")
        for case in batch:
            bad, info = monitor(case, im[case["name"]], sizes[case["name"]], refs.get(case["name"]))
            if bad:
                stats["impl_failures"] += 1
                info["flavour"] = "plain"
                failing.append((case, bad, info))
            elif not case.get("before") and not case.get("packs"):     # (a recompilation that finds nothing changed maps nothing
                # read-write; the mappings of pack tables are in the same list)
                kbad = correspond_capacity(im[case["name"]], models.get(case["name"]), sizes[case["name"]])
                stats["capacity_checks"] += 1 if "tmaps" in im[case["name"]]["flags"] else 0
                if kbad:
                    stats["model_impl_disagreements"] += 1
                    disagreeing.append((case, kbad, info))
    # verdicts: O first; per signature the smallest failing source is the one reported
    failing.sort(key=lambda t: (t[2]["rows"], sum(len(f["body"]) for f in t[0]["files"])))
    seen_sig = set()
    for case, bad, info in failing:
        clause = bad[0][0]
        sig = "C06:%s:%s" % (site_of(info, clause), clause)
        if sig in seen_sig:
            continue
        seen_sig.add(sig)
        known = vlib.known_status("C06", sig)
        small, related = case, None
        if case.get("profile") != "corpus" and not (known and known.get("status") == "open"):
            flav = info.get("flavour", "san")
            small, ev = shrink(run_, json_copy(case), clause, 90 if quick else 400, flav)
            stats["shrink_evals"] += ev
            im, sizes = run_.impl([small], flav)
            info2_flav = flav
            bad2, info2 = monitor(small, im["min"], sizes["min"])
            info2["flavour"] = flav
            if any(cl == clause for cl, _ in bad2):
                bad, info = [b for b in bad2 if b[0] == clause] + [b for b in bad2 if b[0] != clause], info2
            else:
                # the minimised source shows the same defect with another face (crash <-> load-fails): keep the original as replay
                related = {"case": case_to_json(small), "clauses": bad2[:3]} if bad2 else None
                small = case
        rep = {"kind": "impl-violation", "clause": clause, "all_clauses": bad[:6], "info": info, "case": case_to_json(small),
               "source_hash": vlib.source_hash(SRC_FILES), "gen_version": GEN_VERSION}
        if related:
            rep["related_minimal"] = related
        c.report(sig, "%s — %s (source: %d rows, %d syllables, table file %s bytes vs the 4096+32*syll+64*entries estimate %d; %s build)" %
                 (clause, bad[0][1][:400], info["rows"], info["syllables"], info.get("table_file"), info["estimate"],
                  info.get("flavour", "san")), rep)
    for case, kbad, info in disagreeing:
        if failing:
            break
        clause = kbad[0][0]
        sig = "C06:correspondence:%s" % clause
        if sig in seen_sig:
            continue
        seen_sig.add(sig)
        c.report(sig, "model and implementation disagree (%s) although the property holds on the implementation's output: %s"
                 % (clause, kbad[0][1][:300]),
                 {"kind": "correspondence", "broken": "correspondence driver_c06 vs c06_harness", "clauses": kbad[:6],
                  "case": case_to_json(case), "info": info}, no_input=True)
    if not audit["ok"] and not failing:
        c.report("C06:proof", "proof obligation no longer checks: %s" % "; ".join("%s: %s" % f for f in audit["failures"])[:600],
                 {"kind": "proof", "broken_theorems": audit["failures"], "lean_log": audit["log"][-3000:]}, no_input=True)
    cov = vlib.proof_cov(audit, "lake build RimeModel.Props.C06 && #print axioms (all theorems) && forbidden-token scan"
                         + ("" if quick else " && leanchecker RimeModel.Props.C06"),
                         vlib.STD_TRUSTED + ["yaml-cpp (dictionary header)", "marisa-trie", "libstdc++ stod, libm log (cast applied by the check)",
                                             "boost::interprocess mapped_region / POSIX mmap"])
    cov.update({
        "evaluations": stats["cases"], "distinct_nontrivial": len(nontrivial),
        "rule": "one evaluation = one generated dictionary source (plus imports) compiled by the real DictCompiler, loaded, walked whole "
                "and compared with the Lean model and with the python reading of the source; corpus first. non-trivial = at least 2 kept "
                "rows and a code longer than 3 syllables or a list of homophones; distinct by (rows, syllables, codes, long codes, "
                "homophone lists, reverse keys, files)",
        "samples": samples, "distribution": stats, "harness_runs": run_.harness_runs,
        "harness_seconds": round(run_.harness_s, 1), "model_seconds": round(run_.model_s, 1),
        "source_hash": vlib.source_hash(SRC_FILES), "gen_version": GEN_VERSION, "proof_failures": audit["failures"],
    })
    c.cov = cov
    c.assumptions = ["the codes of rows without a code and of preset-vocabulary phrases are those the check's reading of the phrase "
                     "encoders (ScriptEncoder, TableEncoder; checks/c06_ext.py) derives: that reading is python, compared with the real "
                     "compiler on every such source, and handed to the Lean model as extra CreateEntry calls (the encoders are not in Lean)",
                     "weight column within the decimal / inf / nan syntax of strtod (no hexadecimal floats)",
                     "texts and syllables contain no NUL, tab or newline; texts of rows without a code are UTF-8",
                     "the monotone cast W -> float (double rounding, log, float cast) is libm's; compared within 1 ulp"]


def replay(c, r):
    if "case" not in r:
        print("replay: this file names a broken obligation, no concrete input:", r.get("what"))
        return 1
    case = case_from_json(r["case"])
    run_ = Runner(c)
    im, sizes = run_.impl([case])
    n = case["name"]
    if r.get("kind") == "correspondence":
        mo = run_.model([case])
        kbad = correspond(case, im[n], mo.get(n), mo)
        print("replay %s: correspondence -> %s" % (n, kbad[:3] or "ok"))
        return 1 if kbad else 0
    bad, info = monitor(case, im[n], sizes[n])
    print("replay %s (san build): rows=%d syllables=%d table=%s estimate=%d -> %s" %
          (n, info["rows"], info["syllables"], info.get("table_file"), info["estimate"], bad[:3] or "ok"))
    im, sizes = run_.impl([case], "plain")
    bad2, info2 = monitor(case, im[n], sizes[n])
    print("replay %s (plain build): table=%s -> %s" % (n, info2.get("table_file"), bad2[:3] or "ok"))
    return 1 if bad or bad2 else 0
