"""C07 — candidates for an input are exactly the dictionary entries that its code spells."""
import os, sys, json, math, struct, re, shutil, glob, time, itertools
from fractions import Fraction
import vlib
from checks import C06
from checks import c07_poet


def _unhex(h):
    """hex field of the line protocol (`-` = empty; anything unparsable is shown as it is rather than crashing the check)"""
    if h in ("-", "", None):
        return b""
    try:
        return bytes.fromhex(h)
    except ValueError:
        return ("<" + str(h) + ">").encode()


META = {
    "technique": "Lean 4 theorems over a model of Table::Query / match_extra_code / chunk iterator / script and table translation / the "
                 "sentence maker (Poet) on the C06 index + differential correspondence with the real dictionary, translators and Poet on "
                 "generated dictionaries and word graphs, exhaustive short inputs",
    "level": "proof",
    "level_text": ("Sentence maker (Poet, no grammar plugin) INSIDE the model: poet_sentence_is_path (every weight structure, every compare "
                   "function), poet_none_iff_unreachable / poet_some_iff_path, poet_sentence_optimal (CompareWeight, strict weak order + monotone "
                   "addition), poet_left_associate_optimal (integer weights), table_/script_sentence_is_concatenation_of_entries. "
                   "Theorems C07.query_sound / query_complete (w.r.t. spells: a path of the syllable graph carrying the code), "
                   "match_extra_sound / match_extra_farthest, iterator_perm / iterator_order (every emitted entry is a best chunk head, "
                   "each chunk in table order), script_order (descending end position after an optional sentence), "
                   "table_exact_then_completion, distinct_nodup, and for table schemas with enable_sentence word_graph_edges_sound / "
                   "table_sentence_shape / consume_trailing_delimiters_spec: for every table, every syllable graph and every input. The model is run "
                   "against the real Dictionary::Lookup and the candidate lists of a deployed script-style and table-style schema for "
                   "all inputs up to a length bound over alphabet and delimiters plus random longer ones, and the property is "
                   "evaluated directly on the implementation's lists against a brute-force reference over the source dictionary."),
    "level_note": ("Trusted / inputs of the model: the syllable graph (recorded from the real Syllabifier; C08 owns its model), the "
                   "prism's GetValue/ExpandSearch answers (C09), the compiled table (C06). TableTranslator::MakeSentence (enable_sentence, static-dictionary branch) IS in the Lean model: word graph over the "
                   "prism's CommonPrefixSearch answers (recorded) with consume_trailing_delimiters, the poet's reachability, the collector "
                   "of first words and SentenceTranslation's emission order; its user-dictionary/encoder branches and "
                   "sentence_over_completion are not. Sentence composition (Poet::MakeSentence, DynamicProgramming strategy, both compare "
                   "functions, Sentence::Extend) is a line-by-line Lean port (RimeModel/C07/Poet.lean) applied to the model's word graphs "
                   "(script: Dictionary::Lookup from every start position, first entry per end; table: first entry of the first key per edge); "
                   "the candidate lists are compared INCLUDING the sentence (the port run with IEEE doubles), and the port is compared bit for bit "
                   "with the real Poet on thousands of generated word graphs (c07_harness --poet), with a brute-force optimality monitor. "
                   "Not modelled: the BeamSearch strategy (only with a grammar plugin), max_homophones/max_homographs > 1, user dictionary. "
                   "The theorems use exact weights (any ordered weight structure / integers / dyadic numbers); LeftAssociateCompare's "
                   "tie-breaking is proved for exact arithmetic only (rounding can merge two weights that differ). Sums credibility+weight are exact in the model and rounded to double in the "
                   "code (same order except within one ulp; lists are compared modulo such ties). User dictionary, corrector, "
                   "contextual suggestions, max_homophones, charset filter, encoder: off."),
    "design_ref": "DESIGN.md §3 C07",
}

SRC_FILES = ["src/rime/dict/dictionary.cc", "src/rime/dict/table.cc", "src/rime/gear/script_translator.cc",
             "src/rime/gear/table_translator.cc", "src/rime/gear/translator_commons.cc", "src/rime/translation.cc",
             "src/rime/candidate.cc", "src/rime/algo/syllabifier.cc", "src/rime/dict/prism.cc", "src/rime/gear/poet.cc",
             "src/rime/gear/poet.h", "src/rime/gear/grammar.h"]
GEN_VERSION = 4
KS = 18.420680743952367


# ------------------------------------------------------------------------------------------------ configurations
# every option the two translators read (script_translator.cc 172-185, table_translator.cc 210-231, translator_commons.cc 114-127):
# name -> the explicit values a generated schema may give it, besides leaving it out.  Values that switch on something the
# model does not cover are not generated (corrector; charset filter — the generated texts include bytes that are no UTF-8, which
# the filter decodes unchecked into arbitrary code points; more than one homophone/homograph per edge); enable_user_dict is
# always an explicit false (the property is about learning disabled).
# Options without effect on the candidate list here (no user dictionary, no grammar plugin, comments are not compared):
# enable_encoder, encode_commit_history, max_phrase_length, contextual_suggestions, spelling_hints, always_show_comments,
# initial_quality.
OPTION_VALUES = {
    "enable_completion": [True, False], "enable_word_completion": [True, False], "enable_sentence": [True, False],
    "strict_spelling": [True, False, False], "sentence_over_completion": [True, False], "enable_charset_filter": [False],
    "enable_encoder": [True, False], "encode_commit_history": [True, False], "max_phrase_length": [5],
    "enable_correction": [False], "contextual_suggestions": [True, False], "spelling_hints": [0, 1, 4],
    "always_show_comments": [True, False], "max_homophones": [1], "max_homographs": [1], "initial_quality": [0, 1.5, -2],
}


def gen_options(rng):
    """every option: left out, or one of its explicit values"""
    return {k: rng.choice([None] + v) for k, v in sorted(OPTION_VALUES.items())}


def effective(cfg):
    """what the options amount to (defaults: enable_completion true, enable_word_completion = enable_completion,
    enable_sentence true, strict_spelling false)"""
    o = cfg.get("opts")
    if o is None:
        cfg.setdefault("word_completion", cfg["completion"])
        return cfg
    cfg["completion"] = True if o.get("enable_completion") is None else bool(o["enable_completion"])
    cfg["word_completion"] = cfg["completion"] if o.get("enable_word_completion") is None else bool(o["enable_word_completion"])
    cfg["sentence"] = True if o.get("enable_sentence") is None else bool(o["enable_sentence"])
    cfg["strict"] = bool(o.get("strict_spelling"))
    cfg["soc"] = bool(o.get("sentence_over_completion"))
    return cfg


def yaml_value(v):
    return ("true" if v else "false") if isinstance(v, bool) else str(v)


def schema_yaml(sid, kind, cfg):
    y = ["schema:", "  schema_id: %s" % sid, "  name: %s" % sid, "  version: '1'", "engine:", "  processors:",
         "    - speller", "    - selector", "    - navigator", "    - express_editor", "  segmentors:", "    - abc_segmentor",
         "    - fallback_segmentor", "  translators:", "    - %s_translator" % kind,
         "speller:", "  alphabet: '%s'" % cfg["alphabet"], '  delimiter: "%s"' % cfg["delims"]]
    if cfg.get("algebra"):
        y += ["  algebra:"] + ["    - %s" % a for a in cfg["algebra"]]
    y += ["translator:", "  dictionary: %s" % cfg["dict"], "  prism: %s" % sid, "  enable_user_dict: false"]
    if cfg.get("opts") is None:        # configurations recorded before the options were generated: everything explicit
        y += ["  enable_completion: %s" % ("true" if cfg["completion"] else "false"),
              "  strict_spelling: %s" % ("true" if cfg.get("strict") else "false"),
              "  enable_correction: false", "  contextual_suggestions: false",
              "  enable_sentence: %s" % ("true" if cfg.get("sentence") else "false"), "  enable_encoder: false",
              "  enable_charset_filter: false"]
    else:
        y += ["  %s: %s" % (k, yaml_value(v)) for k, v in sorted(cfg["opts"].items()) if v is not None]
    y += ["menu:", "  page_size: 5"]
    return "\n".join(y) + "\n"


def make_workspace(d, cfgs):
    """cfgs: list of configuration dicts {name, dict (C06 case), alphabet, delims, completion, strict, algebra}"""
    shutil.rmtree(d, ignore_errors=True)
    os.makedirs(d)
    sids = []
    for cfg in cfgs:
        C06.write_case(d, cfg["case"])
        for kind in ("script", "table"):
            sid = "%s%s" % (cfg["name"], kind[0])
            sids.append(sid)
            with open(os.path.join(d, sid + ".schema.yaml"), "w") as f:
                f.write(schema_yaml(sid, kind, dict(cfg, dict=cfg["case"]["name"])))
    with open(os.path.join(d, "default.yaml"), "w") as f:
        f.write("config_version: '1'\nschema_list:\n" + "".join("  - schema: %s\n" % s for s in sids))
    return sids


def inputs_for(rng, cfg, max_len, n_random):
    letters = cfg["alphabet"]
    delims = cfg["delims"]
    chars = letters + "".join(c for c in delims if c not in letters)
    out = []
    for n in range(1, max_len + 1):
        for t in itertools.product(chars, repeat=n):
            if t[0] in delims and t[0] not in letters:
                continue
            out.append("".join(t))
    for _ in range(n_random):
        n = rng.randint(max_len + 1, max_len + 7)
        s = rng.choice(letters) + "".join(rng.choice(chars if rng.random() < 0.25 else letters) for _ in range(n - 1))
        out.append(s)
    # the dictionary's own one-syllable codes strung together, with delimiters between / inside / after them or not
    syl, rows, need, nent = C06.ref_rows(cfg["case"])
    words = sorted({c[0].decode("latin-1") for t, c, w in rows if len(c) == 1}) or [s.decode("latin-1") for s in syl[:3]]
    dl = [c for c in delims]
    for _ in range(max(10, n_random // 2) if words and dl else 0):
        k = rng.randint(2, 4)
        s = ""
        for i in range(k):
            w = rng.choice(words)
            if rng.random() < 0.15 and len(w) > 1:
                j = rng.randint(1, len(w) - 1)
                w = w[:j] + rng.choice(dl) + w[j:]          # a delimiter inside a code
            s += w
            if i < k - 1 or rng.random() < 0.2:
                s += rng.choice(["", "", rng.choice(dl), rng.choice(dl), rng.choice(dl) * 2])
        if s and not (s[0] in delims and s[0] not in letters) and len(s) <= 16:
            out.append(s)
    # the first 3, 4, 5 ... syllables of the dictionary's long phrases typed without delimiters (word completion: a phrase is
    # predicted from its first syllables)
    longs = sorted({tuple(x.decode("latin-1") for x in c) for t, c, w in rows if len(c) >= 4})
    rng.shuffle(longs)
    for c in longs[:12]:
        for k in range(3, len(c) + 1):
            s = "".join(c[:k])
            if len(s) <= 14:
                out.append(s)
    return list(dict.fromkeys(out))


def job_text(cfgs, inputs_by_cfg):
    lines = []
    for cfg in cfgs:
        for kind in ("script", "table"):
            sid = "%s%s" % (cfg["name"], kind[0])
            lines.append("schema %s %s %d %d %s %d" % (sid, kind, 1 if cfg["completion"] else 0, 1 if cfg.get("strict") else 0,
                                                       cfg["delims"].encode().hex() or "-",
                                                       1 if cfg.get("word_completion", cfg["completion"]) else 0))
            for s in inputs_by_cfg[cfg["name"]]:
                lines.append("in %s" % s.encode().hex())
    return "\n".join(lines) + "\n"


# ------------------------------------------------------------------------------------------------ parsing
def parse_impl(out):
    """-> list of schema records {id, kind, loaded, table_lines[], inputs[{in, g, gi[], lk{p:[L]}, pv, px[], pm, seg, c[]}]}"""
    schemas, cur, inp, lk = [], None, None, None
    for line in out.splitlines():
        p = line.split(" ")
        op = p[0]
        if op == "schema" and len(p) == 5:
            cur = {"id": p[1], "kind": p[2], "loaded": p[3] == "1", "selected": p[4] == "1", "table": [], "inputs": [], "complete": False}
            schemas.append(cur)
            inp = None
        elif cur is None:
            continue
        elif op in ("nsyl", "syl", "e") and inp is None:
            cur["table"].append(line)
        elif op == "endschema":
            cur["complete"] = True
        elif op == "in":
            inp = {"in": p[1], "g": None, "gi": [], "lk": {}, "pv": None, "px": [], "cps": [], "pm": None, "seg": None, "c": [], "done": False}
            cur["inputs"].append(inp)
        elif inp is None:
            continue
        elif op == "g":
            inp["g"] = tuple(int(x) for x in p[1:])
        elif op == "gi":
            inp["gi"].append(line)
        elif op == "lk":
            lk = inp["lk"].setdefault(int(p[1]), [])
        elif op == "L":
            lk.append((int(p[1]), p[2], p[3], int(p[4], 16), int(p[5]), int(p[6])))
        elif op == "pv":
            inp["pv"] = line
        elif op == "px":
            inp["px"].append(line)
        elif op == "cps":
            inp["cps"].append(line)
        elif op == "pm":
            inp["pm"] = int(p[1])
        elif op == "seg":
            inp["seg"] = tuple(p[1:])
        elif op == "c":
            inp["c"].append((p[1], int(p[2]), int(p[3]), p[4], p[5]))
            if len(p) >= 9:      # dictionary phrase: code, weight, matching_code_size (0 = exact match)
                inp.setdefault("cw", []).append((p[1], int(p[3]), p[6], dbl(int(p[7], 16)), int(p[8]), p[4]))
        elif op == "endin":
            inp["done"] = True
    return schemas


def model_input(sch, cfg):
    o = ["table"] + sch["table"] + ["endtable", "cfg %s %d %s %d %d %d" % (sch["kind"], 1 if cfg["completion"] else 0,
                                                                          cfg["delims"].encode().hex() or "-", 1 if cfg.get("sentence") else 0,
                                                                          1 if cfg.get("word_completion", cfg["completion"]) else 0,
                                                                          1 if cfg.get("soc") else 0)]
    for inp in sch["inputs"]:
        if not inp["done"] or inp["g"] is None:
            continue
        o.append("in %s" % inp["in"])
        o.append("g %d %d %d" % inp["g"][:3])
        o += inp["gi"]
        if inp["pv"]:
            o.append(inp["pv"])
        o += inp["px"]
        o += inp["cps"]
        o.append("go")
    return "\n".join(o) + "\n"


def parse_model(out):
    res, cur, lk = {}, None, None
    for line in out.splitlines():
        p = line.split(" ")
        if p[0] == "in":
            cur = {"lk": {}, "c": [], "done": False}
            res[p[1]] = cur
        elif cur is None:
            continue
        elif p[0] == "lk":
            lk = cur["lk"].setdefault(int(p[1]), [])
        elif p[0] == "L":
            lk.append((int(p[1]), p[2], p[3], (int(p[6]), int(p[7])), int(p[4]), int(p[5])))
        elif p[0] == "c":
            cur["c"].append((p[1], int(p[2]), int(p[3]), p[4]))
        elif p[0] == "mf":      # the poet's port with IEEE doubles: start end texthex weightbits
            cur["mf"] = None if p[1] == "none" else (int(p[1]), int(p[2]), p[3], dbl(int(p[4], 16)))
        elif p[0] == "ms":      # the poet's port with exact dyadic arithmetic: start end texthex m e
            cur["ms"] = None if p[1] == "none" else (int(p[1]), int(p[2]), p[3], (int(p[4]), int(p[5])))
        elif p[0] == "endin":
            cur["done"] = True
        elif p[0] == "bad-op":
            cur["bad"] = True
    return res


def dbl(bits):
    return struct.unpack("<d", struct.pack("<Q", bits))[0]


def dy(me):
    m, e = me
    return float(Fraction(m) * (Fraction(2) ** e))


# ------------------------------------------------------------------------------------------------ comparisons
def canon_runs(seq, keyf, wf, tol=1e-9):
    """sort maximal runs of consecutive items with the same key and (nearly) equal weight: ties are not ordered by the code"""
    out, run = [], []
    for it in seq:
        if run and keyf(run[-1]) == keyf(it) and abs(wf(run[-1]) - wf(it)) <= tol * max(1.0, abs(wf(it))):
            run.append(it)
        else:
            out += sorted(run)
            run = [it]
    return out + sorted(run)


def correspond_input(kind, inp, mo, stats=None):
    """model vs implementation for one input -> list of (clause, detail)"""
    bad = []
    if mo is None or not mo["done"]:
        return [("model-missing", "no model output")]
    if mo.get("bad"):
        return [("bad-op", "driver rejected a line")]
    if kind == "script":
        for p, L in inp["lk"].items():
            a = [(e, t, c, dbl(w), m, r) for e, t, c, w, m, r in L]
            b = [(e, t, c, dy(w), m, r) for e, t, c, w, m, r in mo["lk"].get(p, [])]
            if [x[:3] + x[4:] for x in a] != [x[:3] + x[4:] for x in b]:
                ca = canon_runs(a, lambda x: (x[0], x[4], x[5]), lambda x: x[3])
                cb = canon_runs(b, lambda x: (x[0], x[4], x[5]), lambda x: x[3])
                if [x[:3] + x[4:] for x in ca] != [x[:3] + x[4:] for x in cb]:
                    bad.append(("lookup", "Dictionary::Lookup(predict=%d): impl %s model %s" % (p, [x[:3] for x in a][:6], [x[:3] for x in b][:6])))
                    continue
            if len(a) == len(b) and any(abs(x[3] - y[3]) > 1e-9 * max(1.0, abs(x[3])) for x, y in zip(sorted(a), sorted(b))):
                bad.append(("weight", "entry weights differ: impl %s model %s" % (sorted(a)[:3], sorted(b)[:3])))
    ci = [c[:4] for c in inp["c"]]
    cm = mo["c"]
    # the sentence: the real translator's against the port of the poet on the model's word graph (IEEE doubles, same operations)
    si = ci[0] if ci and ci[0][0] == "sentence" else None
    sm = cm[0] if cm and cm[0][0] == "sentence" else None
    wi = [x[3] for x in inp.get("cw", []) if x[0] == "sentence"]
    if si != sm:
        mf = mo.get("mf")
        # the model's credibilities are exact sums where the code rounds after every addition: a sentence of (nearly) the same
        # weight is the same answer; anything else is a disagreement
        if si and sm and mf and wi and si[:3] == sm[:3] and abs(mf[3] - wi[0]) <= 1e-9 * max(1.0, abs(wi[0])):
            if stats is not None:
                stats["sentence_rounding_ties"] += 1
        else:
            bad.append(("poet-sentence", "sentence: impl %s (weight %s), port of the poet on the model's word graph %s (%s)" %
                        (si, wi[:1], sm, mf)))
        ci = ci[1:] if si else ci
        cm = cm[1:] if sm else cm
    elif si is not None and stats is not None:
        stats["sentences_compared_with_port"] += 1
        mf = mo.get("mf")
        if mf and wi and struct.pack("<d", mf[3]) == struct.pack("<d", wi[0]):
            stats["sentence_weights_bit_identical"] += 1
        ex = mo.get("ms")
        if ex is None or (ex[0], ex[1], ex[2]) != (si[1], si[2], si[3]):
            # exact dyadic arithmetic chose another sentence than the doubles did: legitimate only within rounding
            if ex is not None and wi and abs(dy(ex[3]) - wi[0]) <= 1e-9 * max(1.0, abs(wi[0])):
                stats["sentence_exact_vs_double_ties"] += 1
            else:
                bad.append(("poet-sentence-exact", "sentence with doubles %s (weight %s), with exact arithmetic %s" % (si, wi[:1], ex)))
    if ci != cm:
        # equal-weight neighbours may come in either order
        if sorted(ci) != sorted(cm) or not same_modulo_ties(kind, inp, ci, cm):
            bad.append(("candidates", "candidate list: impl %s model %s" % (ci[:8], cm[:8])))
    return bad


def same_modulo_ties(kind, inp, ci, cm):
    """lists equal up to swaps of neighbours that the implementation itself ranks equal (same end, type and double weight)"""
    if kind != "script":
        return False
    w = {}
    for p, L in inp["lk"].items():
        for e, t, c, wb, m, r in L:
            w.setdefault((e, t), []).append(dbl(wb))
    def key(c):
        ws = w.get((c[2] - c[1], c[3]))
        return (c[0], c[2], max(ws) if ws else None)
    i = 0
    a, b = list(ci), list(cm)
    while i < len(a):
        j = i
        while j + 1 < len(a) and key(a[j + 1]) == key(a[i]) and key(a[i])[2] is not None:
            j += 1
        if sorted(a[i:j + 1]) != sorted(b[i:j + 1]):
            return False
        i = j + 1
    return True


# ------------------------------------------------------------------------------------------------ generator
ALGEBRAS = [
    None, None, None,
    ["abbrev/^([a-z]).+$/$1/"],
    ["derive/^b/c/"],
    ["fuzz/^a/b/"],
    ["derive/^a(.)$/$1a/", "abbrev/^([a-z]).+$/$1/"],
    ["xform/^c/a/"],
    ["derive/a$/b/", "fuzz/^(.)b$/$1c/"],
]


def gen_config(rng, name, quick=True):
    letters = rng.choice(["ab", "abc", "abc", "abcd"])
    style = rng.choice(["mixed", "mixed", "mixed", "long", "words", "twins", "ladders"])
    nsyl = rng.randint(2, 7)
    syl = set()
    while len(syl) < nsyl:
        syl.add("".join(rng.choice(letters) for _ in range(rng.choice([1, 1, 2, 2, 3]))))
    algebra = rng.choice(ALGEBRAS)
    lens = rng.choice([[1, 1, 2, 2, 3, 4, 5], [1, 2, 3, 3, 4, 4, 5, 6], [1, 1, 1, 2]])
    if style == "long":           # many codes beyond the index depth: tail pages, match_extra_code
        syl = set(sorted(syl)[:3]) | {letters[0]}
        lens = [3, 4, 4, 5, 5, 6, 7]
    elif style == "ladders":      # phrases of 3..6 syllables that are prefixes of each other, few one-letter syllables
        syl = set(letters[:rng.randint(2, 3)])
        lens = [4, 5, 6, 4, 5, 6, 3, 2, 1]
    elif style == "words":        # table-style: one-syllable codes that extend each other
        syl = {letters[0] * k for k in (1, 2, 3)} | {"".join(rng.choice(letters) for _ in range(rng.randint(1, 4))) for _ in range(8)}
        lens = [1, 1, 1, 1, 2]
    elif style == "twins":        # syllables that an algebra rule maps onto one spelling: several keys/syllables equal the code
        letters = "abc"
        stems = {"".join(rng.choice("abc") for _ in range(rng.randint(0, 2))) for _ in range(4)}
        syl = {"b" + x for x in stems} | {"c" + x for x in stems}
        algebra = rng.choice([["derive/^b/c/"], ["derive/^b/c/"], ["xform/^b/c/"], ["derive/^c/b/", "abbrev/^([a-z]).+$/$1/"]])
        lens = [1, 1, 1, 2, 3]
    syl = sorted(s.encode() for s in syl if s)
    prof = dict(rows=(4, 40), clean=True, lens=lens,
                weights=rng.choice(["ties", "plain", "ties"]), texts="dense", repeat_code=0.35, repeat_text=0.3, share_prefix=0.6,
                sort=rng.choice([None, "by_weight", "original"]))
    if style == "ladders":
        prof.update(share_prefix=0.9, repeat_code=0.2, rows=(8, 40))
    n = rng.randint(*prof["rows"])
    f = C06.gen_file(rng, name + "d", syl, n, prof, columns_pool=False)
    case = {"name": name + "d", "files": [f]}
    delims = rng.choice(["'", "'", " '", "'"])
    opts = gen_options(rng)
    if style == "words" and rng.random() < 0.5:      # a sentence in front of completions needs both (and words that are prefixes)
        opts["sentence_over_completion"] = True
        opts["enable_completion"] = rng.choice([None, True])
    if style in ("long", "ladders") and rng.random() < 0.5:   # word completion decided by its own option
        opts["enable_word_completion"] = rng.choice([True, False])
    cfg = {"name": name, "case": case, "alphabet": letters, "delims": delims, "algebra": algebra, "style": style, "opts": opts}
    return effective(cfg)


def config_to_json(cfg):
    j = {k: cfg.get(k) for k in ("name", "alphabet", "delims", "completion", "strict", "algebra", "sentence", "opts", "word_completion")}
    j["case"] = C06.case_to_json(cfg["case"])
    return j


def config_from_json(j):
    cfg = {k: j.get(k) for k in ("name", "alphabet", "delims", "completion", "strict", "algebra", "sentence", "opts")}
    cfg["case"] = C06.case_from_json(j["case"])
    return effective(cfg)


# ------------------------------------------------------------------------------------------------ reference (O)
def graph_of(inp):
    """recorded syllable graph: edges[start] = [(syll, end, type)], interpreted length"""
    edges = {}
    for line in inp["gi"]:
        p = line.split(" ")
        edges.setdefault(int(p[1]), []).append((int(p[2]), int(p[3]), int(p[4])))
    return edges, inp["g"][0]


def ends_of(code, edges, start=0):
    """all end positions of paths from `start` carrying the syllables of `code`"""
    cur = {start}
    for s in code:
        nxt = set()
        for pos in cur:
            for sy, e, ty in edges.get(pos, ()):
                if sy == s:
                    nxt.add(e)
        cur = nxt
        if not cur:
            break
    return cur


def monitor_script(cfg, rows, sid, inp):
    """the property on the implementation's candidate list of the script-style schema -> list of (clause, detail)"""
    bad = []
    if inp["g"] is None:
        return bad
    edges, interp = graph_of(inp)
    cands = inp["c"]
    wc = cfg.get("word_completion", cfg["completion"])      # enable_word_completion, by default enable_completion
    predict = wc and interp == inp["g"][1]
    by_text = {}
    for text, code, w in rows:
        by_text.setdefault(text.hex(), []).append(tuple(sid[s] for s in code))
    exact_ends, pred_ends = {}, {}
    for t, codes in by_text.items():
        for code in codes:
            E = ends_of(code, edges)
            if E:
                exact_ends.setdefault(t, set()).update(E if len(code) <= 3 else {max(E)})
            if predict and len(code) > 3:
                for k in range(3, len(code)):
                    if interp in ends_of(code[:k], edges):
                        pred_ends.setdefault(t, set()).add(interp)
    body = cands
    if cands and cands[0][0] == "sentence":
        body = cands[1:]
        s = cands[0]
        # a sentence is a concatenation of entries along a path covering the interpreted input
        target = _unhex(s[3]) if s[3] != "-" else b""
        reach = {(0, 0)}
        done = False
        frontier = [(0, 0)]
        while frontier and not done:
            pos, off = frontier.pop()
            for text, code, w in rows:
                if not target.startswith(text, off):
                    continue
                for e in ends_of(tuple(sid[x] for x in code), edges, pos):
                    st = (e, off + len(text))
                    if st == (interp, len(target)):
                        done = True
                    if st not in reach:
                        reach.add(st)
                        frontier.append(st)
        if not done or s[1] != 0 or s[2] != interp:
            bad.append(("sentence", "sentence %s [%d,%d) is not a concatenation of entries covering the interpreted input [0,%d)" %
                        (target.decode("utf-8", "replace"), s[1], s[2], interp)))
    sent_text = cands[0][3] if cands and cands[0][0] == "sentence" else None
    seen = set()
    last_end = last_type = None
    for ty, st, en, t, cm in body:
        if t in seen:
            bad.append(("duplicate", "text %s listed twice" % t))
        seen.add(t)
        if ty == "phrase":
            if en not in exact_ends.get(t, ()):
                bad.append(("unsound", "candidate %s [%d,%d) is no dictionary entry spelled by that prefix" %
                            (_unhex(t).decode("utf-8", "replace"), st, en)))
        elif ty == "completion":
            if en not in pred_ends.get(t, ()) or not wc:
                bad.append(("unsound", "completion %s [%d,%d) not licensed (enable_completion=%s, enable_word_completion=%s: word "
                            "completion %s)" % (_unhex(t).decode("utf-8", "replace"), st, en,
                                               (cfg.get("opts") or {}).get("enable_completion", cfg["completion"]),
                                               (cfg.get("opts") or {}).get("enable_word_completion"), "on" if wc else "off")))
        else:
            bad.append(("unsound", "unexpected candidate type %s" % ty))
        if last_end is not None and en > last_end:
            bad.append(("order", "a shorter match [0,%d) comes before a longer one [0,%d)" % (last_end, en)))
        if last_end == en and last_type == "completion" and ty == "phrase":
            bad.append(("order", "at [0,%d) a word completion comes before the fully spelled entry %s" %
                        (en, _unhex(t).decode("utf-8", "replace"))))
        last_end, last_type = en, ty
        best = max(exact_ends.get(t, set()) | {0})
        if ty == "phrase" and en in exact_ends.get(t, set()) and en != best:
            bad.append(("order", "text %s first listed at [0,%d) although it is also spelled by [0,%d)" % (t, en, best)))
    # completeness is claimed for fully spelled entries only (word completion is an extra, licensed but not promised)
    for t in sorted(exact_ends):
        if t not in seen and t != sent_text:
            bad.append(("incomplete", "entry %s (spelled up to %s) is missing from the list" %
                        (_unhex(t).decode("utf-8", "replace"), sorted(exact_ends.get(t, set())))))
    # same code => non-increasing weight.  The clause is about the entries sharing a code (homophones) within one way of matching:
    # the same entry may be reached twice at one end position, once fully spelled (exact) and once as a word completion
    # (predictive: fewer syllables matched, hence fewer penalties), and compare_chunk_by_head_element ranks every exact match
    # before every predictive one whatever the weights; DistinctTranslation then shows the text once.  So the key is
    # (end, code, exact-or-predictive).  Checked on the dictionary's own lookup result AND on the real candidate list.
    if cfg["case"]["files"][0].get("sort") != "original":
        for p, L in inp["lk"].items():
            last = {}
            for e, t, c, wb, m, r in L:
                w = dbl(wb)
                k = (e, c, m != 0)
                if k in last and w > last[k] + 1e-12:
                    bad.append(("weight-order", "Dictionary::Lookup end %d code %s (%s): weight %r after %r" %
                                (e, c, "predictive" if m else "exact", w, last[k])))
                last[k] = w
        last = {}
        for ty, en, code, w, m, t in inp.get("cw", []):
            if ty == "sentence":
                continue
            k = (en, code, m != 0)
            if k in last and w > last[k] + 1e-12:
                bad.append(("weight-order", "candidate list: %s [0,%d) code %s weight %r comes after a lighter candidate of the same "
                            "code (weight %r)" % (_unhex(t).decode("utf-8", "replace"), en, code, w, last[k])))
            last[k] = w
    # a candidate never appears a second time with the same code at the same end (an entry listed twice)
    seen_ec = set()
    for ty, en, code, w, m, t in inp.get("cw", []):
        if (en, code, t) in seen_ec:
            bad.append(("duplicate", "entry %s code %s listed twice at [0,%d)" % (t, code, en)))
        seen_ec.add((en, code, t))
    return bad


def parse_keys(inp):
    def sy(line):
        p = line.split(" ")
        return int(p[1]), [] if p[2] == "-" else [tuple(int(x) for x in q.split(":")) for q in p[2].split(",")]
    pv = sy(inp["pv"]) if inp["pv"] else None
    return pv, [sy(l) for l in inp["px"]]


def monitor_table(cfg, rows, sid, inp, by_weight):
    """table-style: entries whose code equals the input first, in weight order; then only entries whose code extends the input,
    and only when completion is enabled"""
    bad = []
    if inp["g"] is None:
        return bad
    pv, px = parse_keys(inp)
    code = _unhex(inp["in"]).rstrip(cfg["delims"].encode())
    words = {}
    for text, c, w in rows:
        if len(c) == 1:
            words.setdefault(sid[c[0]], []).append((text.hex(), w))
    exact_syl = [s for s, ty in (pv[1] if pv else []) if ty <= 0]
    ext_syl = [s for ln, sy in px if ln > len(code) for s, ty in sy if ty <= 0]
    exact = {}
    for s in exact_syl:
        for t, w in words.get(s, []):
            exact.setdefault(t, []).append(w)
    ext = {t for s in ext_syl for t, w in words.get(s, [])}
    # sentence making (enable_sentence): only when the plain translation is empty
    plain_possible = bool(exact) or (cfg["completion"] and bool(ext))
    has_sentence = bool(inp["c"]) and inp["c"][0][0] == "sentence"
    if cfg.get("sentence") and not plain_possible:
        return bad + monitor_table_sentence(cfg, words, inp)
    soc_shape = cfg.get("soc") and has_sentence and len(inp["c"]) > 1 and inp["c"][1][0] == "completion"
    if cfg.get("sentence") and not exact and (has_sentence or not inp["c"]) and not soc_shape:
        return bad      # completion keys exist but the lazy lookup offered none of their words (first ten keys without words): K only
    body = inp["c"]
    seen = set()
    if has_sentence:
        # sentence_over_completion: a sentence may precede a list that begins with a completion (no entry has exactly this code)
        nxt = inp["c"][1][0] if len(inp["c"]) > 1 else None
        if cfg.get("soc") and not exact and nxt in ("completion", None):
            due, ok = table_sentence_cover(cfg, words, inp, inp["c"][0])
            if not (due and ok):
                bad.append(("sentence", "sentence %s [%d,%d) before the completions is not a concatenation of entries whose codes (+ delimiters) "
                            "make up the input" % (_unhex(inp["c"][0][3]).decode("utf-8", "replace"), inp["c"][0][1], inp["c"][0][2])))
            body = inp["c"][1:]
            seen.add(inp["c"][0][3])
        else:
            bad.append(("unsound", "a sentence although the input has %s" % ("entries of its own" if plain_possible else "enable_sentence off")))
            return bad
    phase, lastw = "table", None
    for ty, st, en, t, cm in body:
        if t in seen:
            bad.append(("duplicate", "text %s listed twice" % t))
        seen.add(t)
        if (st, en) != (0, len(_unhex(inp["in"]))):
            bad.append(("span", "candidate spans [%d,%d)" % (st, en)))
        if ty == "table":
            if phase != "table":
                bad.append(("order", "an exact entry (%s) comes after a completion" % _unhex(t).decode("utf-8", "replace")))
            if t not in exact:
                bad.append(("unsound", "%s is no entry with code %r" % (_unhex(t).decode("utf-8", "replace"), code)))
            elif by_weight:
                w = max(exact[t])
                if lastw is not None and w > lastw:
                    shown = ["%s(%s)" % (_unhex(x[3]).decode("utf-8", "replace"),
                                         "/".join(sorted({ws.decode("latin-1") for tt, cc, ws in cfg.get("_raw_rows", []) if tt.hex() == x[3] and len(cc) == 1})))
                             for x in inp["c"] if x[0] == "table"]
                    bad.append(("exact-order", "entries whose code equals the input are not in weight order: %s comes after a lighter "
                                "entry; list with source weights: %s" % (_unhex(t).decode("utf-8", "replace"), " ".join(shown[:8]))))
                lastw = w
        elif ty == "completion":
            phase = "completion"
            if not cfg["completion"]:
                bad.append(("unsound", "completion candidate although completion is disabled"))
            if t not in ext:
                bad.append(("unsound", "%s is no entry whose code extends %r" % (_unhex(t).decode("utf-8", "replace"), code)))
        else:
            bad.append(("unsound", "unexpected candidate type %s" % ty))
    for t in exact:
        if t not in seen:
            bad.append(("incomplete", "entry %s with code %r is missing" % (_unhex(t).decode("utf-8", "replace"), code)))
    if inp["pm"] == 0:
        bad.append(("prism-limit", "ExpandSearch with limit 10 is not a prefix of the unlimited search"))
    return bad


def table_word_edges(cfg, words, inp):
    """the word graph of the reference: start -> {end: set of texts}; a word = a key of the prism at that position with
    one-syllable entries, followed by all the delimiters after it"""
    raw = _unhex(inp["in"])
    total = len(raw)
    dl = cfg["delims"].encode()
    edges = {}
    for line in inp["cps"]:
        p = line.split(" ")
        sp, ln = int(p[1]), int(p[2])
        if ln == 0:
            continue
        e = sp + ln
        while e < total and raw[e:e + 1] and raw[e] in dl:
            e += 1
        texts = set()
        for q in (p[3].split(",") if p[3] != "-" else []):
            sy, ty = (int(x) for x in q.split(":"))
            if ty <= 0:
                texts.update(t for t, w in words.get(sy, []))
        if texts:
            edges.setdefault(sp, {}).setdefault(e, set()).update(texts)
    return edges, total


def table_sentence_cover(cfg, words, inp, s0):
    """-> (a sentence is due: the end is reachable without the one word that spans everything,
           s0 spans the input and is a concatenation of entries along such a cover)"""
    edges, total = table_word_edges(cfg, words, inp)

    def step(sp):
        return [(e, ts) for e, ts in edges.get(sp, {}).items() if not (sp == 0 and e == total)]
    fwd = {0}
    for sp in range(total):
        if sp in fwd:
            fwd.update(e for e, _ in step(sp))
    target = _unhex(s0[3])
    ok, seen_st, todo = False, {(0, 0)}, [(0, 0)]
    while todo and not ok:
        pos, off = todo.pop()
        for e, ts in step(pos):
            for t in ts:
                tb = _unhex(t)
                if target.startswith(tb, off):
                    st = (e, off + len(tb))
                    if st == (total, len(target)):
                        ok = True
                    if st not in seen_st:
                        seen_st.add(st)
                        todo.append(st)
    return total in fwd, ok and (s0[1], s0[2]) == (0, total)


def monitor_table_sentence(cfg, words, inp):
    """table-style schema with enable_sentence, input without entries of its own.  Reference: the input is cut into words — a code
    (a key of the prism at that position that has one-syllable entries) followed by all the delimiters after it; a sentence is
    due iff such words (at least two) cover the input; it must be a concatenation of entries along such a cover; after it come the
    entries of the words that start the input (sound: only those; complete: at least those that begin a cover), longer first."""
    bad = []
    raw = _unhex(inp["in"])
    total = len(raw)
    dl = cfg["delims"].encode()
    edges = {}                       # start -> {end: set of texts}
    for line in inp["cps"]:
        p = line.split(" ")
        sp, ln = int(p[1]), int(p[2])
        if ln == 0:
            continue
        e = sp + ln
        while e < total and raw[e:e + 1] and raw[e] in dl:
            e += 1
        texts = set()
        for q in (p[3].split(",") if p[3] != "-" else []):
            sy, ty = (int(x) for x in q.split(":"))
            if ty <= 0:
                texts.update(t for t, w in words.get(sy, []))
        if texts:
            edges.setdefault(sp, {}).setdefault(e, set()).update(texts)
    # positions from which the end is reachable / reachable from 0, never using the one word that spans everything
    def step(sp):
        return [(e, ts) for e, ts in edges.get(sp, {}).items() if not (sp == 0 and e == total)]
    fwd = {0}
    for sp in range(total):
        if sp in fwd:
            fwd.update(e for e, _ in step(sp))
    back = {total}
    for sp in range(total - 1, -1, -1):
        if any(e in back for e, _ in step(sp)):
            back.add(sp)
    due = total in fwd
    cands = inp["c"]
    if not due:
        if cands:
            c0 = cands[0]
            bad.append(("unsound", "%s %s [%d,%d) although the input cannot be cut into dictionary words (+ delimiters)" %
                        (c0[0], _unhex(c0[3]).decode("utf-8", "replace"), c0[1], c0[2])))
        return bad
    if not cands or cands[0][0] != "sentence":
        first = sorted(e for e in edges.get(0, {}) if e in back and e != total)
        bad.append(("incomplete", "the input is a sequence of dictionary words (first word ends at %s) but %s" %
                    (first[:3], "the candidate list is empty" if not cands else "no sentence is offered")))
        return bad
    s0 = cands[0]
    target = _unhex(s0[3])
    ok, seen_st, todo = False, {(0, 0)}, [(0, 0)]
    while todo and not ok:
        pos, off = todo.pop()
        for e, ts in step(pos):
            for t in ts:
                tb = _unhex(t)
                if target.startswith(tb, off):
                    st = (e, off + len(tb))
                    if st == (total, len(target)):
                        ok = True
                    if st not in seen_st:
                        seen_st.add(st)
                        todo.append(st)
    if not ok or (s0[1], s0[2]) != (0, total):
        bad.append(("sentence", "sentence %s [%d,%d) is not a concatenation of entries whose codes (+ delimiters) make up the input" %
                    (target.decode("utf-8", "replace"), s0[1], s0[2])))
    seen, last_end = {s0[3]}, None
    for ty, st, en, t, cm in cands[1:]:
        if t in seen and t != s0[3]:
            bad.append(("duplicate", "text %s listed twice" % t))
        seen.add(t)
        if ty != "table" or st != 0 or t not in edges.get(0, {}).get(en, ()):
            bad.append(("unsound", "%s %s [%d,%d) is no entry whose code (+ delimiters) starts the input" %
                        (ty, _unhex(t).decode("utf-8", "replace"), st, en)))
        if last_end is not None and en > last_end:
            bad.append(("order", "a shorter word [0,%d) comes before a longer one [0,%d)" % (last_end, en)))
        last_end = en
    for e, ts in edges.get(0, {}).items():
        if e in back and e != total:
            for t in sorted(ts):
                if t not in seen:
                    bad.append(("incomplete", "entry %s, a first word [0,%d) of the sentence's input, is missing" %
                                (_unhex(t).decode("utf-8", "replace"), e)))
    return bad


# ------------------------------------------------------------------------------------------------ running
class Runner:
    def __init__(self, c):
        self.c = c
        self.exe, self.bdir = vlib.build_harness("c07_harness", "san", ["c07_harness.cc"])
        rc, out = vlib.lake_build(["driver_c07"])
        if rc != 0:
            raise vlib.BuildError("driver_c07 does not build: " + out[-3000:])
        self.n = 0
        self.harness_s = 0.0
        self.model_s = 0.0

    def impl(self, cfgs, inputs_by_cfg):
        self.n += 1
        d = os.path.join(self.c.work, "ws%d" % self.n)
        make_workspace(d, cfgs)
        job = os.path.join(self.c.work, "job%d.txt" % self.n)
        with open(job, "w") as f:
            f.write(job_text(cfgs, inputs_by_cfg))
        t0 = time.time()
        for attempt in range(4):
            rc, out = vlib.sh([self.exe, d, job], env=vlib.SAN_ENV, timeout=3600)
            if rc == 127 or "error while loading shared libraries" in out:
                vlib.build_librime("san")
                time.sleep(1 + attempt)
                continue
            break
        self.harness_s += time.time() - t0
        shutil.rmtree(d, ignore_errors=True)
        os.unlink(job)
        return rc, out, parse_impl(out)

    def model(self, sch, cfg):
        t0 = time.time()
        out = vlib.run_driver("driver_c07", model_input(sch, cfg))
        self.model_s += time.time() - t0
        return parse_model(out)


def ref_of(cfg):
    syl, rows, need, nent = C06.ref_rows(cfg["case"])
    cfg["_raw_rows"] = rows
    sid = {s: i for i, s in enumerate(syl)}
    wrows = [(t, cd, C06.okey(C06.stored_bits(C06.eff_weight(w)))) for t, cd, w in rows]
    return syl, sid, wrows


def evaluate(run, cfgs, inputs_by_cfg, stats=None, want_model=True):
    """-> (failures [(cfg, kind, input hex, clause, detail)], disagreements [...], crash log or None)"""
    rc, out, schemas = run.impl(cfgs, inputs_by_cfg)
    byname = {cfg["name"]: cfg for cfg in cfgs}
    fails, diffs = [], []
    crash = None
    if rc != 0:
        crash = out[-3000:]
    for sch in schemas:
        cfg = byname.get(sch["id"][:-1])
        if cfg is None:
            continue
        syl, sid, wrows = ref_of(cfg)
        if not sch["loaded"] or not sch["selected"]:
            if syl:
                fails.append((cfg, sch["kind"], None, "deploy", "schema %s: dictionary loaded=%s, schema selected=%s" %
                              (sch["id"], sch["loaded"], sch["selected"])))
            continue
        mo = run.model(sch, cfg) if want_model else {}
        by_weight = cfg["case"]["files"][0].get("sort") != "original"
        for inp in sch["inputs"]:
            if not inp["done"]:
                continue
            o = monitor_script(cfg, wrows, sid, inp) if sch["kind"] == "script" else monitor_table(cfg, wrows, sid, inp, by_weight)
            k = correspond_input(sch["kind"], inp, mo.get(inp["in"]), stats) if want_model else []
            if stats is not None:
                stats["inputs"] += 1
                stats["candidates"] += len(inp["c"])
                stats["lookup_entries"] += sum(len(v) for v in inp["lk"].values())
                stats["with_sentence"] += 1 if inp["c"] and inp["c"][0][0] == "sentence" else 0
                if sch["kind"] == "table":
                    stats["table_sentences"] += 1 if inp["c"] and inp["c"][0][0] == "sentence" else 0
                    stats["table_sentence_mode_inputs"] += 1 if cfg.get("sentence") else 0
                    stats["sentence_over_completion_inputs"] += 1 if cfg.get("soc") else 0
                    stats["sentences_over_completions"] += 1 if (cfg.get("soc") and len(inp["c"]) > 1 and inp["c"][0][0] == "sentence"
                                                                 and inp["c"][1][0] == "completion") else 0
                    stats["table_inputs_with_inner_delimiter"] += 1 if any(ch in cfg["delims"] for ch in _unhex(inp["in"]).decode("latin-1").rstrip(cfg["delims"])) else 0
                stats["with_completion"] += 1 if any(x[0] == "completion" for x in inp["c"]) else 0
                stats["long_code_hits"] += sum(1 for v in inp["lk"].values() for x in v if x[2].count(",") >= 3)
                stats["graph_edges"] += len(inp["gi"])
                stats["ambiguous"] += 1 if any(l.split(" ")[5] != "0000000000000000" for l in inp["gi"]) else 0
                if len(inp["c"]) >= 2:
                    stats["nontrivial"].add((sch["kind"], len(inp["c"]), len(inp["gi"]), inp["g"][:2] if inp["g"] else None,
                                             tuple(sorted(set(x[0] for x in inp["c"])))))
            for cl, det in o:
                fails.append((cfg, sch["kind"], inp["in"], cl, det))
            for cl, det in k:
                diffs.append((cfg, sch["kind"], inp["in"], cl, det))
    return fails, diffs, crash


def shrink(run, cfg, kind, inhex, clause, budget):
    """fewer dictionary rows, same input, same clause"""
    evals = [0]
    s = _unhex(inhex).decode("latin-1")

    def fails(lines):
        evals[0] += 1
        c2 = dict(cfg, name="m%d" % evals[0])
        f = dict(cfg["case"]["files"][0], fname=c2["name"] + "d", body=b"\n".join(lines) + b"\n")
        c2["case"] = {"name": c2["name"] + "d", "files": [f]}
        fl, _, crash = evaluate(run, [c2], {c2["name"]: [s]}, want_model=False)
        return any(k == kind and cl == clause for _, k, _, cl, _ in fl)

    lines = [l for l in cfg["case"]["files"][0]["body"].split(b"\n") if l.strip()]
    n = 2
    while len(lines) >= 2 and evals[0] < budget:
        chunk = max(1, len(lines) // n)
        reduced = False
        for i in range(0, len(lines), chunk):
            cand = lines[:i] + lines[i + chunk:]
            if cand and fails(cand):
                lines, n, reduced = cand, max(n - 1, 2), True
                break
            if evals[0] >= budget:
                break
        if not reduced:
            if chunk == 1:
                break
            n = min(len(lines), n * 2)
    c2 = dict(cfg, name="min")
    f = dict(cfg["case"]["files"][0], fname="mind", body=b"\n".join(lines) + b"\n")
    c2["case"] = {"name": "mind", "files": [f]}
    return c2, evals[0]


def corpus_items():
    out = []
    for p in sorted(glob.glob(os.path.join(vlib.CORPUS, "C07", "*.json"))):
        j = json.load(open(p))
        cfg = config_from_json(j["config"])
        base = re.sub(r"[^a-z0-9]", "", os.path.splitext(os.path.basename(p))[0].lower())[:12]
        cfg["name"] = "c" + base
        cfg["case"]["name"] = cfg["name"] + "d"
        cfg["case"]["files"][0]["fname"] = cfg["name"] + "d"
        out.append((cfg, j["inputs"]))
    return out


def run(c):
    quick = c.tier == "quick"
    audit = vlib.lean_audit("C07")
    if not quick and audit["ok"]:
        ok, log = vlib.leanchecker("RimeModel.Props.C07")
        if not ok:
            audit["ok"] = False
            audit["failures"].append(("RimeModel.Props.C07", "leanchecker: " + log))
    run_ = Runner(c)
    n_cfg, max_len, n_rand = (48, 4, 40) if quick else (400, 5, 100)
    stats = {"configurations": 0, "inputs": 0, "candidates": 0, "lookup_entries": 0, "with_sentence": 0, "with_completion": 0,
             "long_code_hits": 0, "graph_edges": 0, "ambiguous": 0, "nontrivial": set(), "algebra": {}, "completion_on": 0,
             "sort_original": 0, "table_sentences": 0, "table_sentence_mode_inputs": 0, "table_inputs_with_inner_delimiter": 0, "sentence_on": 0, "shrink_evals": 0, "crashes": 0, "exhaustive_length": max_len, "styles": {},
             "options": {}, "word_completion_differs_from_completion": 0, "sentence_over_completion_inputs": 0, "sentences_over_completions": 0,
             "sentences_compared_with_port": 0, "sentence_exact_vs_double_ties": 0, "sentence_rounding_ties": 0,
             "sentence_weights_bit_identical": 0,
             "poet_cases": 0, "poet_corpus_cases": 0, "poet_edges": 0, "poet_paths_enumerated": 0, "poet_with_empty_edges": 0,
             "poet_none": 0, "poet_sentences": 0, "poet_with_choice": 0, "poet_compare_functions_differ": 0,
             "poet_optimality_checked": 0, "poet_tiebreak_checked": 0}
    # ---- the sentence maker alone: real Poet::MakeSentence vs the Lean port on generated word graphs, brute-force monitor
    n_poet = 20000 if quick else 300000
    poet_fails, poet_diffs, poet_crash = c07_poet.check(c, run_.exe, n_poet, stats)
    poet_nontrivial = stats.pop("poet_nontrivial", set())
    seen_poet = set()
    if poet_crash:
        stats["crashes"] += 1
        c.report("C07:poet:crash", poet_crash[:600], {"kind": "impl-violation", "clause": "crash", "detail": poet_crash}, no_input=True)
    for clause, det, line in poet_fails:
        sig = "C07:poet:%s" % clause
        if sig in seen_poet:
            continue
        seen_poet.add(sig)
        which = "cw" if det.startswith("CompareWeight") else "la"

        def still(cs, impl_line, model_line, clause=clause, which=which):
            r = c07_poet.parse_line(impl_line)
            if r is None:
                return clause == "bad-op"
            try:
                return any(cl == clause for cl, _ in c07_poet.monitor(cs, c07_poet.parse_result(r[which]), which))
            except Exception:     # noqa
                return False
        small, ev = c07_poet.shrink(c, run_.exe, line, still) if line else (line, 0)
        stats["shrink_evals"] += ev
        c.report(sig, "Poet::MakeSentence on the word graph `%s`: %s" % (small[:300], det[:300]),
                 {"kind": "impl-violation", "clause": clause, "poet_op": small, "poet_op_found": line, "detail": det,
                  "source_hash": vlib.source_hash(SRC_FILES), "gen_version": GEN_VERSION})
    if not poet_fails and poet_diffs:
        det, line = poet_diffs[0]

        def differs(cs, impl_line, model_line):
            return impl_line != model_line
        small, ev = c07_poet.shrink(c, run_.exe, line, differs) if line else (line, 0)
        stats["shrink_evals"] += ev
        c.report("C07:correspondence:poet", "the Lean port of the poet and Poet::MakeSentence disagree on `%s`: %s" % (small[:300], det[:400]),
                 {"kind": "correspondence", "broken": "correspondence driver_c07 (op poet) vs c07_harness --poet", "poet_op": small,
                  "poet_op_found": line, "detail": det, "disagreements": len(poet_diffs)}, no_input=True)
    items = corpus_items()
    for i in range(n_cfg):
        cfg = gen_config(c.rng, "k%d" % i, quick)
        items.append((cfg, inputs_for(c.rng, cfg, max_len, n_rand)))
    all_fails, all_diffs = [], []
    for k in range(0, len(items), 6):
        batch = items[k:k + 6]
        cfgs = [b[0] for b in batch]
        fails, diffs, crash = evaluate(run_, cfgs, {b[0]["name"]: b[1] for b in batch}, stats)
        for cfg in cfgs:
            stats["configurations"] += 1
            a = json.dumps(cfg["algebra"])
            stats["algebra"][a] = stats["algebra"].get(a, 0) + 1
            stats["completion_on"] += 1 if cfg["completion"] else 0
            stats["sentence_on"] += 1 if cfg.get("sentence") else 0
            stats["word_completion_differs_from_completion"] += 1 if cfg.get("word_completion", cfg["completion"]) != cfg["completion"] else 0
            for k, v in sorted((cfg.get("opts") or {}).items()):
                key = "%s=%s" % (k, "absent" if v is None else yaml_value(v))
                stats["options"][key] = stats["options"].get(key, 0) + 1
            stats["styles"][cfg.get("style", "corpus")] = stats["styles"].get(cfg.get("style", "corpus"), 0) + 1
            stats["sort_original"] += 1 if cfg["case"]["files"][0].get("sort") == "original" else 0
        if crash:
            stats["crashes"] += 1
            all_fails.append((cfgs[0], "harness", None, "crash", crash[-800:]))
        all_fails += fails
        all_diffs += diffs
    seen = set()
    for cfg, kind, inhex, clause, det in all_fails:
        sig = "C07:%s:%s" % (kind, clause)
        if sig in seen:
            continue
        seen.add(sig)
        known = vlib.known_status("C07", sig)
        small = cfg
        if inhex is not None and not (known and known.get("status") == "open") and not cfg["name"].startswith("c"):
            small, ev = shrink(run_, cfg, kind, inhex, clause, 50 if quick else 150)
            stats["shrink_evals"] += ev
        c.report(sig, "%s schema, input %r: %s" % (kind, _unhex(inhex).decode("latin-1") if inhex else None, det[:400]),
                 {"kind": "impl-violation", "clause": clause, "schema_kind": kind, "config": config_to_json(small),
                  "inputs": [_unhex(inhex).decode("latin-1")] if inhex else [], "detail": det,
                  "source_hash": vlib.source_hash(SRC_FILES), "gen_version": GEN_VERSION})
    if not all_fails:
        for cfg, kind, inhex, clause, det in all_diffs:
            sig = "C07:correspondence:%s" % clause
            if sig in seen:
                continue
            seen.add(sig)
            c.report(sig, "model and implementation disagree (%s schema, input %r): %s" %
                     (kind, _unhex(inhex).decode("latin-1"), det[:400]),
                     {"kind": "correspondence", "broken": "correspondence driver_c07 vs c07_harness", "schema_kind": kind,
                      "config": config_to_json(cfg), "inputs": [_unhex(inhex).decode("latin-1")], "detail": det}, no_input=True)
    if not audit["ok"] and not all_fails:
        c.report("C07:proof", "proof obligation no longer checks: %s" % "; ".join("%s: %s" % f for f in audit["failures"])[:600],
                 {"kind": "proof", "broken_theorems": audit["failures"], "lean_log": audit["log"][-3000:]}, no_input=True)
    cov = vlib.proof_cov(audit, "lake build RimeModel.Props.C07 && #print axioms (all theorems) && forbidden-token scan"
                         + ("" if quick else " && leanchecker RimeModel.Props.C07"),
                         vlib.STD_TRUSTED + ["the real Syllabifier and Prism as recorded inputs (C08, C09)", "the compiled table (C06)",
                                             "IEEE double arithmetic of the compiler and of Lean's Float (the poet's port is run with both "
                                             "doubles and exact dyadic numbers)"])
    nontrivial = stats.pop("nontrivial")
    cov.update({
        "evaluations": stats["inputs"] + stats["poet_cases"], "distinct_nontrivial": len(nontrivial) + len(poet_nontrivial),
        "poet_rule": "one poet evaluation = one generated word graph (positions <= 8; edges forward; 0-9 entries per edge; kinds: random, "
                     "ties, dense, lone [0,total) edge, chain, gaps, total 0, total beyond the graph, edges without entries, table-like "
                     "edges without entries, non-dyadic weights, many entries) given to the REAL Poet::MakeSentence with CompareWeight and "
                     "with LeftAssociateCompare; result compared bit for bit with the Lean port (doubles, same operations) and judged "
                     "directly: a path of graph entries from 0 to total other than the single edge, fields of the Sentence, weight = the "
                     "fold, optimal among all paths by enumeration, LeftAssociateCompare's tie-breaking where rounding cannot interfere; "
                     "non-trivial = at least two paths; distinct by (compare function, words, edges, paths, word lengths)",
        "rule": "one evaluation = one input string on one deployed schema (script-style or table-style) of one generated dictionary: "
                "syllable graph, Dictionary::Lookup, candidate list recorded from the real code, compared with the Lean model and with a "
                "brute-force reference over the source rows; all inputs over alphabet+delimiters up to length %d plus %d random longer "
                "ones per configuration; corpus first. non-trivial = at least two candidates; distinct by (schema kind, number of "
                "candidates, graph edges, interpreted/input length, candidate types)" % (max_len, n_rand),
        "samples": [{"kind": x[0], "candidates": x[1], "graph_edges": x[2]} for x in sorted(nontrivial, key=str)[:: max(1, len(nontrivial) // 5)][:6]],
        "distribution": stats, "model_impl_disagreements": len(all_diffs) + len(poet_diffs),
        "impl_monitor_failures": len(all_fails) + len(poet_fails),
        "harness_seconds": round(run_.harness_s, 1), "model_seconds": round(run_.model_s, 1),
        "source_hash": vlib.source_hash(SRC_FILES), "gen_version": GEN_VERSION, "proof_failures": audit["failures"],
    })
    c.cov = cov
    c.assumptions = ["enable_user_dict: false; options generated as absent / explicit value (OPTION_VALUES): never enable_correction, enable_charset_filter, sentence_over_completion true, max_homophones / max_homographs other than 1; no packs",
                     "the input is one abc segment (first byte a letter of the alphabet)",
                     "the syllable graph and the prism's key lists are recorded from the implementation and given to the model (the sentence is NOT: the port of the poet computes it)",
                     "word graphs given to the poet have forward edges and come in std::map order (both callers build them so; an edge that does not go forward makes the real code loop)",
                     "credibility + weight is compared exactly in the model (the code rounds the sum to double)"]


def replay(c, r):
    if r.get("poet_op"):
        run_ = Runner(c)
        case = c07_poet.parse_op(r["poet_op"])
        rc, out, impl, model, _, _ = c07_poet.run_cases(c, run_.exe, [("replay", case)])
        res = c07_poet.parse_line(impl[0]) if impl else None
        bad = []
        if res:
            for which in ("cw", "la"):
                bad += [(which, cl, det) for cl, det in c07_poet.monitor(case, c07_poet.parse_result(res[which]), which)]
        diff = bool(impl) and bool(model) and impl[0] != model[0]
        print("replay poet op %s\n  impl  %s\n  model %s\n  monitor %s" % (r["poet_op"], impl[:1], model[:1], bad or "ok"))
        if r.get("kind") == "correspondence":
            return 1 if diff or rc != 0 else 0
        want = r.get("clause")
        return 1 if rc != 0 or any(cl == want for _, cl, _ in bad) else 0
    if "config" not in r or not r.get("inputs"):
        print("replay: this file names a broken obligation, no concrete input:", r.get("what"))
        return 1
    cfg = config_from_json(r["config"])
    run_ = Runner(c)
    fails, diffs, crash = evaluate(run_, [cfg], {cfg["name"]: r["inputs"]})
    want = r.get("clause")
    hit = [f for f in fails if want is None or f[3] == want]
    if r.get("kind") == "correspondence":
        print("replay: correspondence ->", [(d[1], d[3], d[4][:200]) for d in diffs][:3] or "ok")
        return 1 if diffs else 0
    print("replay %s inputs %s -> %s" % (cfg["name"], r["inputs"], [(f[1], f[3], f[4][:200]) for f in hit][:3] or "ok"))
    return 1 if hit or crash else 0
