"""C08 — syllable segmentation of an input is sound and complete."""
import os, sys, json, glob, itertools
import vlib

META = {
    "technique": ("Lean 4 theorems over a line-by-line model of Syllabifier::BuildSyllableGraph on an abstract prism "
                  "+ differential run of the real Prism/Syllabifier against the compiled model under ASan/UBSan "
                  "+ independent dynamic-programming reference on the implementation's graphs"),
    "level": "proof",
    "level_text": ("Theorems C08.edges_sound / edges_complete / vertices_on_path / farthest_maximal / completion_only_if / "
                   "normal_tilings_complete / indices_transpose (+ forward_loop_exhausts_queue: the model's loop bound is "
                   "never what stops the search): in the line-by-line Lean model of BuildSyllableGraph "
                   "(priority-queue forward search with delimiter skipping and the strict-spelling filter, backward pruning "
                   "with last_type/good, CheckOverlappedSpellings, completion through ExpandSearch, Transpose), for EVERY "
                   "prism (finite list of spellings with the descriptors their accessor yields), EVERY input byte string, "
                   "delimiter set and flag pair: each edge spans a stored spelling plus trailing delimiters and carries, per "
                   "syllable, a stored type of that spelling (completion edges: type completion, a normal/fuzzy syllable of a "
                   "spelling the remainder begins), every normal and fuzzy syllable of a spanning spelling is on the edge; "
                   "every retained vertex lies on a path of retained edges from 0 to the interpreted length; the interpreted "
                   "length is the largest position tileable by spellings, extended to the whole input exactly when completion "
                   "is on and ExpandSearch yields a normal/fuzzy spelling beginning with the remainder; every tiling of the "
                   "interpreted prefix by normal spellings is a path carrying those syllables with type normal; indices is "
                   "the transpose of edges with end positions strictly descending; completion_iff_loaded / completion_if_loaded: when "
                   "ExpandSearch walks the alphabet of a Load()ed prism (all characters of all spellings, digits / punctuation / upper case "
                   "included, spelling map or not) and stays below its limit of 512, that condition is exactly 'the remainder begins a "
                   "stored spelling with a normal or fuzzy reading', and then the whole input is interpreted. No bound on prism, input "
                   "or alphabet."),
    "level_note": ("Outside the theorems: that the hand-written model equals the C++ — tied by running the real "
                   "Prism::Build/Save/Load + Syllabifier on generated syllabaries with and without spelling algebra and "
                   "comparing the complete graph (lengths, vertices with types, every edge property incl. the exact double "
                   "credibility, indices in list order) with the compiled model for all inputs up to a length bound over "
                   "alphabet+delimiters x {completion, strict}, random longer inputs and inputs derived from the spellings, incl. prisms whose "
                   "spellings use characters outside a-z in every build mode x {Save+Load, Build only} and chains of 9-16 nested "
                   "spellings; which alphabet ExpandSearch walks is part of the model (searchAlphabet: stored alphabet for a loaded prism, "
                   "a-z for an object that only ran Build — format_ stays 0.0 there), the harness passes only the spec's own load flag "
                   "and the stored alphabet is compared; the monitor checks BOTH directions of the completion clause with plain string "
                   "tests; darts-clone / the prism file "
                   "(the model takes the prism as the table its accessor enumerates, C09 covers the prism itself); the "
                   "corrector (off by default, not modelled); pointer identity of indices entries (monitored in the harness). "
                   "Reading of the property fixed in DESIGN §3 C08: pruning may drop abbreviation-typed syllables when a "
                   "better path exists; with strict_spelling a non-normal spelling may not span the whole input alone; "
                   "delimiter skipping is greedy."),
    "design_ref": "DESIGN.md §3 C08",
}

SRC_FILES = ["src/rime/algo/syllabifier.cc", "src/rime/algo/syllabifier.h", "src/rime/algo/spelling.h",
             "src/rime/dict/prism.cc", "src/rime/dict/prism.h", "src/rime/algo/algebra.cc", "src/rime/algo/calculus.cc"]
GENERATOR_VERSION = 3


def hx(s):
    if isinstance(s, str):
        s = s.encode("latin-1")
    return s.hex() if s else "-"


def unhx(h):
    return b"" if h == "-" else bytes.fromhex(h)


# ----------------------------------------------------------------------------- generator
FORMULAS = [
    "abbrev/^([{L}]).+$/$1/", "abbrev/^([{L}][{L}]).+$/$1/", "fuzz/^{x}/{y}/", "fuzz/{x}$/{y}/", "fuzz/{x}{y}/{y}{x}/",
    "derive/{x}{y}/{y}/", "derive/^{x}//", "derive/{x}$/{y}/", "xform/{x}$/{y}/", "erase/^{x}{y}$/",
    "derive/^(.)(.)/$1'$2/", "derive/^(.+)$/$1'/", "xlit/{x}{y}/{y}{x}/", "abbrev/^(.).*(.)$/$1$2/",
]


def gen_syllabary(rng, letters, n):
    syls = set()
    guard = 0
    while len(syls) < n and guard < 200:
        guard += 1
        r = rng.random()
        pool = sorted(syls)
        if pool and r < 0.35:
            s = rng.choice(pool) + rng.choice(pool)
        elif pool and r < 0.55:
            s = rng.choice(pool) + rng.choice(letters)
        elif pool and r < 0.62:
            s = rng.choice(pool)[:-1]
        else:
            s = "".join(rng.choice(letters) for _ in range(rng.choice([1, 2, 2, 3, 3, 4])))
        if 1 <= len(s) <= 6:
            syls.add(s)
    return sorted(syls)


# letter pools beyond a-z (what real spellers use: tone digits, `;` `,` `.` `/` keys of double-pinyin layouts, upper case).
# REGEX_SAFE pools may be pasted into the formula templates; the others are used without spelling algebra only.
NONAZ_POOLS = {
    "digit": ["ab1", "a12", "ab12", "a1b"],
    "punct": ["ab;", "a;,", "ab_", "a;b"],
    "upper": ["aB", "abA", "AB", "ABc"],
    "mixed": ["a1;", "aA1", "A1;", "b2B"],
}
NONAZ_RAW_POOLS = ["a.b", "ab/", "a-b", "a[b", "a=1", "a b"]     # regex / formula-separator characters: no formulas


def gen_prism(rng, idx, letters=None, mode=None, load=None):
    """one prism spec: syllabary, algebra / explicit rows, build mode, delimiters.
    mode: None = random | 'plain' (Prism::Build without a script) | 'script' (identity script, maybe explicit rows) |
    'algebra' (formulas) | 'rows' (explicit typed rows).  load: None = random | True | False."""
    letters = letters or rng.choice(["abc", "abc", "abcd", "ab"])
    regex_safe = letters not in NONAZ_RAW_POOLS
    p = {"name": "g%d" % idx, "letters": letters, "syls": gen_syllabary(rng, letters, rng.randint(2, 8)),
         "formulas": [], "rows": [], "mode": "script", "load": (rng.random() < 0.8) if load is None else load}
    kind = rng.random()
    if mode == "plain":
        kind = 0.0
    elif mode == "algebra":
        kind = 0.5
    elif mode in ("script", "rows"):
        kind = 0.9
    if kind >= 0.2 and kind < 0.75 and not regex_safe:
        kind = 0.9
    want_rows = mode == "rows" or (mode is None and (kind >= 0.75 or rng.random() < 0.35)) or (mode == "script" and rng.random() < 0.5)
    if kind < 0.2:
        p["mode"] = "plain"
    elif kind < 0.75:
        for _ in range(rng.randint(1, 3)):
            x, y = rng.sample(list(letters), 2)
            p["formulas"].append(rng.choice(FORMULAS).replace("{L}", letters).replace("{x}", x).replace("{y}", y))
    if p["mode"] == "script" and want_rows:
        for _ in range(rng.randint(1, 5)):
            r = rng.random()
            if r < 0.4:
                key = rng.choice(p["syls"])
            elif r < 0.7:
                key = rng.choice(p["syls"])[:rng.randint(1, 2)]
            elif r < 0.85:
                key = rng.choice(p["syls"]) + "'" + (rng.choice(letters) if rng.random() < 0.5 else "")
            else:
                key = "".join(rng.choice(letters) for _ in range(rng.randint(1, 4)))
            if rng.random() < 0.06:
                descs = []
            else:
                ss = rng.sample(p["syls"], min(len(p["syls"]), rng.randint(1, 3)))
                descs = [(s, rng.choice([0, 0, 1, 2, 2]), rng.randint(0, 3)) for s in ss]
            p["rows"].append((key, descs))
    r = rng.random()
    p["delims"] = "'" if r < 0.6 else " '" if r < 0.8 else "'" + rng.choice(letters) if r < 0.92 else ""
    return p


def gen_chain_prism(rng, idx, letters, depth, style):
    """deep nesting: EVERY prefix of one code of `depth` letters is itself a stored spelling, so `depth` spellings match
    at one input position (Prism::CommonPrefixSearch returns them all; pinyin reaches 6: z zh zhu zhua zhuan zhuang).
    style 'plain' / 'script': all prefixes are syllables of their own; 'abbrev': the prefixes are rows that abbreviate /
    fuzzily spell the longer codes (incremental abbreviation), the full code and a few prefixes stay normal."""
    w = "".join(rng.choice(letters) for _ in range(depth))
    prefixes = [w[:i] for i in range(1, depth + 1)]
    extra = set()
    for _ in range(rng.randint(0, 3)):
        r = rng.random()
        if r < 0.4:
            extra.add(w[rng.randrange(1, depth):][:rng.randint(1, 4)])        # a piece from the middle
        elif r < 0.7:
            extra.add(rng.choice(prefixes)[:rng.randint(1, 6)] + rng.choice(letters))   # a branch off the chain
        else:
            extra.add("".join(rng.choice(letters) for _ in range(rng.randint(1, 3))))
    p = {"name": "chain%d" % idx, "letters": letters, "formulas": [], "rows": [], "mode": "plain" if style == "plain" else "script",
         "load": rng.random() < 0.8, "chain": w}
    if style in ("plain", "script"):
        p["syls"] = sorted(set(prefixes) | extra)
    else:
        full = [x for x in prefixes if len(x) == depth or rng.random() < 0.25]
        p["syls"] = sorted(set(full) | extra)
        for x in prefixes:
            if x in full:
                continue
            longer = [y for y in full if y.startswith(x)]
            ss = rng.sample(longer, min(len(longer), rng.randint(1, 2)))
            p["rows"].append((x, [(y, rng.choice([1, 2, 2]), rng.randint(1, 2)) for y in ss]))
    r = rng.random()
    p["delims"] = "'" if r < 0.7 else " '" if r < 0.85 else ""
    return p


def gen_wide_prism(rng, idx, n_under):
    """more spellings below one letter than ExpandSearch's limit of 512 lets through: `n_under` four-letter spellings that all
    begin with the same letter (511, 512, 513, ... of them), next to a few short ones; the completion edge of the input made of
    that one letter carries the syllables of the first 512 in breadth-first order and no others.  Some of the spellings are
    abbreviations only (they use up the limit and add nothing to the edge)."""
    letters = rng.choice(["abcdefghi", "abcdefghij", "bcdefghia"])
    a = letters[0]
    combos = [a + x + y + z for x in letters for y in letters for z in letters]
    if rng.random() < 0.5:
        rng.shuffle(combos)
    under = sorted(combos[:n_under])
    other = sorted({rng.choice(letters[1:]) + rng.choice(letters) for _ in range(rng.randint(0, 3))})
    mode = rng.choice(["plain", "script", "script"])
    p = {"name": "wide%d" % idx, "letters": letters, "syls": sorted(set(under + other)), "formulas": [], "rows": [], "mode": mode,
         "load": True, "delims": "'"}
    if mode == "script":
        for k in rng.sample(under, 40):
            # a typed row on a key that is also a syllable: its own normal reading stays, an abbreviated one of another syllable joins
            p["rows"].append((k, [(rng.choice(under), rng.choice([1, 2]), 1)]))
        for _ in range(rng.randint(0, 3)):
            p["rows"].append((a + rng.choice(letters), [(rng.choice(under), 2, 1)]))      # two-letter abbreviations below the letter
    last = under[-1]
    p["inputs"] = [a, a + letters[1], a + letters[-1], last[:2], last[:3], last, last + a, under[0], under[0][:3], letters[1], a + "'", a + a + a + a + a]
    return p


def key_inputs(rng, keys, letters, delims, cap):
    """inputs derived from the stored spellings themselves: each spelling, each spelling cut short / extended by a letter /
    followed by a delimiter, pairs of spellings; a sample of at most `cap`"""
    dl = delims or "'"
    res = []
    ks = [k for k in keys if k]
    for k in ks:
        res += [k, k[:-1], k + rng.choice(letters), k + dl[0], k + rng.choice(ks), rng.choice(ks) + k,
                rng.choice(ks) + dl[0] + k]
    res = [x for x in dict.fromkeys(res) if x]
    if len(res) > cap:
        res = rng.sample(res, cap)
    return res


def spec_lines(p):
    out = ["prism"]
    out += ["syl " + hx(s) for s in p["syls"]]
    out += ["formula " + hx(f) for f in p["formulas"]]
    for key, descs in p["rows"]:
        out.append("row %s %s" % (hx(key), ",".join("%s:%d:%d" % (hx(s), t, k) for s, t, k in descs) or "-"))
    out.append("build %s %s" % (p["mode"], "load" if p["load"] else "noload"))
    return out


def random_inputs(rng, keys, letters, delims, count, lo, hi):
    res = []
    dl = delims or "'"
    for _ in range(count):
        s = ""
        target = rng.randint(lo, hi)
        while len(s) < target:
            r = rng.random()
            if keys and r < 0.7:
                s += rng.choice(keys)
            elif r < 0.85:
                s += rng.choice(dl) * rng.randint(1, 2)
            else:
                s += rng.choice(letters)
        res.append(s[:hi])
    return res


# ----------------------------------------------------------------------------- parsing harness / driver lines
AZ = frozenset(b"abcdefghijklmnopqrstuvwxyz")
EXPAND_LIMIT = 512


class Table:
    def __init__(self, loaded):
        self.loaded = loaded    # the prism object was Load()ed from its saved file (else: Build() only)
        self.rows = []          # (key bytes, [(syl, type, cred16)])
        self.stored_alphabet = None   # what the object's metadata holds (harness `A` line)

    def expandable(self, rem):
        """spellings Prism::ExpandSearch reaches below `rem`: every step of the walk below `rem` takes a character of the
        alphabet in use — all characters of all spellings for a loaded prism, a-z for an object that was only built
        (format_ stays 0.0).  Independent of the model: plain string tests."""
        if self.loaded:
            return [(k, ds) for k, ds in self.rows if k.startswith(rem)]
        return [(k, ds) for k, ds in self.rows if k.startswith(rem) and all(ch in AZ for ch in k[len(rem):])]

    def add(self, key, descs):
        self.rows.append((key, descs))


def parse_K(line):
    _, k, ds = line.split(" ")
    descs = []
    if ds != "-":
        for d in ds.split(","):
            a, b, c = d.split(":")
            descs.append((int(a), int(b), c))
    return unhx(k), descs


def parse_G(g):
    """-> dict(ret, il, inl, V{pos:type}, Eitems[list of tuples], E{(s,e):{syl:(type,corr,cred)}}, starts, I[list str], px)"""
    f = dict(t.split("=", 1) for t in g.split(" "))
    r = {"ret": int(f["ret"]), "il": int(f["il"]), "inl": int(f["in"]), "px": f.get("px", "1")}
    r["V"] = {} if f["V"] == "-" else {int(a): int(b) for a, b in (x.split(":") for x in f["V"].split(","))}
    E, starts, empties = {}, [], []
    if f["E"] != "-":
        for it in f["E"].split(","):
            p = it.split(">")
            s = int(p[0])
            if s not in starts:
                starts.append(s)
            if len(p) == 1:
                continue
            e = int(p[1])
            if len(p) == 2:
                empties.append((s, e))
                continue
            syl, t, corr, cred = p[2].split(":")
            E.setdefault((s, e), {})[int(syl)] = (int(t), int(corr), cred)
    r["E"], r["starts"], r["empty_ends"] = E, starts, empties
    r["I"] = [] if f["I"] == "-" else f["I"].split(",")
    return r


# ----------------------------------------------------------------------------- O: independent reference for S1–S5
def oracle(tab, delims, comp, strict, inp, g, feats=None):
    """Evaluate S1–S5 (DESIGN §3 C08) on one graph produced by the implementation.  Returns [(clause, detail)];
    `feats` (a set) receives what the case exercised (pruned edges / types, strict drops)."""
    n = len(inp)
    bad = []
    if feats is None:
        feats = set()
    if g["inl"] != (n if n else 0) or g["ret"] != g["il"]:
        bad.append(("lengths", "input_length/ret inconsistent"))
    if n == 0:
        if g["il"] or g["V"] or g["starts"] or g["I"]:
            bad.append(("empty-input", "graph not empty"))
        return bad
    out = [dict() for _ in range(n + 1)]          # out[s][e] = [(key, descs)]
    for s in range(n):
        for key, descs in tab.rows:
            if key and inp.startswith(key, s):
                e = s + len(key)
                while e < n and inp[e] in delims:
                    e += 1
                out[s].setdefault(e, []).append((key, descs))

    def admitted(s, e, t):
        return not (strict and s == 0 and e == n and t != 0)

    reach = {0}
    for s in range(n):
        if s in reach:
            for e, kds in out[s].items():
                if any(admitted(s, e, d[1]) for _, ds in kds for d in ds):
                    reach.add(e)
            if sum(len(kds) for kds in out[s].values()) > 8:
                feats.add("nested-matches>8")
    F = max(reach)
    il = g["il"]
    for s in reach:
        if s < n:
            for e, kds in out[s].items():
                if (s, e) not in g["E"]:
                    feats.add("strict-dropped-edge" if not any(admitted(s, e, d[1]) for _, ds in kds for d in ds) else "pruned-edge")
                elif any(d[0] not in g["E"][(s, e)] for _, ds in kds for d in ds):
                    feats.add("pruned-syllable")
    rem = inp[F:]
    compl_keys = [(k, ds) for k, ds in tab.rows if k.startswith(rem)] if F < n else []
    # S3
    if il != F:
        if not (il == n and comp and F < n and any(d[1] < 2 for _, ds in compl_keys for d in ds)):
            bad.append(("S3", "interpreted_length %d, farthest tileable %d" % (il, F)))
    elif comp and F < n:
        # the other direction: completion is on and the expand search below the remainder reaches a spelling with a
        # normal or fuzzy reading -> the whole input is interpreted (limit 512 never reached by these prisms)
        reach_keys = tab.expandable(rem)
        if len(reach_keys) > EXPAND_LIMIT:
            feats.add("expand-limit-reached")
        else:
            hit = next((k for k, ds in reach_keys if any(d[1] < 2 for d in ds)), None)
            if hit is not None:
                bad.append(("S3", "completion is enabled and the remainder %r begins the spelling %r (%s prism), yet the "
                            "interpreted length stays at the tiled prefix %d of %d" %
                            (rem.decode("latin-1"), hit.decode("latin-1"), "loaded" if tab.loaded else "built-only", F, n)))
        if compl_keys and not reach_keys:
            feats.add("completion-blocked-by-default-alphabet")
    E = g["E"]
    # S1 soundness of every syllable on every edge
    for (s, e), sm in E.items():
        for syl, (t, corr, cred) in sm.items():
            ok = any(d[0] == syl and d[1] == t and admitted(s, e, t) for _, ds in out[s].get(e, []) for d in ds) if s < n else False
            if not ok and comp and t == 3 and e == n and il == n and s < n:
                ok = any(d[0] == syl and d[1] < 2 for k, ds in tab.rows if k.startswith(inp[s:]) for d in ds)
            if not ok:
                bad.append(("S1", "edge [%d,%d) syllable %d type %d is not a stored reading of the spanned text" % (s, e, syl, t)))
        # S1 completeness: normal and fuzzy syllables of every spanning spelling are on the edge
        for key, ds in out[s].get(e, []) if s < n else []:
            for d in ds:
                if d[1] <= 1 and admitted(s, e, d[1]) and not (d[0] in sm and sm[d[0]][0] <= d[1]):
                    bad.append(("S1", "edge [%d,%d) lacks syllable %d (type %d) of spelling %s" % (s, e, d[0], d[1], key.hex())))
    for (s, e) in g["empty_ends"]:
        bad.append(("S1", "end vertex %d of %d has no spelling" % (e, s)))
    # S2
    succ, pred = {}, {}
    for (s, e) in E:
        succ.setdefault(s, []).append(e)
        pred.setdefault(e, []).append(s)

    def closure(start, rel):
        seen, todo = {start}, [start]
        while todo:
            x = todo.pop()
            for y in rel.get(x, []):
                if y not in seen:
                    seen.add(y)
                    todo.append(y)
        return seen
    fw, bw = closure(0, succ), closure(il, pred)
    for v in g["V"]:
        if v not in fw or v not in bw:
            bad.append(("S2", "vertex %d is not on a path 0 -> %d" % (v, il)))
    # S4
    nsucc, npred = {}, {}
    for s in range(n):
        for e, kds in out[s].items():
            if any(d[1] == 0 for _, ds in kds for d in ds):
                nsucc.setdefault(s, []).append(e)
                npred.setdefault(e, []).append(s)
    A, B = closure(0, nsucc), closure(il, npred)
    for s in sorted(A):
        if s >= n:
            continue
        for e, kds in out[s].items():
            if e in B:
                for key, ds in kds:
                    for d in ds:
                        if d[1] == 0 and not (d[0] in E.get((s, e), {}) and E[(s, e)][d[0]][0] == 0):
                            bad.append(("S4", "normal tiling step [%d,%d) %s -> syllable %d missing" % (s, e, key.hex(), d[0])))
    # S5
    exp = []
    for s in g["starts"]:
        ends = sorted((e for (a, e) in E if a == s), reverse=True)
        syls = sorted({y for e in ends for y in E[(s, e)]})
        if not syls:
            exp.append("%d" % s)
        for y in syls:
            for e in ends:
                if y in E[(s, e)]:
                    t, corr, cred = E[(s, e)][y]
                    exp.append("%d>%d>%d:%d:%d:%s" % (s, y, e, t, corr, cred))
    if exp != g["I"]:
        bad.append(("S5", "indices is not the transpose of edges (end positions descending)"))
    if g["px"] != "1":
        bad.append(("S5", "an indices pointer is not the address of its edge property"))
    return bad


def features(tab, g, inp, delims):
    fs = set()
    ne = sum(len(sm) for sm in g["E"].values())
    if len(g["E"]) >= 2:
        fs.add("multi-edge")
    if any(t == 4 for t in g["V"].values()):
        fs.add("ambiguous-joint")
    if any(x[0] == 3 for sm in g["E"].values() for x in sm.values()):
        fs.add("completion")
    if any(x[0] in (1, 2) for sm in g["E"].values() for x in sm.values()):
        fs.add("algebra-typed")
    if any(inp[e - 1] in delims for (s, e) in g["E"] if e >= 1 and e <= len(inp)):
        fs.add("delimiter")
    if 0 < g["il"] < len(inp):
        fs.add("partial")
    if ne:
        fs.add("edges")
    return fs


# ----------------------------------------------------------------------------- running one spec through both sides
class Runner:
    def __init__(self, c, check_model=False):
        self.c = c
        self.check_model = check_model      # also evaluate S1–S5 on the MODEL's graphs (when a proof obligation broke)
        self.model_viol = {}
        self.exe, self.bdir = vlib.build_harness("c08_harness", "san", ["c08_harness.cc"])
        rc, out = vlib.lake_build(["driver_c08"])
        if rc != 0:
            raise vlib.BuildError("driver_c08 does not build: " + out[-3000:])
        self.n = 0
        self.evaluations = 0
        self.nontrivial = set()
        self.feat = {}
        self.mismatches = []
        self.ofails = {}
        self.crashes = []
        self.samples = []
        self.prisms = 0
        self.prism_rows = 0
        self.prism_types = {}
        self.prism_how = {}
        self.nonaz_prisms = 0
        self.notes = []
        self.accessor_diffs = []

    def run_spec(self, name, lines, minimise=True):
        """lines: harness spec lines.  Returns (#queries)."""
        self.n += 1
        ws = os.path.join(self.c.work, "ws")
        os.makedirs(ws, exist_ok=True)
        sf = os.path.join(self.c.work, "spec_%d.txt" % self.n)
        with open(sf, "w") as f:
            f.write("\n".join(lines) + "\n")
        for attempt in range(4):
            rc, out = vlib.sh([self.exe, ws, sf], env=vlib.SAN_ENV, timeout=3000)
            if rc == 127 and "error while loading shared libraries" in out:
                # librime.so is being relinked by a concurrent build of the same flavour: wait for it (the
                # build takes the flavour lock) and run again — not an observation of the implementation
                self.exe, self.bdir = vlib.build_harness("c08_harness", "san", ["c08_harness.cc"])
                continue
            break
        else:
            raise vlib.BuildError("librime.so of the san flavour cannot be loaded: " + out[-500:])
        for fn in glob.glob(os.path.join(ws, "*.bin")):
            os.unlink(fn)
        os.unlink(sf)
        olines = out.split("\n")
        ops, expect = [], []          # driver op lines; expect[i] = G line (without px) or "ok"
        pend = None
        builds = [l.split(" ", 1)[1] for l in lines if l.startswith("build ")]     # how each prism of the spec came to be
        for l in olines:
            if l.startswith("P ") or l.startswith("K "):
                ops.append(l)
                expect.append("ok")
            elif l.startswith("A "):
                ops.append("A")
                expect.append(l[2:])
            elif l.startswith("Q "):
                pend = l
            elif l.startswith("G ") and pend is not None:
                ops.append(pend)
                expect.append(l[2:])
                pend = None
            elif l.startswith("KQ "):
                # the object's SpellingAccessor enumerates something else than the spelling table it was built from
                # (the K line before it): the graphs are judged against the table, this only explains them
                if len(self.accessor_diffs) < 20:
                    self.accessor_diffs.append({"spec": name, "table_row": ops[-1] if ops else None, "accessor": l})
            elif l.startswith("# error") or l.startswith("# build-failed"):
                self.notes.append("%s: %s" % (name, l))
        if rc != 0:
            self.crashes.append({"spec": name, "rc": rc, "log": out[-3000:], "last_op": pend or (ops[-1] if ops else None),
                                 "spec_lines": lines if len(lines) < 200 else lines[:200]})
        if not ops:
            return 0
        drv = vlib.run_driver("driver_c08", "\n".join(ops) + "\n").split("\n")
        tab, prism_ops, nq, how = None, [], 0, None
        for i, (op, ex) in enumerate(zip(ops, expect)):
            md = drv[i] if i < len(drv) else "<missing>"
            if op[0] == "P":
                tab = Table(op.split(" ")[1] == "1")
                prism_ops = [op]
                how = builds.pop(0) if builds else None
                if how is not None and (how.split(" ")[1] == "load") != tab.loaded:
                    self.notes.append("%s: P line %r does not echo the spec's build line %r" % (name, op, how))
                self.prisms += 1
                self.prism_how[how] = self.prism_how.get(how, 0) + 1
                continue
            if op == "A":
                tab.stored_alphabet = unhx(ex)
                if any(x not in AZ for x in tab.stored_alphabet):
                    self.nonaz_prisms += 1
                want = bytes(sorted({x for k, _ in tab.rows for x in k}, key=lambda x: (x + 128) % 256))
                if tab.stored_alphabet != want:      # O: the stored alphabet is the set of characters of the spellings
                    self.ofails.setdefault("alphabet", {"spec": name, "prism": list(prism_ops), "op": op, "impl": ex, "build": how,
                                                        "detail": "the prism's metadata alphabet %r is not the set of characters of its spellings %r" % (tab.stored_alphabet, want)})
                if ex != md and len(self.mismatches) < 50:
                    self.mismatches.append({"spec": name, "prism": list(prism_ops), "op": op, "impl": ex, "model": md, "build": how})
                continue
            if op[0] == "K":
                k, ds = parse_K(op)
                tab.add(k, ds)
                prism_ops.append(op)
                self.prism_rows += 1
                for d in ds:
                    self.prism_types[d[1]] = self.prism_types.get(d[1], 0) + 1
                continue
            nq += 1
            self.evaluations += 1
            _, dl, cc, ss, ih = op.split(" ")
            delims, comp, strict, inp = unhx(dl), cc == "1", ss == "1", unhx(ih)
            impl = ex.rsplit(" px=", 1)[0]
            if impl != md:
                if len(self.mismatches) < 50:
                    self.mismatches.append({"spec": name, "prism": list(prism_ops), "op": op, "impl": impl, "model": md, "build": how})
            if self.check_model and impl != md or self.check_model and nq % 7 == 0:
                try:
                    for clause, detail in oracle(tab, delims, comp, strict, inp, parse_G(md + " px=1")):
                        self.model_viol.setdefault(clause, {"prism": list(prism_ops), "op": op, "model": md, "impl": impl, "detail": detail})
                except Exception:
                    pass
            try:
                g = parse_G(ex)
            except Exception as e:       # unparseable observation
                self.ofails.setdefault("format", {"spec": name, "prism": list(prism_ops), "op": op, "impl": ex, "detail": str(e)})
                continue
            fs = set()
            bad = oracle(tab, delims, comp, strict, inp, g, fs)
            for clause, detail in bad:
                cur = self.ofails.get(clause)
                if cur is None or len(inp) < len(unhx(cur["op"].split(" ")[4])):
                    self.ofails[clause] = {"spec": name, "prism": list(prism_ops), "op": op, "impl": ex, "detail": detail,
                                           "input": inp.decode("latin-1"), "build": how}
            fs |= features(tab, g, inp, delims)
            for x in fs:
                self.feat[x] = self.feat.get(x, 0) + 1
            if fs & {"multi-edge", "completion", "ambiguous-joint", "pruned-edge", "pruned-syllable", "strict-dropped-edge",
                     "completion-blocked-by-default-alphabet"}:
                self.nontrivial.add((self.prisms, op))
                if len(self.samples) < 6 and (self.evaluations % 97 == 0 or not self.samples):
                    self.samples.append({"prism": [x for x in prism_ops], "op": op, "impl": ex})
        return nq


def prism_spec_from_ops(prism_ops):
    """a harness spec that rebuilds the prism a replay recorded (explicit rows, syllables named by id)"""
    rows = [parse_K(l) for l in prism_ops if l.startswith("K ")]
    nsyl = 1 + max([d[0] for _, ds in rows for d in ds] + [0])
    width = len(str(nsyl))
    name = lambda i: ("s%0*d" % (width, i)).encode()     # sorted order = id order
    lines = ["prism"] + ["syl " + hx(name(i)) for i in range(nsyl)]
    return lines, rows, name


# ----------------------------------------------------------------------------- the check
def corpus_specs():
    d = os.path.join(vlib.CORPUS, "C08")
    res = []
    for fn in sorted(glob.glob(os.path.join(d, "*.spec"))):
        res.append((os.path.basename(fn), [l.rstrip("\n") for l in open(fn) if l.strip() and not l.startswith("#")]))
    return res


def run(c):
    quick = c.tier == "quick"
    audit = vlib.lean_audit("C08")
    if not quick and audit["ok"]:
        ok, log = vlib.leanchecker("RimeModel.Props.C08")
        if not ok:
            audit["ok"] = False
            audit["failures"].append(("RimeModel.Props.C08", "leanchecker: " + log))
    R = Runner(c, check_model=not audit["ok"])
    rng = c.rng
    # corpus first
    for name, lines in corpus_specs():
        R.run_spec("corpus/" + name, lines)
    # generated prisms: (prism spec, maxlen of the exhaustive enumeration, #random inputs, random length range)
    jobs = []
    if quick:
        plan = [("abc", 6)] * 2 + [("abc", 5)] * 3 + [("abcd", 5)] * 2 + [("abcd", 4)] * 4 + [("ab", 7)] + [(None, 4)] * 10
        nrand, rlo, rhi = 60, 7, 14
        grid_len, grid_raw, chains = 4, 2, [9, 10, 12]
        wides = [511, 512, 513, 700]
    else:
        plan = ([("abc", 8)] * 3 + [("abc", 7)] * 6 + [("abcd", 7)] * 2 + [("abcd", 6)] * 6 + [("ab", 10)] * 2
                + [(None, 5)] * 60)
        nrand, rlo, rhi = 400, 7, 20
        grid_len, grid_raw, chains = 5, 6, [9, 9, 10, 10, 11, 11, 12, 12, 13, 16]
        wides = [300, 510, 511, 512, 512, 513, 513, 514, 600, 729]
    idx = 0
    for letters, maxlen in plan:
        jobs.append((gen_prism(rng, idx, letters), maxlen, nrand, rlo, rhi))
        idx += 1
    # directed grid: spellings over characters OUTSIDE a-z (tone digits, punctuation keys, upper case) x how the prism is
    # made (no script / identity script + typed rows / spelling algebra) x {Save+Load, Build only}
    for cls in sorted(NONAZ_POOLS):
        for mode in ("plain", "script", "algebra"):
            for load in (True, False):
                jobs.append((gen_prism(rng, idx, rng.choice(NONAZ_POOLS[cls]), mode=mode, load=load), grid_len, nrand // 2, 5, 12))
                idx += 1
    for _ in range(grid_raw):
        jobs.append((gen_prism(rng, idx, rng.choice(NONAZ_RAW_POOLS), mode=rng.choice(["plain", "rows"]), load=rng.random() < 0.7),
                     grid_len, nrand // 2, 5, 12))
        idx += 1
    # deep nesting: 9-16 spellings matching at one position
    for depth in chains:
        letters = rng.choice(["a", "ab", "ab", "abc", "a1", "aB;"])
        jobs.append((gen_chain_prism(rng, idx, letters, depth, rng.choice(["plain", "plain", "script", "abbrev"])),
                     3 if len(letters) > 1 else 5, nrand, depth, 2 * depth + 4))
        idx += 1
    # more spellings under one letter than the expand search lets through (limit 512)
    for n_under in wides:
        jobs.append((gen_wide_prism(rng, idx, n_under), 1, 0, 1, 2))
        idx += 1
    maxlens = set()
    for p, maxlen, nr, lo, hi in jobs:
        lines = spec_lines(p)
        symbols = p["letters"] + ("" if "'" in p["letters"] else "'")
        if " " in p["delims"] and " " not in symbols and maxlen <= 5 and rng.random() < 0.5:
            symbols += " "
        lines.append("qall %s %s %d" % (hx(p["delims"]), hx(symbols), maxlen))
        maxlens.add(maxlen)
        keys = list(p["syls"]) + [k for k, _ in p["rows"]]
        more = key_inputs(rng, keys, p["letters"], p["delims"], 40 if quick else 200)
        more += random_inputs(rng, keys, p["letters"], p["delims"], nr, lo, hi)
        more += p.get("inputs", [])
        if p.get("chain"):
            w, dl = p["chain"], (p["delims"] or "'")
            more += [w, w + w, w + dl[0] + w, w[1:] + w, w[:-1] + w, w + w[:len(w) // 2]]
        for s in dict.fromkeys(more):
            for cc in (0, 1):
                for ss in (0, 1):
                    lines.append("q %s %d %d %s" % (hx(p["delims"]), cc, ss, hx(s)))
        R.run_spec(p["name"] + ":" + json.dumps({k: p[k] for k in ("syls", "formulas", "rows", "mode", "load", "delims")}), lines)
    # ------------------------------------------------------------------ verdicts
    for clause, case in sorted(R.ofails.items()):
        f = case["op"].split(" ")
        c.report("C08:%s" % clause, "%s: %s (input %r, flags completion=%s strict=%s, prism made by `build %s`)" %
                 (clause, case["detail"], case.get("input"), f[2] if len(f) > 3 else "-", f[3] if len(f) > 3 else "-", case.get("build")),
                 {"kind": "impl-violation", "case": case, "accessor_differs_from_table": R.accessor_diffs[:5]})
    for cr in R.crashes[:1]:
        c.report("C08:sanitizer", "sanitizer abort / crash of the syllabifier harness (rc=%s)" % cr["rc"], {"kind": "sanitizer", "case": cr})
    if R.mismatches and not R.ofails:
        m = min(R.mismatches, key=lambda m: len(m["op"]))
        c.report("C08:correspondence", "model and implementation disagree on %d+ graphs, e.g. %s" % (len(R.mismatches), m["op"]),
                 {"kind": "correspondence", "broken": "correspondence driver_c08 vs c08_harness", "case": m,
                  "more": R.mismatches[:5]}, no_input=True)
    if not audit["ok"] and not R.ofails:
        c.report("C08:proof", "proof obligation no longer checks: %s" % "; ".join("%s: %s" % f for f in audit["failures"])[:600],
                 {"kind": "proof", "broken_theorems": audit["failures"], "lean_log": audit["log"][-3000:],
                  "model_violations_found": list(R.model_viol.values())[:5]}, no_input=True)
    bad_types = sorted(t for t in R.prism_types if t > 5)
    if bad_types and not R.ofails:
        c.report("C08:prism-types", "a real prism stores spelling types %s outside the SpellingType enum (hypothesis of "
                 "vertices_on_path)" % bad_types, {"kind": "assumption", "broken": "PrismTypesOK on generated prisms"}, no_input=True)
    if R.evaluations == 0:
        c.report("C08:no-run", "the harness produced no graph", {"kind": "correspondence", "broken": "harness run", "notes": R.notes[:10]},
                 no_input=True)
    cov = vlib.proof_cov(audit, "lake build RimeModel.Props.C08 && #print axioms (all theorems) && forbidden-token scan"
                         + ("" if quick else " && leanchecker RimeModel.Props.C08"),
                         vlib.STD_TRUSTED + ["darts-clone double array / prism file format (the model takes the prism as the table its "
                                             "SpellingAccessor enumerates)", "boost::regex in the spelling algebra (only used to produce test prisms)",
                                             "IEEE-754 double addition (credibility penalties are replayed by the driver)"])
    cov.update({
        "evaluations": R.evaluations, "distinct_nontrivial": len(R.nontrivial),
        "rule": ("generated syllabaries over 2-4 letters (concatenations of other spellings, prefixes, dead ends) built into REAL prisms "
                 "(plain / script / spelling algebra formulas / explicit typed rows incl. delimiter bytes inside spellings and empty "
                 "descriptor lists; Save+Load or Build only), every input over letters+delimiter up to length %s x {completion} x {strict} "
                 "(harness-enumerated) plus %d random longer inputs per prism and inputs derived from the spellings (each spelling, cut "
                 "short, extended, pairs); a directed grid of prisms whose spellings use characters outside a-z (digits, punctuation, "
                 "upper case, regex/separator characters) x {no script, identity script + typed rows, spelling algebra} x {Save+Load, "
                 "Build only}; chains where every prefix of a 9-16 letter code is a spelling (9+ matches at one position); corpus first. "
                 "non-trivial = the graph has >= 2 edges, a completion edge or an ambiguous joint, or completion is blocked by the "
                 "a-z default alphabet of a built-only prism; distinct by (prism, flags, input)") % (sorted(maxlens), nrand),
        "samples": R.samples, "prisms": R.prisms, "prisms_by_build": R.prism_how, "prisms_with_non_az_alphabet": R.nonaz_prisms, "prism_spellings": R.prism_rows, "descriptor_types": R.prism_types,
        "feature_counts": R.feat, "correspondence_mismatches": len(R.mismatches), "impl_monitor_failures": len(R.ofails),
        "sanitizer_aborts": len(R.crashes), "harness_notes": R.notes[:10], "spelling_accessor_rows_differing_from_the_table": len(R.accessor_diffs), "generator_version": GENERATOR_VERSION,
        "source_hash": vlib.source_hash(SRC_FILES), "proof_failures": audit["failures"],
    })
    c.cov = cov
    c.assumptions = ["corrector disabled (Syllabifier::EnableCorrection not called: the default)",
                     "the graph passed in is fresh", "spelling types stored in the prism are <= kInvalidSpelling (real prisms hold 0..2)",
                     "where ExpandSearch's limit of 512 cuts the completion (the wide prisms) the edge is compared with the model's limited "
                     "breadth-first search; the monitor's 'remainder begins a spelling => completed' direction is evaluated below the limit"]


def replay(c, r):
    case = r.get("case")
    if not case or "op" not in case or "prism" not in case:
        print("replay: this file names a broken obligation, no concrete input:", r.get("what"))
        return 1
    R = Runner(c)
    how = (case.get("build") or "script load").split(" ")
    lines, rows, name = prism_spec_from_ops(case["prism"])
    if how[0] == "plain":
        # a prism without a spelling map: the spellings ARE the syllabary (id order = sorted order)
        lines = ["prism"] + ["syl " + hx(key) for key, _ in rows]
    else:
        for key, ds in rows:
            lines.append("row %s %s" % (hx(key), ",".join("%s:%d:x%s" % (hx(name(d[0])), d[1], d[2]) for d in ds) or "-"))
    lines.append("build %s %s" % ("plain" if how[0] == "plain" else "rows", how[1] if len(how) > 1 else "load"))
    if case["op"] == "A":
        R.run_spec("replay", lines)
        for clause, cs in sorted(R.ofails.items()):
            print("replay A -> %s: %s" % (clause, cs["detail"]))
        return 1 if (R.ofails or R.mismatches or R.crashes) else 0
    _, dl, cc, ss, ih = case["op"].split(" ")
    lines.append("q %s %s %s %s" % (dl, cc, ss, ih))
    R.run_spec("replay", lines)
    for clause, cs in sorted(R.ofails.items()):
        print("replay %s -> %s: %s\n  impl %s" % (case["op"], clause, cs["detail"], cs["impl"]))
    for m in R.mismatches:
        print("replay %s -> model/impl differ\n  impl  %s\n  model %s" % (m["op"], m["impl"], m["model"]))
    if not R.ofails and not R.mismatches and not R.crashes:
        print("replay %s -> ok" % case["op"])
        return 0
    return 1
