"""C09 — spelling algebra and the prism preserve the spelling-to-syllable relation."""
import os, sys, json, re, glob, hashlib
import vlib

META = {
    "technique": ("Lean 4 theorems over an executable model of Script::Merge / Projection::Apply (rules abstract), of the prism as a "
                  "sorted key table and of the DictCompiler::BuildPrism glue + differential run of the real Projection (boost::regex), "
                  "Prism::Build/Save/Load/searches and DictCompiler::Compile against the model under ASan/UBSan, with the recorded "
                  "regex outcomes as the abstract rules — except `erase`, whose whole-string regex_match the model computes itself on "
                  "a fragment of the regex syntax; the recorded outcomes of all six kinds are also checked against an independent "
                  "reference matcher (match for erase, search for the transformations)"),
    "level": "proof",
    "level_text": ("Theorems in RimeModel/Props/C09.lean, for EVERY syllabary, EVERY list of rules (a rule = one of the six kinds "
                   "+ an arbitrary function spelling -> not-applied | applied(result) | threw, so all regular expressions) and EVERY "
                   "query string / limit: script_values_in_syllabary (every spelling of Projection.apply's result has a non-empty list "
                   "of syllables, all in the syllabary, none twice, keys strictly sorted, no tips); nondeleting_monotone(_rules) (derive/"
                   "fuzz/abbrev keep every spelling and every syllable under it); own_name_round / own_name_law (a syllable no longer "
                   "spelled by itself => a deleting rule xlit/xform/erase applied to it); erase_own_name_round / erase_literal_exact (for erase "
                   "with a pattern of the modelled regex fragment the pattern matches the lost syllable AS A WHOLE; a literal pattern erases "
                   "that spelling and no spelling merely containing it); type_is_min / cred_is_max / merge_frame (after "
                   "Script.merge the properties of a syllable are the minimum type / maximum credibility over the old element and all "
                   "merged candidates, attained; nothing else changes); load_build_id, prism_roundtrip, algebra_prism_roundtrip "
                   "(load(save(build)) has exactly the spellings as keys and gives back exactly the syllables with the same type and "
                   "credibility); getValue_iff_key; cps_exact (all and only keys that are prefixes of the query, by increasing length); "
                   "expand_exact (all and only keys having the query as prefix, strictly ordered by (length, char order) = breadth-first "
                   "order, cut to the first `limit`); expand_limit_monotone; compile_uses_table / compile_keys_eq_table / "
                   "compile_unmodified_is_table / compile_empty_table_fails (the DictCompiler glue compiles exactly the table, the "
                   "identity table when nothing matched, and refuses an empty table)."),
    "level_note": ("Outside the theorems: that the hand-written model equals the C++ (tied by the differential run: every round's "
                   "script, the whole Projection::Apply, Script::Merge with arbitrary properties, Build+Save+Load, the real "
                   "DictCompiler::Compile on generated dict/schema files, and GetValue/HasKey/CommonPrefixSearch/ExpandSearch/"
                   "QuerySpelling on all keys, all proper prefixes and random strings); boost::regex and the xlit code-point map (their "
                   "outcomes are recorded per rule and spelling and handed to the model as the abstract rule; for erase patterns inside the "
                   "fragment of RimeModel/C09/Regex.lean — literals, ., [..], groups, |, one of * + ?, ^, $ — the model computes the outcome "
                   "itself and the recorded one must agree; every recorded outcome with an ASCII pattern of that fragment is also compared "
                   "with Python's re: fullmatch for erase, search => applied for the transformations); darts-clone (the model "
                   "keeps the sorted key table it encodes); the mapped-file byte layout (abstracted to the fields Load reads; Build's "
                   "size estimate is not proved sufficient); double/float credibility arithmetic (mapped to the penalty count by exact "
                   "comparison with the iterated sum of the penalty constant learned from the real Fuzzing; a value outside that chain "
                   "is reported); memory safety (sanitizers only). Keys are non-empty NUL-free C strings; char is signed (x86-64) for "
                   "the stored alphabet order. Error path left as is: a calculation that throws makes Apply return false and "
                   "DictCompiler drop the whole algebra (identity prism)."),
    "design_ref": "DESIGN.md §3 C09",
}

SRC_FILES = ["src/rime/dict/dict_compiler.cc", "src/rime/algo/algebra.cc", "src/rime/algo/algebra.h", "src/rime/algo/calculus.cc", "src/rime/algo/calculus.h",
             "src/rime/algo/spelling.h", "src/rime/dict/prism.cc", "src/rime/dict/prism.h", "src/rime/dict/mapped_file.cc",
             "src/rime/dict/mapped_file.h"]
NONDELETING = ("derive", "fuzz", "abbrev")
DELETING = ("xlit", "xform", "erase")
GENERATOR_VERSION = 5


def hx(b):
    return b.hex() if b else "-"


def unhx(h):
    return b"" if h == "-" else bytes.fromhex(h)


# ----------------------------------------------------------------------------- generator
def gen_pattern(rng, letters, syls, outside):
    """-> (regex bytes, number of capture groups)"""
    L = [bytes([x]) for x in letters]
    r = rng.random()
    if r < 0.06:   # matches nothing
        return rng.choice([outside, rng.choice(L) + b"^" + rng.choice(L), b"$" + rng.choice(L)]), 0
    if r < 0.12:   # matches everything
        return rng.choice([b".*", b"^.*$", b".+", b"^(.*)$", b"(.)"]), rng.choice([0, 1])
    if r < 0.22:   # whole-string captures
        return rng.choice([(b"^(.)(.*)$", 2), (b"^(.*)(.)$", 2), (b"^(.)(.)", 2), (b"(.)$", 1), (b"^([" + b"".join(rng.sample(L, min(2, len(L)))) + b"])(.*)$", 2)])
    if r < 0.40 and syls:   # literal piece of a real syllable
        s = rng.choice(syls)
        i = rng.randrange(len(s))
        j = rng.randrange(i + 1, len(s) + 1)
        lit = s[i:j]
        pre = b"^" if (i == 0 and rng.random() < 0.6) else b""
        suf = b"$" if (j == len(s) and rng.random() < 0.6) else b""
        return pre + lit + suf, 0
    groups = 0
    out = b""
    for _ in range(rng.choice([1, 1, 2, 2, 3])):
        k = rng.random()
        if k < 0.35:
            atom = b"".join(rng.choice(L) for _ in range(rng.choice([1, 1, 2])))
            single = len(atom) == 1
        elif k < 0.55:
            atom = b"[" + b"".join(rng.sample(L, rng.randint(1, min(3, len(L))))) + b"]"
            single = True
        elif k < 0.63:
            atom = b"[^" + b"".join(rng.sample(L, rng.randint(1, min(2, len(L))))) + b"]"
            single = True
        elif k < 0.70:
            atom, single = b".", True
        elif k < 0.85:
            alts = [b"".join(rng.choice(L) for _ in range(rng.choice([1, 1, 2]))) for _ in range(rng.choice([2, 2, 3]))]
            atom, single = b"(" + b"|".join(alts) + b")", True
            groups += 1
        else:
            atom, single = b"([" + b"".join(rng.sample(L, rng.randint(1, min(3, len(L))))) + b"])", True
            groups += 1
        if single and rng.random() < 0.3:
            atom += rng.choice([b"+", b"?", b"*"])
        out += atom
    if rng.random() < 0.4:
        out = b"^" + out
    if rng.random() < 0.4:
        out = out + b"$"
    return out, groups


def gen_replacement(rng, letters, groups):
    L = [bytes([x]) for x in letters]
    r = rng.random()
    if r < 0.12:
        return b""
    if groups and r < 0.55:
        return rng.choice([b"$1", b"$2$1" if groups > 1 else b"$1$1", b"$1" + rng.choice(L), rng.choice(L) + b"$1", b"$2" if groups > 1 else b"$1"])
    if r < 0.65:
        return rng.choice([b"$&" + rng.choice(L), b"$&$&", b"$3"])
    return b"".join(rng.choice(L) for _ in range(rng.choice([1, 1, 2])))


def gen_formula(rng, letters, syls, outside, allow_xlit):
    sep = b"/" if rng.random() < 0.9 else rng.choice([b"|", b":", b" ", b"#"])
    r = rng.random()
    if r < 0.04:   # malformed
        # ASCII only: `xlit` decodes its arguments with utf8::unchecked, which on a truncated multi-byte sequence (a lone byte
        # >= 0x80 before the NUL) walks past the end of the string — behaviour that depends on stale memory, outside the property
        L = bytes([rng.choice([x for x in letters if x < 0x80] or [0x61])])
        return rng.choice([b"xform/" + L + b"/", b"bogus/" + L + b"/" + L + b"/", b"xform/(" + L + b"/" + L + b"/", b"xform//" + L + b"/",
                           b"derive", b"xlit/" + L + L + b"/" + L + b"/", b"erase//", b"erase", b"fuzz/[" + L + b"/" + L + b"/", b"Xform/a/b/"])
    kinds = ["xform", "derive", "fuzz", "abbrev", "erase"] + (["xlit"] if allow_xlit else [])
    kind = rng.choice(kinds)
    if kind == "xlit":
        n = rng.randint(1, min(4, len(letters)))
        src = rng.sample(letters, n)
        dst = [rng.choice(letters + [outside[0]]) for _ in range(n)]
        return sep.join([b"xlit", bytes(src), bytes(dst), b""])
    if kind == "erase":
        # Erasion matches the WHOLE spelling (regex_match): every anchoring of every shape is generated, so that patterns
        # which only occur INSIDE a spelling (where a search would hit) are as common as patterns that span it
        r2 = rng.random()
        anchor = rng.choice([(b"", b""), (b"^", b""), (b"", b"$"), (b"^", b"$")])
        if r2 < 0.35 and syls:
            s = rng.choice(syls)
            if rng.random() < 0.5:
                pat = s                                   # a whole syllable
            else:
                i = rng.randrange(len(s))
                pat = s[i:rng.randrange(i + 1, len(s) + 1)]   # a piece of one
            pat = anchor[0] + pat + anchor[1]
        elif r2 < 0.5:
            pat = rng.choice([b".*", b".+", b"^.*$", b".", b"..", b"^.", b".$", b"^..", b"..$", b"^.+", b".+$"])
        elif r2 < 0.75:
            x = bytes([rng.choice(letters)])
            pat = rng.choice([b"^" + x + b".*$", b"^.*" + x + b"$", b"^" + x, x + b"$", x, x + b".*", b".*" + x, b"^" + x + b".*", b".*" + x + b"$",
                              b"^.*" + x + b".*$", x + b"+", b"^" + x + b"+", b"[" + x + bytes([rng.choice(letters)]) + b"]+" + anchor[1]])
        else:
            pat = gen_pattern(rng, letters, syls, outside)[0]
        if sep in pat:
            sep = b"/"
        return sep.join([b"erase", pat, b""])
    pat, groups = gen_pattern(rng, letters, syls, outside)
    rep = gen_replacement(rng, letters, groups)
    if sep in pat or sep in rep:
        sep = b"/"
    tail = [b""] if rng.random() < 0.9 else []
    return sep.join([kind.encode(), pat, rep] + tail)


def gen_case(rng, cid):
    """one case = list of input op lines"""
    pool = list(b"abcdefghijklmnopqrstuvwxyz")
    n = rng.randint(3, 6)
    letters = rng.sample(pool, n)
    high = rng.random() < 0.15
    if high:
        for _ in range(rng.choice([1, 2])):
            letters[rng.randrange(n)] = rng.choice([0x80, 0xe9, 0xfc, 0xff, 0xc3, 0xa4])
        letters = list(dict.fromkeys(letters))
    elif rng.random() < 0.25:
        # ASCII outside a-z: tone digits, punctuation keys, upper case (none of them special in a regex)
        for _ in range(rng.choice([1, 1, 2])):
            letters[rng.randrange(n)] = rng.choice(list(b"12345;,_ABZ"))
        letters = list(dict.fromkeys(letters))
    outside = bytes([rng.choice([x for x in pool if x not in letters])])
    nsyl = rng.choice([1, 2, 3, 5, 8, 13, 21, 30, 40, rng.randint(1, 40)])
    maxl = rng.choice([2, 3, 4, 5])
    syls = []
    for _ in range(nsyl):
        syls.append(bytes(rng.choice(letters) for _ in range(rng.randint(1, maxl))))
    ops = ["case %d" % cid, "syl " + " ".join(hx(s) for s in syls)]
    kind = rng.random()
    if kind < 0.12:
        # Script::Merge driven directly: arbitrary types, penalties, tips, repeated syllables
        keys = sorted(set(syls))
        for _ in range(rng.randint(1, 8)):
            key = rng.choice(keys) if rng.random() < 0.6 else bytes(rng.choice(letters) for _ in range(rng.randint(1, 3)))
            keys.append(key)
            v = []
            for _ in range(rng.choice([0, 1, 1, 2, 3, 4])):
                s = rng.choice(syls)
                tips = b"" if rng.random() < 0.6 else bytes(rng.choice(letters) for _ in range(rng.randint(1, 6)))
                v.append("%s %d %d %s" % (hx(s), rng.randrange(6), -rng.choice([0, 0, 1, 2, 3, 5]), hx(tips)))
            sptips = b"" if rng.random() < 0.7 else bytes(rng.choice(letters) for _ in range(rng.randint(1, 6)))
            ops.append("merge %s %d %d %s %d%s" % (hx(key), rng.randrange(6), -rng.choice([0, 1]), hx(sptips), len(v),
                                                   "".join(" " + x for x in v)))
        ops.append("build")
    else:
        nrules = rng.choice([0, 1, 1, 2, 2, 3, 3, 4, 5, 6])
        for _ in range(nrules):
            ops.append("rule " + hx(gen_formula(rng, letters, sorted(set(syls)), outside, not high)))
        ops.append("apply")
        if not high and rng.random() < 0.3:
            ops.append("compile")      # the real DictCompiler on generated dict/schema files
            if rng.random() < 0.5:
                # the schema is edited (or not) and the same dictionary compiled again over the existing build, nothing forced:
                # the prism must follow the algebra as it is now
                ops.append("queries %d 3 6" % rng.randrange(1 << 30))
                for _ in range(rng.choice([0, 1, 1, 2])):
                    ops.append("rule " + hx(gen_formula(rng, letters, sorted(set(syls)), outside, True)))
                ops += ["apply", "compile again"]
        else:
            if rng.random() < 0.5:
                ops.append("glue")
            ops.append("build noscript" if rng.random() < 0.08 else "build")
    ops.append("queries %d %d %d" % (rng.randrange(1 << 30), rng.choice([5, 10, 20]), rng.choice([12, 25, 60])))
    if rng.random() < 0.12:
        fmt = rng.choice([b"Rime::Prism/0.9", b"Rime::Prism/1.0", b"Rime::Prism/2.0", b"Rime::Prosm/3.0", b"Rime::Prism/", b"", b"Rime::Prism/10.5"])
        ops.append("reload " + hx(fmt))
        ops += ["x - 0", "x - 3", "sp 0", "sp 1", "q " + hx(rng.choice(syls))]
    return ops


def gen_anchor_grid(rng, cid0):
    """directed family: one small syllabary whose syllables share pieces, and for each of erase / xform / derive one case per
    anchoring {none, ^ only, $ only, both} x {a whole syllable, a proper piece of one}: the whole-string semantics of erase
    (regex_match) and the anywhere semantics of the transformations (regex_replace) give different tables on these"""
    letters = rng.sample(list(b"abcdefghijklmnopqrstuvwxyz") + list(b"12;A"), rng.choice([2, 3, 3]))
    L = [bytes([x]) for x in letters]
    syls = sorted({b"".join(rng.choice(L) for _ in range(rng.randint(1, 3))) for _ in range(rng.choice([6, 9, 12]))})
    long_ = [s for s in syls if len(s) >= 2] or syls
    cases = []
    for kind in (b"erase", b"xform", b"derive"):
        for pre, suf in ((b"", b""), (b"^", b""), (b"", b"$"), (b"^", b"$")):
            for whole in (True, False):
                s = rng.choice(syls if whole else long_)
                if whole:
                    lit = s
                else:
                    i = rng.randrange(len(s))
                    lit = s[i:i + max(1, rng.randrange(1, len(s)))]
                pat = pre + lit + suf
                f = b"erase/" + pat + b"/" if kind == b"erase" else kind + b"/" + pat + b"/" + rng.choice(L + [b""]) + b"/"
                ops = ["case %d" % (cid0 + len(cases)), "syl " + " ".join(hx(x) for x in syls)]
                if rng.random() < 0.3:      # spellings that are not syllable names, for the rule to meet
                    ops.append("rule " + hx(b"derive/^(.)(.*)$/$2$1/"))
                ops += ["rule " + hx(f), "apply", "build", "queries %d 3 8" % rng.randrange(1 << 30)]
                cases.append(ops)
    return cases


def gen_penalty_chain(rng, cid):
    """directed family: a spelling reachable ONLY through a chain of 3-5 derivation steps, most of them penalised (fuzz /
    abbrev, mixed, the odd unpenalised derive): step i rewrites a piece of the previous result into a letter no other rule
    produces, so the deepest spelling needs every step and carries the accumulated credibility (3-5 x log 1/2); the
    intermediate spellings are reachable by fewer steps.  Controls: with some probability a last rule gives the deepest
    spelling a short route as well (derive straight from the syllable), and bystander syllables share pieces with the chain."""
    pool = list(b"abcdefghijklmnopqrstuvwxyz")
    rng.shuffle(pool)
    base, fresh = pool[:4], pool[4:12]
    L = [bytes([x]) for x in base]
    syl0 = b"".join(rng.choice(L) for _ in range(rng.randint(4, 7)))
    syls = {syl0}
    for _ in range(rng.randint(0, 4)):
        r = rng.random()
        if r < 0.4:
            syls.add(syl0[:rng.randint(1, len(syl0) - 1)] + rng.choice(L))      # shares a prefix
        elif r < 0.7:
            syls.add(rng.choice(L) + syl0[rng.randint(1, len(syl0) - 1):])      # shares a suffix
        else:
            syls.add(b"".join(rng.choice(L) for _ in range(rng.randint(1, 4))))
    steps = rng.randint(3, 5)
    cur, rules = syl0, []
    for i in range(steps):
        kind = rng.choice([b"fuzz", b"fuzz", b"abbrev", b"abbrev", b"derive"]) if i else rng.choice([b"fuzz", b"abbrev"])
        z = bytes([fresh[i]])
        shape = rng.random()
        if shape < 0.3 or len(cur) < 2:
            pat, rep = b"^" + cur + b"$", cur[:max(1, len(cur) - 1)] + z if rng.random() < 0.5 else z + cur[1:]
        elif shape < 0.55:
            n = rng.randint(1, len(cur) - 1)
            pat, rep = b"^" + cur[:n], z                                      # rewrite a prefix
        elif shape < 0.8:
            n = rng.randint(1, len(cur) - 1)
            pat, rep = cur[n:] + b"$", z                                      # rewrite a suffix
        else:
            pat, rep = b"^(.)" + cur[1:] + b"$", b"$1" + z                       # keep the initial (abbreviation style)
        rules.append(kind + b"/" + pat + b"/" + rep + b"/")
        try:
            nxt = re.sub(pat, rep.replace(b"$1", b"\\1"), cur)
        except re.error:
            nxt = cur
        cur = nxt if nxt != cur else cur + z
    if rng.random() < 0.3:
        rules.append(b"derive/^" + syl0 + b"$/" + cur + b"/")                   # control: a short route to the deepest spelling
    ops = ["case %d" % cid, "syl " + " ".join(hx(x) for x in sorted(syls))]
    ops += ["rule " + hx(f) for f in rules]
    ops.append("apply")
    if rng.random() < 0.3:
        ops.append("compile")
    else:
        if rng.random() < 0.5:
            ops.append("glue")
        ops.append("build")
    ops += ["queries %d 5 40" % rng.randrange(1 << 30), "q " + hx(cur), "x " + hx(cur[:1]) + " 0"]
    return ops


def gen_prefix_chain(rng, cid):
    """directed family: EVERY prefix of one spelling of 9-14 letters is itself a spelling, so CommonPrefixSearch on the long
    strings has 9-14 nested results (pinyin: 6).  The prefixes are syllables of their own, or made from the one long syllable
    by derive / abbrev / fuzz rules (one rule per length, or the same cut-the-last-letter rule repeated)."""
    letters = rng.choice([b"a", b"ab", b"abc", b"xyz", b"a1", b"aB;"])
    n = rng.randint(9, 14)
    w = bytes(rng.choice(letters) for _ in range(n))
    style = rng.choice(["syllables", "syllables", "per-length", "repeat"])
    rules = []
    if style == "syllables":
        syls = [w[:i] for i in range(1, n + 1)]
    else:
        syls = [w]
        kinds = [b"derive", b"derive", b"abbrev", b"fuzz"]
        if style == "per-length":
            for i in rng.sample(range(1, n), n - 1):
                rules.append(rng.choice(kinds) + b"/^(" + w[:i] + b").+$/$1/")
        else:
            k = rng.choice(kinds)
            rules = [k + b"/^(.+).$/$1/"] * (n - 1)
    for _ in range(rng.randint(0, 3)):
        syls.append(w[:rng.randint(1, n - 1)] + bytes([rng.choice(b"qrs")]))       # branches off the chain
    ops = ["case %d" % cid, "syl " + " ".join(hx(x) for x in syls)]
    ops += ["rule " + hx(f) for f in rules]
    ops.append("apply")
    if style != "syllables" and rng.random() < 0.5:
        ops.append("glue")
    ops.append("build noscript" if style == "syllables" and rng.random() < 0.4 else "build")
    ops.append("queries %d 5 40" % rng.randrange(1 << 30))
    for q in (w, w + w[:3], w + b"q", w[:9], w[:10], w[1:]):
        ops += ["q " + hx(q)]
    ops += ["x " + hx(w[:1]) + " 0", "x " + hx(w[:8]) + " 3"]
    return ops


U8_POOL = ["ā", "á", "ǎ", "à", "ē", "é", "ě", "è", "ī", "í", "ō", "ó", "ū", "ü", "ǖ", "ǘ", "ń", "ň", "ê", "ḿ", "ẑ", "ㄅ", "ㄆ", "ㄚ", "ˊ", "ˇ", "𠀀", "𝒂"]


def gen_xlit_utf8(rng, cid):
    """directed family: syllables spelled with multi-byte characters (tone-marked vowels, bopomofo, one four-byte character) and
    `xlit` rules between them and ASCII — both directions, a character mapped to itself, characters of different encoded lengths —
    as the stock tone-mark schemas have them, mixed with regex rules whose patterns are whole characters (so every spelling stays
    well-formed UTF-8 for the next xlit)."""
    asc = rng.sample("abcdeghimnouvz", rng.randint(2, 4))
    multi = rng.sample(U8_POOL, rng.randint(2, 6))
    alpha = asc + multi
    syls = sorted({"".join(rng.choice(alpha) for _ in range(rng.randint(1, 4))) for _ in range(rng.choice([2, 4, 7, 12]))})
    rules = []
    for _ in range(rng.choice([1, 2, 2, 3, 4])):
        k = rng.random()
        if k < 0.6:
            pop = alpha if rng.random() < 0.7 else multi
            src = rng.sample(pop, rng.randint(1, min(5, len(pop))))
            shape = rng.random()
            if shape < 0.45:
                dst = [rng.choice(asc) for _ in src]                          # tone marks -> plain letters
            elif shape < 0.7:
                dst = [rng.choice(U8_POOL) for _ in src]                      # to other multi-byte characters (other lengths)
            elif shape < 0.85:
                dst = [x if rng.random() < 0.5 else rng.choice(alpha) for x in src]   # some characters mapped to themselves
            else:
                dst = [rng.choice(alpha + ["q"]) for _ in src]
            rules.append("xlit/%s/%s/" % ("".join(src), "".join(dst)))
        else:
            kind = rng.choice(["derive", "xform", "fuzz", "abbrev", "erase"])
            a = rng.choice(alpha)
            pat = rng.choice([a, a + "$", "^" + a, "(%s|%s)" % (a, rng.choice(alpha)), a + rng.choice(alpha)])
            if kind == "erase":
                pat = rng.choice([pat, "^" + "".join(rng.choice(syls)) + "$", ".*" + a, a + ".*"])
                rules.append("erase/%s/" % pat)
            else:
                rules.append("%s/%s/%s/" % (kind, pat, rng.choice(alpha + ["", "q", a + a])))
    ops = ["case %d" % cid, "syl " + " ".join(hx(x.encode("utf-8")) for x in syls)]
    ops += ["rule " + hx(f.encode("utf-8")) for f in rules]
    ops.append("apply")
    if rng.random() < 0.5:
        ops.append("glue")
    ops.append("build")
    ops.append("queries %d 5 20" % rng.randrange(1 << 30))
    return ops


XLIT_BUF = 256


def gen_xlit_long(rng, cid):
    """directed family: spellings around the size of Transliteration::Apply's 256-byte output buffer (it gives up — rule not
    applied — once more than 249 bytes are written and a character is still to come): lengths 244..256, the mapped character first,
    last or in the middle, one-byte characters mapped to three-byte ones (the output outgrows the input), and a later rule that needs
    the xlit result."""
    fill = rng.choice(["a", "b", "ab"])
    hit = "x"
    wide = rng.choice(["ㄅ", "ā", "y", "𠀀"])
    syls = set()
    for _ in range(rng.randint(2, 5)):
        n = rng.choice([244, 246, 247, 248, 249, 250, 251, 252, 253, 256, 120, 83, 84, 85, 125, 126])
        pos = rng.choice(["first", "last", "mid", "many"])
        body = [rng.choice(fill) for _ in range(n)]
        if pos == "first":
            body[0] = hit
        elif pos == "last":
            body[-1] = hit
        elif pos == "mid":
            body[rng.randrange(n)] = hit
        else:
            for i in rng.sample(range(n), min(n, rng.choice([2, 60, 84, 125]))):
                body[i] = hit
        syls.add("".join(body))
    syls.add(rng.choice(["x", "ax", "b"]))
    rules = ["xlit/%s/%s/" % (hit, rng.choice([wide, "y", hit]))]
    if rng.random() < 0.5:
        rules.append(rng.choice(["derive/^(.).*$/$1/", "abbrev/^(..).*$/$1/", "xlit/ab/ba/", "erase/^a.*$/"]))
    ops = ["case %d" % cid, "syl " + " ".join(hx(x.encode("utf-8")) for x in sorted(syls))]
    ops += ["rule " + hx(f.encode("utf-8")) for f in rules]
    ops += ["apply", "build"]
    # (no `queries`: it asks for every prefix of every key; a handful of direct questions instead)
    for k in sorted(syls)[:3]:
        ops += ["q " + hx(k.encode("utf-8")), "x " + hx(k.encode("utf-8")[:2]) + " 3"]
    ops += ["x - 0", "sp 0", "sp 1"]
    return ops


def xlit_reference(args, spelling):
    """Transliteration::Apply on well-formed UTF-8 -> (applied, result) | None when outside (ill-formed text, unequal lists)"""
    try:
        left, right, sp = args[1].decode("utf-8"), args[2].decode("utf-8"), spelling.decode("utf-8")
    except (UnicodeDecodeError, IndexError):
        return None
    if len(left) != len(right) or "\0" in left + right + sp:
        return None
    cmap = {}
    for a, b in zip(left, right):
        cmap[a] = b
    out, modified = [], False
    n = 0
    for ch in sp:
        if n > XLIT_BUF - 7:
            return (False, spelling)
        if ch in cmap:
            ch = cmap[ch]
            modified = True
        out.append(ch)
        n += len(ch.encode("utf-8"))
    return (modified, "".join(out).encode("utf-8") if modified else spelling)


# ----------------------------------------------------------------------------- running both sides
class Runner:
    def __init__(self, c):
        self.c = c
        self.exe, self.bdir = vlib.build_harness("c09_harness", "san", ["c09_harness.cc"])
        rc, out = vlib.lake_build(["driver_c09"])
        if rc != 0:
            raise vlib.BuildError("driver_c09 does not build: " + out[-3000:])
        self.n = 0
        self.evaluations = 0

    def run(self, ops):
        """-> dict(rc, log, prim=[(opline, impl_obs)], model=[obs])"""
        self.n += 1
        fin = os.path.join(self.c.work, "ops_%d.txt" % self.n)
        fout = os.path.join(self.c.work, "out_%d.txt" % self.n)
        ws = os.path.join(self.c.work, "ws")
        with open(fin, "w") as f:
            f.write("".join(o + "\n" for o in ops))
        rc, log = vlib.sh([self.exe, fin, fout, ws], env=vlib.SAN_ENV, timeout=3000)
        prim = []
        try:
            lines = open(fout).read().split("\n")
            if lines and lines[-1] != "":
                lines.pop()          # the harness died in the middle of a line
            for line in lines:
                if "\t" in line:
                    a, b = line.split("\t", 1)
                    prim.append((a, b))
        except OSError:
            pass
        os.unlink(fin)
        if os.path.exists(fout):
            os.unlink(fout)
        model = vlib.run_driver("driver_c09", "".join(a + "\n" for a, b in prim)).split("\n") if prim else []
        if model and model[-1] == "":
            model.pop()
        self.evaluations += len(prim)
        return {"rc": rc, "log": log, "prim": prim, "model": model}


# ----------------------------------------------------------------------------- O: the property on the implementation's outputs
def parse_script(s):
    """dump -> list of (key, [(str, type, cred, tips)])  in dump order"""
    if s == "-":
        return []
    out = []
    for e in s.split("|"):
        k, v = e.split("=", 1)
        out.append((unhx(k), [(unhx(a), int(t), c, unhx(tips)) for a, t, c, tips in (x.split(",") for x in v.split(";"))] if v else []))
    return out


def fields(obs):
    return dict(x.split("=", 1) for x in obs.split(" ") if "=" in x)


def parse_matches(s):
    return [] if s == "-" else [tuple(int(y) for y in x.split(":")) for x in s.split(",")]


def sckey(b):
    return tuple((x + 128) % 256 for x in b)


# ---- an independent reading of "the rule matched the spelling" (Python's re, on the fragment of regex syntax where it
# and boost::regex's Perl syntax mean the same): erase = the pattern matches the WHOLE spelling (boost::regex_match);
# xform/derive/fuzz/abbrev = the pattern occurs somewhere in it (boost::regex_replace); xlit = it contains a mapped character
_LIT = frozenset(b"abcdefghijklmnopqrstuvwxyzABCDEFGHIJKLMNOPQRSTUVWXYZ0123456789;,_' =@#%&~\"<>:!")
_CLS = frozenset(b"abcdefghijklmnopqrstuvwxyzABCDEFGHIJKLMNOPQRSTUVWXYZ0123456789;,_")
_re_cache = {}


def safe_regex(pat):
    """literals, `.`, `[..]` / `[^..]` over plain characters, groups, `|`, one of `* + ?` after an atom, `^`, `$`;
    no empty alternative, no escapes, braces, ranges, lazy / possessive quantifiers"""
    i, n, depth = 0, len(pat), 0
    can_quant = False          # the previous token is an atom a quantifier may follow
    empty_alt = True           # nothing yet in the current alternative
    while i < n:
        ch = pat[i]
        if ch in b"*+?":
            if not can_quant:
                return False
            can_quant = False
            i += 1
            continue
        if ch == 0x28:      # (
            if pat[i + 1:i + 2] == b"?":
                return False
            depth += 1
            can_quant, empty_alt = False, True
            i += 1
        elif ch == 0x29:    # )
            if depth == 0 or empty_alt:
                return False
            depth -= 1
            can_quant, empty_alt = True, False
            i += 1
        elif ch == 0x7c:    # |
            if empty_alt:
                return False
            can_quant, empty_alt = False, True
            i += 1
        elif ch == 0x5b:    # [
            j = i + 1
            if pat[j:j + 1] == b"^":
                j += 1
            k = j
            while k < n and pat[k] != 0x5d:
                if pat[k] not in _CLS:
                    return False
                k += 1
            if k >= n or k == j:
                return False
            i = k + 1
            can_quant, empty_alt = True, False
        elif ch in b"^$":
            can_quant, empty_alt = False, False
            i += 1
        elif ch == 0x2e or ch in _LIT:
            can_quant, empty_alt = True, False
            i += 1
        else:
            return False
    return depth == 0 and not empty_alt


def parse_formula(formula):
    """Calculus::Parse's split: separator = first byte that is no lower-case letter"""
    for i, ch in enumerate(formula):
        if not 97 <= ch <= 122:
            return formula.split(formula[i:i + 1])
    return None


def ref_matches(kind, args, spelling):
    """True / False = the rule does / does not match the spelling under the reference reading; None = not evaluated
    (outside the fragment)"""
    if not args or not spelling or any(x >= 0x80 for x in spelling):
        return None
    if kind == "xlit":
        if len(args) < 3 or any(x >= 0x80 for x in args[1] + args[2]):
            return None
        return any(x in args[1] for x in spelling)
    if kind not in ("erase", "xform", "derive", "fuzz", "abbrev") or len(args) < 2:
        return None
    pat = args[1]
    if pat not in _re_cache:
        rx = None
        if safe_regex(pat):
            try:
                rx = re.compile(pat)
            except re.error:
                rx = None
        _re_cache[pat] = rx
    rx = _re_cache[pat]
    if rx is None:
        return None
    if kind == "erase":
        return rx.fullmatch(spelling) is not None
    return rx.search(spelling) is not None


def monitor(prim):
    """Evaluate the property clauses on the implementation's observations of one or more cases.
    -> (list of (signature, detail), stats)"""
    v = []
    stats = {"rounds": 0, "applied_rounds": 0, "merged_entries": 0, "queries": 0, "nontrivial": False}
    syl, cur, step, keys, script_for_prism, merges = [], None, None, None, None, False
    threw, apply_loaded = False, False
    expand_seen = {}
    ref_bad = None
    for op, obs in prim:
        a = op.split(" ")
        if obs in ("bad-op",):
            continue
        if a[0] == "case":
            syl, cur, step, keys, script_for_prism, merges = [], None, None, None, None, False
            threw, apply_loaded = False, False
        elif a[0] == "syl":
            f = fields(obs)
            syl = [unhx(x) for x in f["syllabary"].split(",")]
            step = cur = parse_script(f["script"])
        elif a[0] == "rule":
            f = fields(obs)
            new = parse_script(f["script"])
            kind = f["kind"]
            rows = {}
            n = int(a[3])
            for i in range(n):
                rows[unhx(a[4 + 3 * i])] = a[5 + 3 * i]
            stats["rounds"] += 1
            if f.get("round") == "threw":
                threw = True
            if f.get("mod") == "1":
                stats["applied_rounds"] += 1
            old = dict(step)
            newd = dict(new)
            args = parse_formula(unhx(a[1]))
            if kind == "erase" and args and len(args) > 1 and safe_regex(args[1]):
                stats["erase_modelled"] = stats.get("erase_modelled", 0) + 1
            # the recorded outcome of Calculation::Apply against the reference reading of "matches"
            for ki, (k, o) in enumerate(rows.items()):
                if o not in ("0", "1"):
                    continue
                if kind == "xlit" and args and len(args) >= 3:
                    xr = xlit_reference(args, k)
                    if xr is not None:
                        stats["ref_outcomes"] = stats.get("ref_outcomes", 0) + 1
                        stats["xlit_exact"] = stats.get("xlit_exact", 0) + 1
                        if len(k) > 200:
                            stats["xlit_long"] = stats.get("xlit_long", 0) + 1
                        if any(x >= 0x80 for x in k + args[1] + args[2]):
                            stats["xlit_multibyte"] = stats.get("xlit_multibyte", 0) + 1
                        res = unhx(a[6 + 3 * ki]) if o == "1" else k
                        if xr[0] != (o == "1") or xr[1] != res:
                            stats["ref_disagree"] = stats.get("ref_disagree", 0) + 1
                            if ref_bad is None:
                                ref_bad = {"rule": unhx(a[1]).decode("latin-1"), "spelling": hx(k), "applied": o == "1", "reference_matches": xr[0],
                                           "result": hx(res), "reference_result": hx(xr[1])}
                        continue
                rm = ref_matches(kind, args, k)
                if rm is None:
                    continue
                stats["ref_outcomes"] = stats.get("ref_outcomes", 0) + 1
                if kind == "erase" and rm != (o == "1") or kind != "erase" and o == "1" and not rm:
                    stats["ref_disagree"] = stats.get("ref_disagree", 0) + 1
                    if ref_bad is None:
                        ref_bad = {"rule": unhx(a[1]).decode("latin-1"), "spelling": hx(k), "applied": o == "1", "reference_matches": rm}
                if kind == "erase" and not rm and _re_cache[args[1]].search(k):
                    stats["erase_contains_not_whole"] = stats.get("erase_contains_not_whole", 0) + 1   # match != search here
            if kind in NONDELETING:
                for k, vec in old.items():
                    if k not in newd:
                        v.append(("C09:algebra:nondeleting-monotone", {"clause": "a %s rule removed spelling %r" % (kind, k), "kind": kind, "spelling": hx(k)}))
                        break
                    lost = {x[0] for x in vec} - {x[0] for x in newd[k]}
                    if lost:
                        v.append(("C09:algebra:nondeleting-monotone", {"clause": "a %s rule removed syllable(s) %s from spelling %r" % (kind, sorted(hx(x) for x in lost), k), "kind": kind, "spelling": hx(k)}))
                        break
            for y in syl:
                own_before = y in old and any(x[0] == y for x in old[y])
                own_after = y in newd and any(x[0] == y for x in newd[y])
                if own_before and not own_after and not (kind in DELETING and rows.get(y) == "1"):
                    v.append(("C09:algebra:own-name", {"clause": "syllable %r lost its own spelling in a round where no replacing/erasing rule matched it (rule kind %s, outcome on it %s)" % (y, kind, rows.get(y)), "syllable": hx(y), "kind": kind}))
                    break
                if own_before and not own_after and ref_matches(kind, args, y) is False:
                    how = "does not match the whole spelling (it only occurs inside it)" if kind == "erase" and re.search(args[1], y) else "does not match it"
                    v.append(("C09:algebra:own-name", {"clause": "syllable %r lost its own spelling to the %s rule %r whose pattern %s" % (y, kind, unhx(a[1]).decode("latin-1"), how), "syllable": hx(y), "kind": kind}))
                    break
            # the round as a relation (Script::Merge: type = min, credibility = max over everything that lands on (spelling, syllable))
            if kind in NONDELETING + DELETING and f.get("round") == "ok":
                eff = {"fuzz": (1, -1), "abbrev": (2, -1)}.get(kind, (0, 0))
                want = {}
                def land(k, y, t, c):
                    o = want.get((k, y))
                    want[(k, y)] = (t, c) if o is None else (min(o[0], t), max(o[1], c))
                for k, vec in step:
                    o = rows.get(k)
                    if o != "1" or kind in NONDELETING:
                        for (y, t, c, tips) in vec:
                            land(k, y, t, int(c))
                    if o == "1" and kind != "erase":
                        res = unhx(a[6 + 3 * list(rows).index(k)])
                        if res:
                            for (y, t, c, tips) in vec:
                                land(res, y, max(t, eff[0]), int(c) + eff[1])
                try:
                    have = {(k, x[0]): (x[1], int(x[2])) for k, vec in new for x in vec}
                except ValueError:
                    have = None
                if have != want:
                    diff = sorted(set(want.items()) ^ set((have or {}).items()))[:1]
                    v.append(("C09:algebra:merge-min-max", {"clause": "after a %s round the table is not the minimum-type / maximum-credibility merge of what the rule maps onto each (spelling, syllable); first difference %s" % (kind, [((hx(k), hx(y)), tc) for (k, y), tc in diff]), "kind": kind}))
            step = new
        elif a[0] in ("apply", "glue", "merge"):
            f = fields(obs)
            cur = parse_script(f["script"])
            if a[0] == "merge":
                merges = True
            if a[0] == "apply":
                apply_loaded = f["loaded"] == "1"
                sset = set(syl)
                for k, vec in cur:
                    if not vec:
                        v.append(("C09:algebra:values-in-syllabary", {"clause": "spelling %r denotes no syllable" % k, "spelling": hx(k)}))
                        break
                    bad = [x[0] for x in vec if x[0] not in sset]
                    if bad:
                        v.append(("C09:algebra:values-in-syllabary", {"clause": "spelling %r denotes %r which is no syllable" % (k, bad[0]), "spelling": hx(k)}))
                        break
                if f["loaded"] == "1" and step is not None and cur != step and "round=threw" not in " ".join(o for _, o in prim):
                    v.append(("C09:harness:stepwise", {"clause": "one-formula-at-a-time application and whole Projection::Apply differ on the real code"}))
                stats["merged_entries"] += sum(1 for k, vec in cur if len(vec) > 1 or any(x[1] != 0 for x in vec))
                for k, vec in cur:      # spellings whose BEST reading carries >= 3 penalties (reachable only through long chains)
                    try:
                        if vec and max(int(x[2]) for x in vec) <= -3:
                            stats["deep_only_spellings"] = stats.get("deep_only_spellings", 0) + 1
                    except ValueError:
                        pass
                if f["modified"] == "1" and any(len(vec) > 1 or any(x[1] != 0 for x in vec) for k, vec in cur):
                    stats["nontrivial"] = True
        elif a[0] == "build":
            f = fields(obs)
            if f.get("ok") != "1":
                v.append(("C09:prism:build", {"clause": "Build/Save/Load failed"}))
                keys = None
                continue
            noscript = (len(a) > 1 and a[1] == "noscript") or not cur
            script_for_prism = None if noscript else cur
            keys = list(syl) if noscript else [k for k, _ in cur]
            if keys != sorted(keys) or len(set(keys)) != len(keys):
                v.append(("C09:prism:keys", {"clause": "script keys are not strictly sorted"}))
            alpha = unhx(f["alphabet"])
            want_alpha = bytes(sorted({x for k in keys for x in k}, key=lambda x: (x + 128) % 256))
            if alpha != want_alpha or int(f["n"]) != len(keys):
                v.append(("C09:prism:metadata", {"clause": "stored alphabet / number of spellings do not describe the key set", "alphabet": f["alphabet"], "expected": hx(want_alpha)}))
            expand_seen = {}
        elif a[0] == "compile":
            # the real DictCompiler.  Property reading: when the compile step SUCCEEDS, the prism's keys are the spellings of
            # the table Projection::Apply left; error paths — the projection did not load, a calculation threw — fall back to
            # the raw syllabary (identity table).  A table without any spelling cannot be compiled: the step has to fail
            # (no prism file), which is what /repo does since d76c819.
            f = fields(obs)
            stats["compiles"] = stats.get("compiles", 0) + 1
            if len(a) > 1 and a[1] == "again":
                stats["compiles_again"] = stats.get("compiles_again", 0) + 1
            if f.get("ok") == "T":      # Table::Build failed (C06's subject), no prism to speak about
                stats["table_build_failures"] = stats.get("table_build_failures", 0) + 1
                keys = None
                continue
            table = cur if (apply_loaded and not threw and cur is not None) else [(y, [(y, 0, "0", b"")]) for y in syl]
            want_keys = [k for k, _ in table]
            if f.get("ok") != "1":
                if want_keys:
                    v.append(("C09:compile:failed", {"clause": "DictCompiler::Compile / Prism::Load failed although the spelling table has %d spelling(s)" % len(want_keys)}))
                else:
                    stats["compiles_refused_empty_table"] = stats.get("compiles_refused_empty_table", 0) + 1
                keys = None
                continue
            want_alpha = bytes(sorted({x for k in want_keys for x in k}, key=lambda x: (x + 128) % 256))
            if int(f["n"]) != len(want_keys) or unhx(f["alphabet"]) != want_alpha:
                v.append(("C09:compile:keys-not-spellings", {"clause": "the spelling table has %d spelling(s) %s but the compiled prism has %d key(s) over alphabet %r" % (len(want_keys), [k.decode("latin-1") for k in want_keys[:6]], int(f["n"]), unhx(f["alphabet"]))}))
                keys = None
                continue
            keys, script_for_prism, expand_seen = want_keys, table, {}
        elif a[0] == "reload":
            keys = None   # behaviour under a foreign format tag is outside the property (correspondence only)
        elif a[0] == "q" and keys is not None:
            stats["queries"] += 1
            f = fields(obs)
            q = unhx(a[1])
            want = str(keys.index(q)) if q in keys else "-"
            if f["get"] != want or f["has"] != ("1" if q in keys else "0"):
                v.append(("C09:prism:get", {"clause": "GetValue/HasKey(%r) = %s/%s, key table says %s" % (q, f["get"], f["has"], want), "query": hx(q)}))
            wantc = [(keys.index(q[:l]), l) for l in range(1, len(q) + 1) if q[:l] in keys]
            if len(wantc) > 8:
                stats["cps_more_than_8"] = stats.get("cps_more_than_8", 0) + 1
            if parse_matches(f["cps"]) != wantc:
                v.append(("C09:prism:cps", {"clause": "CommonPrefixSearch(%r) = %s, keys that are prefixes: %s" % (q, f["cps"], wantc), "query": hx(q)}))
        elif a[0] == "x" and keys is not None:
            stats["queries"] += 1
            f = fields(obs)
            q, limit = unhx(a[1]), int(a[2])
            got = parse_matches(f["exp"])
            allm = sorted((k for k in keys if k.startswith(q)), key=lambda k: (len(k), sckey(k)))
            want = [(keys.index(k), len(k)) for k in allm]
            if limit:
                want = want[:limit]
            if got != want:
                clause = "expand"
                if sorted(got) == sorted(want):
                    clause = "expand-order"
                elif limit and got[:limit] != got:
                    clause = "expand-limit"
                v.append(("C09:prism:" + clause, {"clause": "ExpandSearch(%r, limit %d) = %s, expected %s" % (q, limit, got, want), "query": hx(q), "limit": limit}))
            # limit-monotone on the implementation's own answers
            for l2, g2 in expand_seen.get(q, {}).items():
                lo, hi = ((got, g2) if (limit and (not l2 or limit <= l2)) else (g2, got))
                if hi[:len(lo)] != lo:
                    v.append(("C09:prism:expand-limit", {"clause": "ExpandSearch(%r) with limits %d and %d are not prefix-related" % (q, limit, l2), "query": hx(q)}))
            expand_seen.setdefault(q, {})[limit] = got
        elif a[0] == "sp" and keys is not None:
            stats["queries"] += 1
            f = fields(obs)
            i = int(a[1])
            got = [] if f["sp"] == "-" else [x.split(",") for x in f["sp"].split(";")]
            if script_for_prism is None or i >= len(keys):
                if got != [[str(i), "0", "0", "-"]]:
                    v.append(("C09:prism:spelling", {"clause": "QuerySpelling(%d) without a stored list should be the identity element, got %s" % (i, f["sp"]), "id": i}))
            elif not merges:
                have = sorted((syl[int(s)] if int(s) < len(syl) else None, int(t), c) for s, t, c, tips in got)
                want = sorted((x[0], x[1], x[2]) for x in script_for_prism[i][1])
                if have != want:
                    v.append(("C09:prism:spelling", {"clause": "spelling %r: prism gives %s, spelling table has %s" % (keys[i], have, want), "id": i, "spelling": hx(keys[i])}))
    stats["ref_bad"] = ref_bad
    return v, stats


def compare(res):
    """correspondence: first disagreement between implementation and model, or None"""
    prim, model = res["prim"], res["model"]
    for i, (op, obs) in enumerate(prim):
        m = model[i] if i < len(model) else "<no model output>"
        if m != obs:
            return {"index": i, "op": op[:600], "impl": obs[:1500], "model": m[:1500]}
    return None


# ----------------------------------------------------------------------------- shrinking
def shrink(runner, ops, pred, budget=400, det=None):
    """greedy removal of syllables / rules / merges / trailing ops while pred(ops) stays true; a `queries` line is
    replaced by the primitive queries the failing clause names"""
    hints = []
    if det and "query" in det:
        hints = ["q " + det["query"], "x %s 0" % det["query"]] + (["x %s %d" % (det["query"], det["limit"])] if det.get("limit") else [])
    if det and "id" in det:
        hints.append("sp %d" % det["id"])

    def variants(ops):
        for i, o in enumerate(ops):
            if o.startswith("queries ") and hints:
                yield ops[:i] + hints + ops[i + 1:]
        for i, o in enumerate(ops):
            a = o.split(" ")
            if a[0] in ("rule", "merge", "glue", "reload", "q", "x", "sp"):
                yield ops[:i] + ops[i + 1:]
            if a[0] == "syl" and len(a) > 2:
                for j in range(1, len(a)):
                    yield ops[:i] + [" ".join(a[:j] + a[j + 1:])] + ops[i + 1:]
    changed = True
    while changed and budget > 0:
        changed = False
        for cand in variants(ops):
            budget -= 1
            if budget <= 0:
                break
            try:
                if pred(cand):
                    ops, changed = cand, True
                    break
            except Exception:
                continue
    return ops


def readable(ops):
    out = []
    for o in ops:
        a = o.split(" ")
        if a[0] == "syl":
            out.append("syllabary " + " ".join(repr(unhx(x))[1:] for x in a[1:]))
        elif a[0] == "rule":
            out.append("rule " + repr(unhx(a[1]))[1:])
        else:
            out.append(o)
    return out


# ----------------------------------------------------------------------------- main
def case_groups(ops):
    g = []
    for o in ops:
        if o.startswith("case ") or not g:
            g.append([])
        g[-1].append(o)
    return g


def run(c):
    quick = c.tier == "quick"
    rng = c.rng
    # P
    audit = vlib.lean_audit("C09")
    if not quick and audit["ok"]:
        ok, log = vlib.leanchecker("RimeModel.Props.C09")
        if not ok:
            audit["ok"] = False
            audit["failures"].append(("RimeModel.Props.C09", "leanchecker: " + log))
    # B
    R = Runner(c)
    # cases: corpus first, then generated
    cases = []
    for f in sorted(glob.glob(os.path.join(vlib.CORPUS, "C09", "*.ops"))):
        lines = [l.strip() for l in open(f) if l.strip() and not l.startswith("#")]
        for g in case_groups(lines):
            cases.append(("corpus:" + os.path.basename(f), g))
    ncorpus = len(cases)
    ngen = 150 if quick else 8900
    for i in range(ngen):
        cases.append(("gen", gen_case(rng, i)))
    for _ in range(3 if quick else 40):
        for g in gen_anchor_grid(rng, ngen + len(cases)):
            cases.append(("grid", g))
    for _ in range(12 if quick else 300):
        cases.append(("penalty-chain", gen_penalty_chain(rng, ngen + len(cases))))
    for _ in range(8 if quick else 150):
        cases.append(("prefix-chain", gen_prefix_chain(rng, ngen + len(cases))))
    for _ in range(40 if quick else 600):
        cases.append(("xlit-utf8", gen_xlit_utf8(rng, ngen + len(cases))))
    for _ in range(12 if quick else 200):
        cases.append(("xlit-long", gen_xlit_long(rng, ngen + len(cases))))
    # K + O in batches
    o_fail, mismatches, san = {}, [], []
    foreign_crashes = 0
    nontrivial, seen_hash = set(), set()
    totals = {"rounds": 0, "applied_rounds": 0, "merged_entries": 0, "queries": 0, "compiles": 0, "compiles_refused_empty_table": 0, "table_build_failures": 0,
              "ref_outcomes": 0, "ref_disagree": 0, "erase_contains_not_whole": 0, "erase_modelled": 0,
              "deep_only_spellings": 0, "cps_more_than_8": 0, "xlit_exact": 0, "xlit_long": 0, "xlit_multibyte": 0, "compiles_again": 0}
    ref_bad = None
    samples = []
    B = 50 if quick else 200
    for b0 in range(0, len(cases), B):
        batch = cases[b0:b0 + B]
        allops = [o for _, g in batch for o in g]
        res = R.run(allops)
        if res["rc"] != 0:
            # the harness died: run the batch case by case; a crash inside Table::Build (the table, not the prism: C06's
            # subject, reachable only through the `compile` op) is counted, not reported here
            merged = {"rc": 0, "log": "", "prim": [], "model": []}
            found = False
            for tag, g in batch:
                r1 = R.run(g)
                if r1["rc"] != 0:
                    found = True
                    if "rime::Table::" in r1["log"] and any(o == "compile" for o in g):
                        foreign_crashes += 1
                        continue
                    san.append({"ops": g, "rc": r1["rc"], "log": r1["log"][-3000:]})
                merged["prim"] += r1["prim"]
                merged["model"] += r1["model"]
            if not found:
                san.append({"ops": allops[:50], "rc": res["rc"], "log": res["log"][-3000:]})
            res = merged
        # split the primitive stream per case for O and for counting
        by_case = {g[0]: g for _, g in batch}
        per = []
        for op, obs in res["prim"]:
            if op.startswith("case ") or not per:
                per.append([])
            per[-1].append((op, obs))
        for ci, cp in enumerate(per):
            viol, st = monitor(cp)
            for k in totals:
                totals[k] += st.get(k, 0)
            src = by_case.get(cp[0][0])
            if st.get("ref_bad") and ref_bad is None and src is not None:
                ref_bad = (src, st["ref_bad"])
            h = hashlib.sha256("\n".join(src[1:] if src else []).encode()).hexdigest()
            if st["nontrivial"] and h not in seen_hash:
                nontrivial.add(h)
            seen_hash.add(h)
            for sig, det in viol:
                if sig not in o_fail and src is not None:
                    o_fail[sig] = (src, det)
            if src is not None and len(samples) < 4 and st["nontrivial"] and len(src) < 12:
                samples.append({"ops": readable(src), "final_script": next((o for p, o in cp if p == "apply"), "")[:400]})
        mm = compare(res)
        if mm:
            # locate the case
            cl = None
            for op, obs in res["prim"][:mm["index"] + 1]:
                if op.startswith("case "):
                    cl = op
            mismatches.append((by_case.get(cl, batch[0][1]), mm))
    # verdicts
    for sig, (src, det) in sorted(o_fail.items()):
        def pred(ops, sig=sig):
            r = R.run(ops)
            return any(s == sig for s, _ in monitor(r["prim"])[0])
        small = shrink(R, src, pred, det=det)
        r = R.run(small)
        det2 = next((d for s, d in monitor(r["prim"])[0] if s == sig), det)
        c.report(sig, det2.get("clause", sig), {"kind": "impl-violation", "ops": small, "readable": readable(small), "detail": det2})
    for s in san[:1]:
        c.report("C09:sanitizer", "sanitizer abort / crash of the real code (rc=%s)" % s["rc"],
                 {"kind": "sanitizer", "ops": s["ops"], "readable": readable(s["ops"]), "log": s["log"]})
    if mismatches and not o_fail:
        src, mm = mismatches[0]
        def predm(ops):
            return compare(R.run(ops)) is not None
        small = shrink(R, src, predm)
        r = R.run(small)
        mm2 = compare(r) or mm
        a = mm2["op"].split(" ")[0]
        c.report("C09:correspondence:" + a, "model and implementation disagree on `%s` (%d of the generated cases); the property "
                 "itself holds on the implementation's outputs" % (a, len(mismatches)),
                 {"kind": "correspondence", "ops": small, "readable": readable(small), "first": mm2,
                  "broken": "correspondence driver_c09 vs c09_harness"}, no_input=True)
    if ref_bad and not o_fail:
        src, rb = ref_bad
        c.report("C09:reference:" + re.match(r"[a-z]*", rb["rule"]).group(0),
                 "Calculation::Apply %s the spelling %r under rule %r, the reference reading of the pattern says it %s (%d such outcomes); no "
                 "clause of the property is violated by the tables seen" % ("applied to" if rb["applied"] else "did not apply to", unhx(rb["spelling"]),
                 rb["rule"], "matches" if rb["reference_matches"] else "does not match", totals["ref_disagree"]),
                 {"kind": "correspondence", "ops": src, "readable": readable(src), "first": rb,
                  "broken": "reference reading of regex_match / regex_replace vs recorded Calculation::Apply outcomes"}, no_input=True)
    if not audit["ok"] and not o_fail:
        c.report("C09:proof", "proof obligation no longer checks: %s" % "; ".join("%s: %s" % f for f in audit["failures"])[:600],
                 {"kind": "proof", "broken_theorems": audit["failures"], "lean_log": audit["log"][-3000:]}, no_input=True)
    cov = vlib.proof_cov(audit, "lake build RimeModel.Props.C09 && #print axioms (all theorems) && forbidden-token scan"
                         + ("" if quick else " && leanchecker RimeModel.Props.C09"),
                         vlib.STD_TRUSTED + ["boost::regex and the xlit code-point map (outcomes recorded per rule and spelling, not modelled)",
                                             "darts-clone double array (model keeps the sorted key table it encodes)",
                                             "mapped-file byte layout (abstracted to the fields Prism::Load reads)",
                                             "IEEE double/float: the iterated sum of the penalty constant is strictly decreasing and survives narrowing to float"])
    cov.update({
        "evaluations": R.evaluations, "distinct_nontrivial": len(nontrivial),
        "rule": ("generator v%d: alphabet of 3-6 letters (15%%: with bytes >= 0x80), syllabary of 1-40 syllables of length <= 2..5, "
                 "0-6 formulas of the six kinds with generated regexes (classes, anchors, alternations, back-references, match-nothing, "
                 "match-everything, erase-to-empty, malformed; erase patterns in every anchoring: none, ^ only, $ only, both), or 1-8 direct Script::Merge calls with arbitrary type/penalty/tips; "
                 "plus a directed grid {erase, xform, derive} x {no anchor, ^, $, ^$} x {whole syllable, piece of one} on syllabaries with shared pieces; 25%% of the ASCII "
                 "alphabets contain digits / punctuation / upper case; chains of 3-5 fuzz / abbrev / derive steps whose deepest spelling is "
                 "reachable only through every step (with short-route controls); syllabaries / rule lists where every prefix of a 9-14 "
                 "letter spelling is a spelling, queried on the long strings; then "
                 "Build+Save+Load (30%% of the ASCII cases: the real DictCompiler::Compile on generated dict/schema files instead) and GetValue/HasKey/CommonPrefixSearch/ExpandSearch (7 limits)/QuerySpelling on keys, all proper "
                 "prefixes, random strings. evaluations = primitive operations compared implementation vs model; a case is non-trivial "
                 "when the projection modified the script and some spelling ended with >= 2 syllables or a non-normal type; distinct by "
                 "hash of the case's op lines") % GENERATOR_VERSION,
        "samples": samples or [{"ops": readable(cases[ncorpus][1])}],
        "cases": len(cases), "corpus_cases": ncorpus, "rounds": totals["rounds"], "rounds_with_a_match": totals["applied_rounds"],
        "merged_or_derived_entries": totals["merged_entries"], "prism_queries": totals["queries"],
        "dict_compiler_runs": totals["compiles"], "dict_compiler_refused_empty_table": totals["compiles_refused_empty_table"],
        "table_build_failures_not_c09": totals["table_build_failures"] + foreign_crashes,
        "rule_outcomes_checked_against_reference_regex": totals["ref_outcomes"], "reference_regex_disagreements": totals["ref_disagree"],
        "erase_outcomes_where_match_differs_from_search": totals["erase_contains_not_whole"],
        "erase_rounds_computed_by_the_model_regex": totals["erase_modelled"],
        "spellings_reachable_only_with_3_or_more_penalties": totals["deep_only_spellings"],
        "common_prefix_queries_with_more_than_8_matches": totals["cps_more_than_8"],
        "dict_compiler_runs_over_an_existing_build": totals["compiles_again"],
        "xlit_outcomes_checked_exactly": totals["xlit_exact"], "xlit_outcomes_with_multibyte_characters": totals["xlit_multibyte"],
        "xlit_outcomes_on_spellings_over_200_bytes": totals["xlit_long"],
        "correspondence_mismatches": len(mismatches), "impl_monitor_failures": len(o_fail), "sanitizer_aborts": len(san),
        "source_hash": vlib.source_hash(SRC_FILES), "proof_failures": audit["failures"],
    })
    c.cov = cov
    c.assumptions = ["syllables and spellings are non-empty NUL-free byte strings (C strings in the trie)",
                     "char is signed (alphabet order of bytes >= 0x80); true on the x86-64 build checked here",
                     "the recorded outcome of Calculation::Apply on a spelling is a function of the spelling (regex matching is pure)",
                     "the prism is built from a non-empty key set; compile-step clauses speak about successful compiles (a table without spellings is refused)",
                     "a calculation that throws (regex complexity) is an error path: Apply returns false, DictCompiler compiles the raw syllabary"]


def replay(c, r):
    ops = r.get("ops")
    if not ops:
        print("replay: this file names a broken obligation, no concrete input:", r.get("what"))
        return 1
    R = Runner(c)
    res = R.run(ops)
    viol, st = monitor(res["prim"])
    mm = compare(res)
    for l in readable(ops):
        print("  " + l[:200])
    rb = st.get("ref_bad")
    if rb:
        print("replay: Calculation::Apply and the reference reading of the rule disagree: rule %r on spelling %r: applied=%s, reference says %s%s"
              % (rb["rule"], unhx(rb["spelling"]), rb["applied"], rb["reference_matches"],
                 " (result %r, reference %r)" % (unhx(rb["result"]), unhx(rb["reference_result"])) if "result" in rb else ""))
    for sig, det in viol:
        print("replay: property violated on the implementation: %s — %s" % (sig, det.get("clause")))
    if res["rc"] != 0:
        print("replay: harness exited with rc=%d\n%s" % (res["rc"], res["log"][-1500:]))
    if mm:
        print("replay: model and implementation disagree at `%s`\n  impl : %s\n  model: %s" % (mm["op"][:200], mm["impl"][:400], mm["model"][:400]))
    if not viol and not mm and res["rc"] == 0 and not rb:
        print("replay: no violation, no disagreement (%d primitive operations)" % len(res["prim"]))
        return 0
    return 1
