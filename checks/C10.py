"""C10 — what the user commits is learned, ranked no worse next time, can be forgotten."""
import os, sys, json, re, shutil, struct, glob
import vlib

META = {
    "technique": ("Lean 4 model of the user-dictionary record algebra, transaction layer, commit grouping and user/system merge "
                  "with theorems for all histories + differential correspondence with the real engine through the API and a "
                  "direct dump of the user db"),
    "level": "proof",
    "level_text": ("Theorems C10.commit_plus_one (full strength: a key committed m times in a commit ends at |c|+m, an uncommitted one "
                   "keeps its count), commit_count_fold, commit_frame(_code), delete_marks, deleted_hidden, revive, "
                   "assembled_phrase_stored, table_commit_plus_one, rank_no_worse_partial (+ list-level rank_no_worse_list / "
                   "_table_list) over the model of UserDictionary::UpdateEntry (fetch = pending writes of the open write batch, then the "
                   "durable db; writes into the batch), CreateDictEntry, Memory::OnCommit grouping, Script/TableTranslator::Memorize and the "
                   "user-before-system merge: proved for arbitrary dictionaries, prior states and compositions. The model is run "
                   "event-for-event against the real librime (script and table translators over generated dictionaries, and stock "
                   "luna_pinyin): it must reproduce the real grouping, every durable record (c, t exactly; d numerically) after every "
                   "API call and, on the synthetic schemas, the whole candidate list; the property clauses are also evaluated "
                   "directly on the implementation's db dumps and candidate lists."),
    "level_note": ("Partial: the float formulas formula_d/formula_p are not proved monotone; the ranking theorem takes the order "
                   "law it needs ('a commit gains on every entry that was not ahead') as a hypothesis, which the harness samples on "
                   "the real formulas (and reports that plain monotonicity in dee is false at d = 20). The hand-written model is tied by "
                   "differential runs only (bounded by the generator). The clause 'an assembled phrase is offered as one candidate' is "
                   "read for translators that store the concatenated entry (script_translator); table_translator without encoder "
                   "stores only the elements (+1 each), which is what the model says and the check compares. The ranking clause is read "
                   "literally for every whole-input candidate in both styles; for a table-style composed sentence (no phrase stored) it "
                   "fails when Poet recomposes another path of equal weight: theorem C10.table_sentence_rank_counterexample, open finding "
                   "C10:rank:worse:table-sentence-recomposed (witness corpus/C10/table_sentence_recomposed.json, run first), and "
                   "rank_no_worse_partial excludes that case explicitly. Trusted: Lean kernel, "
                   "LevelDB (ordered iteration, atomic batch), the harness's private-member read of the Db, sentence composition "
                   "(Poet) and system-dictionary order as oracles of the list prediction."),
    "design_ref": "DESIGN.md §2 M-kv, §3 C10",
}

SRC_FILES = ["src/rime/gear/memory.cc", "src/rime/dict/user_dictionary.cc", "src/rime/dict/user_db.cc", "src/rime/dict/level_db.cc",
             "src/rime/gear/script_translator.cc", "src/rime/gear/table_translator.cc", "src/rime/algo/dynamics.h"]

CJK = list("巴八爸大打笔比地低德册擦词的一是不了人我在有他这中上们来到时个说国为子和你道也而要于就下得可对生自会那后能多发作用家心动成方行学如经当看起还天分进好小部其些主样理日月金木水火土山川田林森明盟萌")

BACKSPACE = 0xff08


def hx(b):
    if isinstance(b, str):
        b = b.encode()
    return b.hex() if b else "-"


def unhex(h):
    return b"" if h in ("-", None, "") else bytes.fromhex(h)


def show(h):
    try:
        return unhex(h).decode()
    except Exception:
        return h


# ------------------------------------------------------------------ synthetic schemas and dictionaries
SCRIPT_SCHEMA = """schema:
  schema_id: c10_script
  name: c10_script
  version: '1'
engine:
  processors:
    - speller
    - selector
    - navigator
    - express_editor
  segmentors:
    - abc_segmentor
    - fallback_segmentor
  translators:
    - script_translator
speller:
  alphabet: 'abcdei'
  delimiter: " '"
translator:
  dictionary: c10_script
  enable_user_dict: true
  enable_completion: false
menu:
  page_size: 5
"""

TABLE_SCHEMA = """schema:
  schema_id: c10_table
  name: c10_table
  version: '1'
engine:
  processors:
    - speller
    - selector
    - navigator
    - express_editor
  segmentors:
    - abc_segmentor
    - fallback_segmentor
  translators:
    - table_translator
speller:
  alphabet: 'abcd'
translator:
  dictionary: c10_table
  enable_user_dict: true
  enable_sentence: true
  enable_encoder: false
  enable_charset_filter: false
menu:
  page_size: 5
"""

# the same dictionary (and user dictionary) under other translator options: the plain TableTranslation of exact matches
# (enable_completion: false)
TABLE_VARIANTS = {
    "c10_table": ("", "table"),
    "c10_table_nc": ("  enable_completion: false\n", "table 0 1"),
    # the unity table encoder: a commit of several elements is stored as one phrase under the code the dictionary's rules
    # derive for it (offered later as a constructed user phrase, stored as a plain one once it is committed itself); the
    # tail of the commit history is encoded too, phrases of at most three characters
    "c10_table_enc": ("  enable_encoder: true\n  encode_commit_history: true\n  max_phrase_length: 3\n", "table 1 1 enc 1 3"),
    "c10_table_encnc": ("  enable_encoder: true\n  encode_commit_history: false\n  enable_completion: false\n", "table 0 1 enc 0 5"),
}
ENC_PREFIX = "7f656e631f"        # kEncodedPrefix "\x7f" "enc" "\x1f" in hex, as the first spelling of a db key starts
ENCODER_RULES = """encoder:
  rules:
    - length_equal: 2
      formula: "AaBa"
    - length_equal: 3
      formula: "AaBaCa"
    - length_in_range: [4, 6]
      formula: "AaBaCaZa"
"""
# (a variant with `max_homographs: 3` is modelled — `tableSentenceListH`, `predict table 1 3` — but not run: with more than one
# homograph per edge MakeSentence copies the DictEntryIterator of a prefix, the copy shares the chunk cursors with the original,
# and the prefix phrases are then read past the end of their chunk: unrelated to learning, recorded in
# corpus/C10/side_observations/max_homographs_shared_cursor.json)


def table_schema(sid):
    y = TABLE_SCHEMA.replace("schema_id: c10_table", "schema_id: " + sid).replace("name: c10_table", "name: " + sid).replace(
        "  enable_charset_filter: false\n", "  enable_charset_filter: false\n" + TABLE_VARIANTS[sid][0])
    if sid == "c10_table_enc":
        # a comma commits the composition followed by '，' (a commit whose history ends with a punctuation record)
        y = y.replace("    - speller\n    - selector\n", "    - speller\n    - punctuator\n    - selector\n").replace(
            "    - abc_segmentor\n", "    - abc_segmentor\n    - punct_segmentor\n").replace(
            "    - table_translator\n", "    - punct_translator\n    - table_translator\n")
        assert y.count("punct") == 3
        y += "punctuator:\n  half_shape:\n    ',': { commit: '，' }\n  full_shape:\n    ',': { commit: '，' }\n"
    return y


SYLS = [c + v for c in "bcd" for v in "aei"]


def gen_script_dict(rng):
    """rows (text, [syllable...], weight) — distinct weights, homophones, 2-4 syllable phrases"""
    pool = CJK[:]
    rng.shuffle(pool)
    weights = list(range(1, 400))
    rng.shuffle(weights)
    rows, singles = [], {}
    for s in SYLS:
        if rng.random() < 0.12:
            continue                      # a syllable without any character: inputs through it have no full tiling text
        for _ in range(rng.choice([1, 2, 2, 3, 4])):
            t = pool.pop()
            singles.setdefault(s, []).append(t)
            rows.append((t, [s], weights.pop()))
    have = sorted(singles)
    seen = set()
    for _ in range(rng.choice([8, 12, 16])):
        n = rng.choice([2, 2, 2, 3, 3, 4])
        code = [rng.choice(have) for _ in range(n)]
        text = "".join(rng.choice(singles[s]) for s in code)
        if (text, tuple(code)) in seen:
            continue
        seen.add((text, tuple(code)))
        rows.append((text, code, weights.pop()))
    return rows


def gen_table_dict(rng):
    pool = CJK[:]
    rng.shuffle(pool)
    weights = list(range(1, 400))
    rng.shuffle(weights)
    rows, codes = [], set()
    for _ in range(rng.choice([10, 14, 18])):
        n = rng.choice([1, 1, 2, 2, 2, 3, 3])
        codes.add("".join(rng.choice("abcd") for _ in range(n)))
    for code in sorted(codes):
        for _ in range(rng.choice([1, 1, 2, 3])):
            rows.append((pool.pop(), [code], weights.pop()))
    # a few characters under a second code (the encoder then derives two codes for a phrase that contains one)
    for _ in range(rng.choice([0, 1, 2])):
        t, c, _ = rng.choice(rows)
        c2 = rng.choice(sorted(codes))
        if [c2] != c and not any(r[0] == t and r[1] == [c2] for r in rows):
            rows.append((t, [c2], weights.pop()))
    return rows


def enc_history(rng, rows):
    """directed at the encoder: phrases assembled from partial selections or taken as a composed sentence (stored under the
    encoded code), looked up by that code, committed from there (stored as a plain phrase), forgotten; runs of single-word
    commits (the commit history is encoded up to max_phrase_length)"""
    codes = sorted({c[0] for _, c, _ in rows})
    ops = []
    for _ in range(rng.choice([3, 4, 5])):
        r = rng.random()
        if r < 0.6:
            parts = [rng.choice(codes) for _ in range(rng.choice([2, 2, 3]))]
            x = "".join(parts)
            enc = "".join(p[0] for p in parts)
            ops.append("type " + x)
            if rng.random() < 0.6:
                for _ in range(len(parts)):
                    ops.append("select_part %d" % rng.choice([0, 0, 1]))
            ops += ["select_whole %d" % rng.choice([0, 0, 1]), "commit", "clear"]
            ops += ["type " + enc, "clear"]
            r2 = rng.random()
            if r2 < 0.5:
                ops += ["type " + enc, "select_user %d" % rng.choice([0, 0, 1]), "clear", "type " + enc, "clear"]
            elif r2 < 0.75:
                ops += ["type " + enc, "delete_user %d" % rng.choice([0, 0, 1]), "clear", "type " + enc, "clear"]
            if rng.random() < 0.4:
                ops += ["type " + x, "select_whole 0", "commit", "clear", "type " + enc, "clear"]
        else:
            run = [rng.choice(codes) for _ in range(rng.choice([2, 3, 4, 5]))]
            for cd in run:
                if rng.random() < 0.25:
                    ops += ["type " + cd, "key 44 0", "clear"]       # the comma commits the first candidate and '，'
                    continue
                ops += ["type " + cd, "select_whole %d" % rng.choice([0, 0, 1, 2]), "clear"]
                if rng.random() < 0.15:
                    ops += ["key %d 0" % rng.choice([ord("x"), BACKSPACE, 0xff0d])]
            for k in (2, 3, 4):
                if len(run) >= k:
                    ops += ["type " + "".join(cd[0] for cd in run[-k:]), "clear"]
            if rng.random() < 0.5:
                ops += ["type " + "".join(cd[0] for cd in run[-2:]), "select_user 0", "clear", "type " + "".join(cd[0] for cd in run[-2:]), "clear"]
        if rng.random() < 0.2:
            ops.append(rng.choice(["restart_session", "restart_service"]))
    return ops


def gen_table_dict_dense(rng):
    """a table whose codes crowd under one first letter: more than kInitialSearchLimit (10) learned phrases share a prefix, so
    the lazy translation has to fetch the predictive user phrases in several rounds (limit, resume key)"""
    pool = CJK[:]
    rng.shuffle(pool)
    weights = list(range(1, 400))
    rng.shuffle(weights)
    first = rng.choice("abcd")
    under = [first + x for x in "abcd"] + [first + x + y for x in "abcd" for y in "abcd"]
    codes = set(rng.sample(under, rng.choice([13, 15, 17]))) | {first}
    for _ in range(3):
        codes.add("".join(rng.choice("abcd") for _ in range(rng.choice([1, 2]))))
    rows = []
    for code in sorted(codes):
        for _ in range(rng.choice([1, 1, 1, 2])):
            rows.append((pool.pop(), [code], weights.pop()))
    return rows


def dense_history(rng, rows):
    """learn every code under the crowded letter, then look at the menus of its prefixes (exact user phrases, table entries,
    predictive user phrases in key order, table completions), forget and commit some from there, restart"""
    codes = sorted({c[0] for _, c, _ in rows})
    first = max("abcd", key=lambda ch: sum(1 for c in codes if c[0] == ch))
    mine = [c for c in codes if c[0] == first and len(c) > 1]
    rng.shuffle(mine)
    ops = []
    for i, code in enumerate(mine):
        ops += ["type " + code, "select_whole %d" % rng.choice([0, 0, 0, 1]), "clear"]
        if i in (8, 9, 10, 11):                       # around the first fetch limit
            ops += ["type " + first, "clear"]
    two = first + rng.choice("abcd")
    ops += ["type " + first, "clear", "type " + two, "clear"]
    ops += ["type " + first, "delete %d" % rng.randrange(0, 14), "clear", "type " + first, "clear"]
    ops += ["type " + first, "select %d" % rng.randrange(0, 16), "clear", "type " + first, "clear"]
    ops += ["type " + first, "delete_user %d" % rng.randrange(0, 3), "clear", "type " + two, "select %d" % rng.randrange(0, 6), "clear"]
    ops += ["restart_session", "type " + first, "clear", "type " + two, "clear"]
    # sentence mode over learned prefixes: two codes in a row have no entry of their own
    a, b = rng.choice(mine), rng.choice(mine)
    ops += ["type " + a + b, "select_part 0", "select_whole 0", "clear", "type " + a + b, "select_whole 0", "clear", "type " + a + b, "clear"]
    return ops


def dict_yaml(name, rows, encoder=False):
    return ("---\nname: %s\nversion: '1'\nsort: by_weight\nuse_preset_vocabulary: false\n%s...\n\n" % (name, ENCODER_RULES if encoder else "")
            + "".join("%s\t%s\t%d\n" % (t, " ".join(c), w) for t, c, w in rows))


def make_workspace(ws, script_rows=None, table_rows=None, luna=False):
    shutil.rmtree(ws, ignore_errors=True)
    os.makedirs(ws)
    ids = []
    if script_rows is not None:
        ids.append("c10_script")
        open(os.path.join(ws, "c10_script.schema.yaml"), "w").write(SCRIPT_SCHEMA)
        open(os.path.join(ws, "c10_script.dict.yaml"), "w").write(dict_yaml("c10_script", script_rows))
    if table_rows is not None:
        for sid in TABLE_VARIANTS:
            ids.append(sid)
            open(os.path.join(ws, sid + ".schema.yaml"), "w").write(table_schema(sid))
        open(os.path.join(ws, "c10_table.dict.yaml"), "w").write(dict_yaml("c10_table", table_rows, encoder=True))
    if luna:
        # the stock workspace, unchanged (default.yaml lists luna_pinyin first)
        src = os.path.join(vlib.REPO, "data", "minimal")
        for f in os.listdir(src):
            shutil.copy(os.path.join(src, f), ws)
        return ws
    open(os.path.join(ws, "default.yaml"), "w").write(
        "config_version: '1'\nschema_list:\n" + "".join("  - schema: %s\n" % i for i in ids) + "menu:\n  page_size: 5\n")
    return ws


def header(style, predict, rows):
    out = ["style " + style, "predict " + predict]
    if predict != "none":
        out += ["dict %s %s %d" % (hx(t), ",".join(hx(s) for s in c), w) for t, c, w in rows]
    return out


# ------------------------------------------------------------------ history generation
LUNA_INPUTS = ["nihao", "zhongguo", "xian", "women", "shijie", "ceshi", "pinyin", "shurufa", "haode", "xiexie", "ni", "hao",
               "wo", "zhong", "guo", "beijing", "tiananmen", "yigeren", "zaijian", "mingtian", "xianzai", "dajiahao", "shi",
               "de", "zhidao", "keyi", "women", "tamen", "shenme", "meiyou", "xihuan", "pengyou", "dianhua", "fangan"]


def gen_inputs(rng, kind, rows):
    if kind == "script":
        have = sorted({s for _, c, _ in rows for s in c})
        codes = [c for _, c, _ in rows]
        out = []
        for _ in range(10):
            r = rng.random()
            if r < 0.4:
                out.append("".join(rng.choice(codes)))
            elif r < 0.7:
                out.append("".join(rng.choice(codes)) + "".join(rng.choice(codes)))
            else:
                out.append("".join(rng.choice(SYLS) for _ in range(rng.choice([1, 2, 3, 4, 5]))))
        return out
    if kind == "table":
        codes = [c[0] for _, c, _ in rows]
        out = []
        for _ in range(10):
            r = rng.random()
            if r < 0.45:
                out.append(rng.choice(codes))
            elif r < 0.6:
                out.append(rng.choice(codes)[:-1] or rng.choice(codes))
            elif r < 0.9:
                out.append((rng.choice(codes) + rng.choice(codes) + rng.choice(["", rng.choice(codes)]))[:7])
            else:
                out.append("".join(rng.choice("abcd") for _ in range(rng.choice([1, 2, 3, 4]))))
        return out
    out = []
    for _ in range(8):
        r = rng.random()
        out.append(rng.choice(LUNA_INPUTS) if r < 0.6 else rng.choice(LUNA_INPUTS) + rng.choice(LUNA_INPUTS))
    return out


LUNA_LONG = [["tian", "an", "men", "yi", "ge", "ren"], ["zhong", "guo", "tian", "an", "men"], ["da", "jia", "hao", "peng", "you"],
             ["wo", "men", "xi", "huan", "bei", "jing"], ["ming", "tian", "zai", "jian", "peng", "you"],
             ["ta", "men", "hen", "hao", "ma"], ["ni", "hao", "ma", "wo", "hen", "hao"], ["wo", "men", "dou", "shi", "hao", "ren", "ma"]]


def luna_long_histories(rng, n):
    """directed: phrases of five and more syllables on the stock schema (completion enabled).  (1) assemble the phrase from
    partial selections (not the first candidates, so that sentence composition does not rebuild it), commit, type the whole
    input again: it must be offered as one candidate; (2) type only its first four syllables and commit the completion
    candidate: the count of the phrase's own record goes up, nothing else changes; (3) type the whole input again."""
    out = []
    for syl in rng.sample(LUNA_LONG, min(n, len(LUNA_LONG))):
        x = "".join(syl)
        ops = ["type " + x]
        for _ in range(len(syl)):
            ops.append("select_part %d" % rng.choice([1, 1, 2]))
        ops += ["select_whole %d" % rng.choice([0, 1]), "commit", "clear", "type " + x, "clear",
                "type " + "".join(syl[:4]), "select_completion 0", "commit", "clear", "type " + x, "select_whole 0", "commit", "clear",
                "restart_session", "type " + x, "clear", "type " + "".join(syl[:4]), "select_completion 0", "commit", "clear"]
        # (4) a commit followed AT ONCE by another commit, with no dictionary lookup in between (a punctuation key that commits
        # directly): both must be stored; (5) the learned phrase deleted from the menu of its four-syllable prefix, where it
        # is offered as a completion: marked deleted, no longer offered
        y = "".join(rng.choice(LUNA_LONG)[:3])
        ops += ["type " + y, "select_part 1", "select_part 1", "select_whole 1", "commit", "key 44 0", "clear", "type " + y, "clear",
                "type " + y, "select_whole 0", "commit", "key 46 0", "key 44 0", "clear", "type " + y, "clear",
                "type " + "".join(syl[:4]), "delete_completion 0", "clear", "type " + "".join(syl[:4]), "clear", "type " + x, "clear",
                "restart_session", "type " + x, "clear"]
        out.append(ops)
    return out


def gen_history(rng, kind, n_rounds, rows):
    """one learning history; every op is relative to the lists the real run shows (select the k-th whole/partial/user one)"""
    inputs = gen_inputs(rng, kind, rows)
    ops = []
    other_key = {"script": ord("x"), "table": ord("x"), "luna": ord("1")}[kind]
    for _ in range(n_rounds):
        inp = rng.choice(inputs)
        ops.append(("input " if rng.random() < 0.25 else "type ") + inp)
        r = rng.random()
        if r < 0.38:                                   # commit a whole-input candidate, type the same input again
            ops.append("select_whole %d" % rng.choice([0, 0, 1, 1, 2, 3, 5]))
            ops.append("clear")
            ops.append("type " + inp)
            r2 = rng.random()
            if r2 < 0.25:
                ops.append("select_whole %d" % rng.choice([0, 1, 2]))
            elif r2 < 0.4:
                ops.append("delete_user %d" % rng.choice([0, 0, 1]))
        elif r < 0.62:                                 # assemble from partial selections, then type the whole input again
            for _ in range(rng.choice([1, 1, 2, 3])):
                ops.append("select_part %d" % rng.choice([0, 0, 1, 2, 4]))
            ops.append(rng.choice(["select_whole 0", "select_whole 0", "select_whole 1", "select_part 0", "commit"]))
            ops.append(rng.choice(["select_whole 0", "commit", "clear"]))
            ops.append("clear")
            ops.append("type " + inp)
        elif r < 0.76:                                 # forget
            ops.append(rng.choice(["delete_user 0", "delete_user 1", "delete 0", "delete %d" % rng.randrange(6), "ctrl_delete %d" % rng.randrange(3)]))
            if rng.random() < 0.5:
                ops.append("clear")
                ops.append("type " + inp)
                if rng.random() < 0.5:
                    ops.append("select_whole %d" % rng.choice([0, 1, 2]))   # commit it again: revive
        elif r < 0.82:
            ops.append("commit")                       # commit_composition without a selection
        elif r < 0.88:
            ops.append("select %d" % rng.choice([0, 1, 2, 7, 30]))
        else:
            ops.append("select_whole 0")
            ops.append("clear")
            ops.append("clock %d" % rng.choice([0, 1, 3, 4, 10]))
            ops.append("key %d %d" % (rng.choice([BACKSPACE, BACKSPACE, other_key, 0xff0d]), rng.choice([0, 0, 0, 1, 4])))
        ops.append("clear")
        r = rng.random()
        if r < 0.07:
            ops.append("restart_session")
        elif r < 0.11:
            ops.append("restart_service")
        elif r < 0.16 and kind != "luna":              # an unrecognized segment in the middle of a composition
            a, b = rng.choice(inputs), rng.choice(inputs)
            ops.append("input %s-%s" % (a, b))
            ops.append(rng.choice(["select_whole 0", "select_part 0"]))
            ops.append("key 32 0")
            ops.append(rng.choice(["select_part 0", "select_whole 0"]))
            ops.append("select_whole 0")
            ops.append("select_whole 0")
            ops.append("clear")
            ops.append("type " + b)
            ops.append("clear")
    return ops


# ------------------------------------------------------------------ running both sides
def build():
    exe, bdir = vlib.build_harness("c10_harness", "san", ["c10_harness.cc"], extra=["-fno-access-control"])
    rc, out = vlib.lake_build(["driver_c10"])
    if rc != 0:
        raise vlib.BuildError("driver_c10 does not build: " + out[-3000:])
    return exe


def run_impl(c, exe, ws, schema, histories, tag):
    """histories: list of op lists; each starts from fresh user dictionaries.  Returns (rc, lines)."""
    p = os.path.join(c.work, "%s.script" % tag)
    with open(p, "w") as f:
        for h in histories:
            f.write("reset\n" + "\n".join(h) + "\n")
    rc, out = vlib.sh([exe, ws, p, schema], env=vlib.SAN_ENV, timeout=3000)
    return rc, out.splitlines()


def split_ops(lines):
    """group harness / driver output by `# op n` markers"""
    ops, cur = [], None
    for l in lines:
        if l.startswith("# op "):
            cur = {"n": int(l.split(" ")[2]), "op": " ".join(l.split(" ")[3:]), "lines": []}
            ops.append(cur)
        elif cur is not None and (l[:2] in ("E ", "R ", "O ", "M ") or l == "bad-op"):
            cur["lines"].append(l)
    return ops


def parse_db(line):
    """`O db …` / `M db …` -> dict(tick, member, intxn, rows{(code,text): (c, d, t)})"""
    w = line.split(" ")
    if len(w) >= 3 and w[2] == "none":
        return None
    d = {"rows": {}}
    for t in w[2:]:
        if "=" in t and "|" not in t:
            k, v = t.split("=", 1)
            d[k] = v
        elif "|" in t:
            f = t.split("|")
            if len(f) != 5:
                d["rows"][("?", t)] = (0, 0.0, 0)
                continue
            dee = struct.unpack("<d", struct.pack("<Q", int(f[3])))[0] if line.startswith("M ") else float(f[3])
            d["rows"][(f[0], f[1])] = (int(f[2]), dee, int(f[4]))
    return d


def db_equal(a, b):
    if a is None or b is None:
        return a is b, "presence"
    for k in ("tick", "member", "intxn"):
        if a.get(k) != b.get(k):
            return False, "%s impl=%s model=%s" % (k, a.get(k), b.get(k))
    if set(a["rows"]) != set(b["rows"]):
        diff = set(a["rows"]) ^ set(b["rows"])
        return False, "keys differ: " + ", ".join("%s/%s" % (k[0], show(k[1])) for k in sorted(diff)[:4])
    for k, (c1, d1, t1) in a["rows"].items():
        c2, d2, t2 = b["rows"][k]
        if c1 != c2 or t1 != t2:
            return False, "record %s/%s impl c=%d t=%d model c=%d t=%d" % (k[0], show(k[1]), c1, t1, c2, t2)
        if abs(d1 - d2) > 1e-5 * max(1.0, abs(d1)):
            return False, "record %s/%s dee impl=%r model=%r" % (k[0], show(k[1]), d1, d2)
    return True, ""


def parse_cands(line):
    """`O cands …` -> dict(input, seg, cands[(text, type, start, end, code, origin)])"""
    w = line.split(" ")
    d = {"cands": [], "input": "-", "seg": None}
    for t in w[2:]:
        if t.startswith("input="):
            d["input"] = t[6:]
        elif t.startswith("seg=") and t != "seg=-":
            d["seg"] = tuple(int(x) for x in t[4:].split(","))
        elif t.count(":") == 5:
            f = t.split(":")
            d["cands"].append((f[0], f[1], int(f[2]), int(f[3]), f[4], f[5]))
    return d


CLS = {"user_phrase": "u", "user_table": "u", "phrase": "s", "table": "s", "sentence": "t"}


def impl_cand_proj(cd):
    out = []
    for text, typ, start, end, code, origin in cd["cands"]:
        cls = CLS.get(typ) or ("u" if origin == "u" else "s")
        out.append("%s:%s:%d" % (text, cls, end))
    return out


class Eval:
    """evaluates one history: correspondence (K) and the property clauses on the implementation's outputs (O)"""

    def __init__(self, style):
        self.style = style
        self.diffs = []        # (op_no, kind, detail)
        self.viols = []        # (op_no, clause, detail)
        self.stats = {"ops": 0, "commits": 0, "commit_entries": 0, "multi_seg_commits": 0, "deletes": 0, "reverts": 0,
                      "rank_checks": 0, "assembled_checks": 0, "hidden_checks": 0, "lists_compared": 0, "db_compared": 0,
                      "plus_one_checks": 0, "frame_checks": 0, "revives": 0, "lists_with_user": 0, "lost_updates": 0}
        self.nontrivial = set()

    def run(self, iops, mops):
        prev_db = None           # implementation dump after the previous op
        prev_cands = None
        pend = None              # pending commit: dict(d0, updates, now)
        rank_watch = None        # (input, text, position) after a whole-input commit
        asm_watch = None         # (input, text) after an assembled commit
        for i, io in enumerate(iops):
            self.stats["ops"] += 1
            mo = mops[i] if i < len(mops) else {"lines": [], "op": "?"}
            il, ml = io["lines"], mo["lines"]
            if "bad-op" in ml:
                self.diffs.append((i, "bad-op", "the model rejects an event line of op `%s`" % io["op"]))
            idb = next((parse_db(l) for l in il if l.startswith("O db")), None)
            mdb = next((parse_db(l) for l in ml if l.startswith("M db")), None)
            icl = next((l for l in il if l.startswith("O cands")), None)
            mcl = next((l for l in ml if l.startswith("M cands")), None)
            icd = parse_cands(icl) if icl else {"cands": [], "input": "-", "seg": None}
            # ---- K: grouping, db, list
            r_mem = [l[2:] for l in il if l.startswith("R memorize translator ")]
            m_mem = [l[2:] for l in ml if l.startswith("M memorize ")]
            if self.style == "table":
                # TableTranslator::Memorize never looks at the commit entry's own code (user-table entries carry no syllable ids)
                blank = lambda x: " ".join(x.split(" ")[:3] + ["*"] + x.split(" ")[4:])
                r_mem, m_mem = [blank(x) for x in r_mem], [blank(x) for x in m_mem]
            if r_mem != m_mem:
                self.diffs.append((i, "grouping", "Memorize calls differ: impl %s model %s" % (r_mem[:3], m_mem[:3])))
            # the EncodePhrase calls of a table translator with encoder: which phrases, with which value, in which order
            r_enc = [" ".join(l.split(" ")[2:4]) for l in il if l.startswith("E encode_phrase ")]
            m_enc = [l[len("M encode_phrase "):] for l in ml if l.startswith("M encode_phrase ")]
            if r_enc != m_enc:
                self.diffs.append((i, "encode-calls", "EncodePhrase calls differ: impl %s model %s" % (
                    ["%s/%s" % (show(x.split(" ")[0]), x.split(" ")[1]) for x in r_enc[:6]],
                    ["%s/%s" % (show(x.split(" ")[0]), x.split(" ")[1]) for x in m_enc[:6]])))
            self.stats["encode_calls"] = self.stats.get("encode_calls", 0) + len(r_enc)
            for l in il:
                if l.startswith("E history "):
                    hw = l.split(" ")
                    if len(hw) >= 5 and hw[-2] == "punct":
                        self.stats["commits_after_punctuation"] = self.stats.get("commits_after_punctuation", 0) + 1
            ok, why = db_equal(idb, mdb)
            self.stats["db_compared"] += 1
            if not ok:
                self.diffs.append((i, "db", why))
            if mcl and mcl != "M cands -":
                self.stats["lists_compared"] += 1
                want = mcl.split(" ")[3:]
                got = impl_cand_proj(icd)
                if want != got:
                    self.diffs.append((i, "cands", "input %s: impl [%s] model [%s]" % (
                        show(icd["input"]), " ".join("%s:%s" % (show(x.split(":")[0]), x.split(":", 1)[1]) for x in got[:8]),
                        " ".join("%s:%s" % (show(x.split(":")[0]), x.split(":", 1)[1]) for x in want[:8]))))
            # ---- O: clauses on the implementation's outputs, event by event
            flushed = None
            delete_ev = None
            delete_req = None
            for l in il:
                w = l.split(" ")
                if l.startswith("E commit"):
                    if pend:
                        flushed = pend
                    ups = next((x for x in ml if x.startswith("M updates")), "M updates").split(" ")[2:]
                    pend = {"updates": [tuple(u.split("|")) for u in ups], "now": int(w[2]), "op": i, "d0": None}
                    self.stats["commits"] += 1
                    self.stats["commit_entries"] += len(m_mem)
                    segs = self.parse_segs(w[4:], int(w[3]))
                    if any(sg[3].startswith(ENC_PREFIX) for sg in segs):
                        self.stats["constructed_committed"] = self.stats.get("constructed_committed", 0) + 1
                    if len([s for s in segs if s[1] in "ps"]) > 1:
                        self.stats["multi_seg_commits"] += 1
                    rank_watch, asm_watch = self.watch(segs, prev_cands, m_mem, rank_watch, asm_watch)
                elif l.startswith("E query") and w[2] == "translator" or l.startswith("E close") and w[2] == "translator":
                    if pend and pend["d0"] is not None:
                        flushed, pend = pend, None
                elif l.startswith("E unhandled"):
                    if pend and pend["d0"] is not None and int(w[3]) // 2 == 0:
                        if int(w[2]) == BACKSPACE and int(w[4]) - pend["now"] <= 3:
                            self.stats["reverts"] += 1
                            pend = None
                        else:
                            flushed, pend = pend, None
                elif l.startswith("E delete_req"):
                    delete_req = (w[2], w[4], w[3]) if len(w) > 4 else None
                elif l.startswith("E delete") and w[2] in "ps":
                    delete_ev = (w[4], w[3])
                    # the entry the notifier finds selected is the one the call named by its index
                    if delete_req and delete_req[0] in "ps" and delete_req[1:] != delete_ev:
                        self.viols.append((i, "delete:wrong-candidate", "delete_candidate named %s/%s but %s/%s is the one being deleted" % (
                            delete_req[1], show(delete_req[2]), delete_ev[0], show(delete_ev[1]))))
            if pend and pend["d0"] is None:
                pend["d0"] = idb       # durable state the transaction started from (the previous one was flushed by StartSession)
            if flushed and flushed["d0"] is not None and idb is not None and delete_ev is None:
                self.check_commit(i, flushed, idb)
            if delete_ev and prev_db is not None and idb is not None and flushed is None:
                self.check_delete(i, delete_ev, prev_db, idb)
            if idb is not None:
                self.check_hidden(i, icd, idb)
            # rank / assembled: the same input typed again right after the commit
            if io["op"].startswith(("type ", "input ")) and (rank_watch or asm_watch):
                if rank_watch and rank_watch[3] < i:
                    inp, text, pos, _, table_sentence = rank_watch
                    if icd["input"] == inp:
                        self.stats["rank_checks"] += 1
                        now_pos = next((k for k, cnd in enumerate(icd["cands"]) if cnd[0] == text), None)
                        self.nontrivial.add(("rank", inp, text, pos, now_pos))
                        if now_pos is None or now_pos > pos:
                            # the recorded open finding, narrowly: table style, the committed candidate was a composed sentence
                            # (no phrase stored), and sentence composition now offers another text for the whole input
                            recomposed = table_sentence and any(cnd[1] == "sentence" and cnd[0] != text and cnd[3] == len(unhex(inp))
                                                                for cnd in icd["cands"][:1])
                            # a second narrow case, table style with the encoder: the committed candidate was a composed sentence, and
                            # a constructed phrase (an encoded commit or commit-history phrase) now matches the whole input exactly,
                            # so that no sentence is composed for it at all
                            displaced = table_sentence and not recomposed and all(cnd[1] != "sentence" for cnd in icd["cands"]) and \
                                any(cnd[4].startswith(ENC_PREFIX) and cnd[3] == len(unhex(inp)) for cnd in icd["cands"])
                            self.viols.append((i, "rank:worse:table-sentence-recomposed" if recomposed else
                                               "rank:worse:table-sentence-displaced-by-constructed" if displaced else "rank:worse", "after committing %s for input %s (offered at position %d) it is now %s" % (
                                show(text), show(inp), pos, "not offered" if now_pos is None else "at position %d" % now_pos)))
                    rank_watch = None
                if asm_watch and asm_watch[2] < i:
                    inp, text, _ = asm_watch
                    if icd["input"] == inp:
                        self.stats["assembled_checks"] += 1
                        self.nontrivial.add(("assembled", inp, text))
                        whole = [cnd for cnd in icd["cands"] if cnd[0] == text and cnd[2] == 0 and cnd[3] == len(unhex(inp))]
                        if not whole:
                            self.viols.append((i, "assembled:not-offered", "phrase %s assembled from partial selections and committed is not "
                                               "offered as one candidate for the whole input %s" % (show(text), show(inp))))
                    asm_watch = None
            elif not io["op"].startswith(("clear", "select", "commit", "clock")):
                rank_watch = asm_watch = None
            prev_db = idb if idb is not None else prev_db
            prev_cands = icd

    @staticmethod
    def parse_segs(w, n):
        """[(status, kind, text, code)]"""
        out, k = [], 0
        for _ in range(n):
            status, kind, text, code = int(w[k]), w[k + 1], w[k + 2], w[k + 3]
            k += 4
            if kind == "s":
                k += 1 + 2 * int(w[k])
            out.append((status, kind, text, code))
        return out

    def watch(self, segs, prev_cands, m_mem, rank_watch, asm_watch):
        """decide what the commit just made lets us demand of the next list for the same input"""
        real = [s for s in segs if not (s[1] == "n" and s[0] < 2)]
        if not prev_cands or prev_cands["input"] == "-":
            return rank_watch, asm_watch
        inp = prev_cands["input"]
        # the whole input was covered by one selected candidate taken from the list shown before (literal reading: a dictionary
        # entry or a composed sentence, in either style)
        if len(real) == 1 and real[0][1] in "ps" and real[0][0] == 3 and prev_cands["seg"] and prev_cands["seg"][0] == 0:
            text = real[0][2]
            pos = next((k for k, cnd in enumerate(prev_cands["cands"]) if cnd[0] == text and cnd[3] == len(unhex(inp))), None)
            if pos is not None:
                # table style without encoder stores no phrase for a composed sentence (only +1 on its elements)
                table_sentence = self.style == "table" and real[0][1] == "s" and prev_cands["cands"][pos][1] == "sentence"
                return (inp, text, pos, self.stats["ops"] - 1, table_sentence), None
        # assembled from several selections, all recognized, saved as one entry (script style stores the concatenation)
        if len(real) >= 2 and all(s[1] in "ps" for s in real) and real[-1][0] == 3 and all(s[0] >= 2 for s in real) \
                and self.style == "script" and len(m_mem) == 1:
            text = "".join(s[2] for s in real)
            return None, (inp, text, self.stats["ops"] - 1)
        return rank_watch, asm_watch

    def check_commit(self, i, pend, d1):
        d0 = pend["d0"]
        # records under the encoder's prefix are auxiliary (constructed phrases: rewritten from a fresh value by every
        # encoding, never counted up): the clauses speak about the entries committed, which are stored under plain keys
        aux = lambda k: k[0].startswith(ENC_PREFIX)
        committed = {(c, t) for c, t, n in pend["updates"] if int(n) > 0 and not aux((c, t))}
        touched = {(c, t) for c, t, n in pend["updates"] if int(n) == 0 and not aux((c, t))}
        self.stats["constructed_written"] = self.stats.get("constructed_written", 0) + sum(1 for c, t, n in pend["updates"] if aux((c, t)))
        # every commit entry (script) / picked element (table) that carries the key raises it by one; the first raise
        # revives a deleted record: c -> |c| + m
        for k in sorted(committed):
            self.stats["plus_one_checks"] += 1
            c0 = d0["rows"].get(k, (0, 0.0, 0))[0]
            c1 = d1["rows"].get(k, (None,))[0]
            m = sum(1 for c, t, n in pend["updates"] if (c, t) == k and int(n) > 0)
            if c0 < 0:
                self.stats["revives"] += 1
            if m > 1:
                self.stats["multi_commits_of_one_key"] = self.stats.get("multi_commits_of_one_key", 0) + 1
            self.nontrivial.add(("commit", k, c0, m))
            if c1 != abs(c0) + m:
                lost = k in touched and c1 is not None and c1 < abs(c0) + m
                if lost:
                    self.stats["lost_updates"] += 1
                self.viols.append((i, "commit:plus-one:lost-update" if lost else "commit:plus-one", "committed entry %s/%s: stored count %s -> %s, "
                                   "expected %d (committed %d time(s) in this commit)%s" % (
                    k[0], show(k[1]), c0, c1, abs(c0) + m, m,
                    "; the same key is also touched with commits 0 as an element of a commit entry of this commit" if k in touched else "")))
        for k in sorted(set(d0["rows"]) | set(d1["rows"])):
            if k in committed or aux(k):
                continue
            self.stats["frame_checks"] += 1
            a, b = d0["rows"].get(k), d1["rows"].get(k)
            if k in touched:
                if (a[0] if a else 0) != (b[0] if b else None):
                    self.viols.append((i, "commit:frame", "element %s/%s touched with commits 0 changed its count %s -> %s" % (
                        k[0], show(k[1]), a and a[0], b and b[0])))
            elif a != b:
                self.viols.append((i, "commit:frame", "entry %s/%s is not among the committed entries but changed %s -> %s" % (
                    k[0], show(k[1]), a, b)))

    def check_delete(self, i, key, d0, d1):
        self.stats["deletes"] += 1
        if key[0].startswith(ENC_PREFIX):
            self.stats["constructed_deleted"] = self.stats.get("constructed_deleted", 0) + 1
        c0 = d0["rows"].get(key, (0, 0.0, 0))[0]
        c1 = d1["rows"].get(key, (None,))[0]
        self.nontrivial.add(("delete", key, c0))
        learned = key in d0["rows"]     # the clause is about a learned phrase: one the stored dictionary holds
        if not learned:
            # a system phrase or a composed sentence: nothing of the property is at stake; a record that appears must be a deletion mark
            if c1 is not None and c1 >= 0:
                self.viols.append((i, "delete:marks", "deleting %s/%s created a visible record c=%d" % (key[0], show(key[1]), c1)))
        elif c1 != min(-1, -c0):
            self.viols.append((i, "delete:marks", "deleting %s/%s: stored count %s -> %s, expected %d" % (key[0], show(key[1]), c0, c1, min(-1, -c0))))
        for k in sorted(set(d0["rows"]) | set(d1["rows"])):
            if k != key and d0["rows"].get(k) != d1["rows"].get(k):
                self.viols.append((i, "delete:frame", "deleting %s/%s changed %s/%s" % (key[0], show(key[1]), k[0], show(k[1]))))

    def check_hidden(self, i, icd, db):
        user = [cnd for cnd in icd["cands"] if cnd[1] in ("user_phrase", "user_table") or cnd[5] == "u"]
        if user:
            self.stats["lists_with_user"] += 1
        for text, typ, start, end, code, origin in user:
            self.stats["hidden_checks"] += 1
            if code.startswith(ENC_PREFIX):
                self.stats["constructed_offered"] = self.stats.get("constructed_offered", 0) + 1
            rec = db["rows"].get((code, text))
            if rec is None:
                self.viols.append((i, "lookup:phantom", "candidate %s/%s of type %s has no record in the user db" % (code, show(text), typ)))
            elif rec[0] < 0:
                self.viols.append((i, "lookup:deleted-offered", "entry %s/%s is marked deleted (c=%d) but offered as %s" % (
                    code, show(text), rec[0], typ)))


def evaluate(style, impl_lines, model_lines):
    iops, mops = split_ops(impl_lines), split_ops(model_lines)
    # histories are separated by `reset`
    hs, cur = [], None
    for io, mo in zip(iops, mops + [{"lines": [], "op": "?"}] * (len(iops) - len(mops))):
        if io["op"] == "reset":
            cur = ([], [])
            hs.append(cur)
        if cur is None:
            cur = ([], [])
            hs.append(cur)
        cur[0].append(io)
        cur[1].append(mo)
    res = []
    for i_ops, m_ops in hs:
        ev = Eval(style)
        ev.run(i_ops, m_ops)
        res.append(ev)
    return res


def run_batch(c, exe, ws, schema, style, predict, rows, histories, tag):
    rc, impl = run_impl(c, exe, ws, schema, histories, tag)
    # (`E delete_req` is the harness's note of which candidate a delete call named: for the monitor, not an engine event)
    model_in = "\n".join(header(style, predict, rows) + [l for l in impl if not l.startswith("E delete_req")]) + "\n"
    model = vlib.run_driver("driver_c10", model_in).splitlines()
    evs = evaluate(style, impl, model)
    return rc, impl, model, evs


# ------------------------------------------------------------------ shrinking
def ddmin(ops, fails, budget=40):
    n, evals = 2, 0
    while len(ops) >= 2 and evals < budget:
        chunk = max(1, len(ops) // n)
        reduced = False
        for i in range(0, len(ops), chunk):
            cand = ops[:i] + ops[i + chunk:]
            evals += 1
            if cand and fails(cand):
                ops, n, reduced = cand, max(n - 1, 2), True
                break
            if evals >= budget:
                break
        if not reduced:
            if chunk == 1:
                break
            n = min(len(ops), n * 2)
    return ops


def known_open(clause):
    k = vlib.known_status("C10", "C10:" + clause)
    return bool(k and k.get("status") == "open")


def problems(ev):
    """what a history shows, one per distinct clause: property violations first; a model/implementation difference only
    when no violation other than a recorded open finding explains it"""
    out, seen = [], set()
    for v in ev.viols:
        if v[1] not in seen:
            seen.add(v[1])
            out.append(("viol", v[1], v[0], v[2]))
    if ev.diffs and not any(not known_open(p[1]) for p in out):
        d = ev.diffs[0]
        out.append(("diff", d[1], d[0], d[2]))
    return out


def first_problem(ev):
    ps = problems(ev)
    return ps[0] if ps else None


def has_problem(ev, kind, clause):
    return any(p[0] == kind and p[1] == clause for p in problems(ev))


def run_one(c, exe, ws, schema, style, predict, rows, ops, tag="one"):
    rc, impl, model, evs = run_batch(c, exe, ws, schema, style, predict, rows, [ops], tag)
    ev = evs[0] if evs else Eval(style)
    return rc, ev, impl


def report_history(c, exe, ws, schema, style, predict, rows, ops, prob, kindname, rc=0):
    """shrink a failing history and report it"""
    kind, clause = prob[0], prob[1]

    def fails(t):
        r, ev, _ = run_one(c, exe, ws, schema, style, predict, rows, t, "sh")
        return has_problem(ev, kind, clause)
    small = ddmin(list(ops[:]), fails)
    r, ev, impl = run_one(c, exe, ws, schema, style, predict, rows, small, "sh")
    p = next((q for q in problems(ev) if q[0] == kind and q[1] == clause), prob)
    replay = {"schema": schema, "style": style, "predict": predict, "dict_kind": kindname,
              "dict": [[t, cd, w] for t, cd, w in rows] if kindname != "luna" else [], "ops": small, "clause": p[1], "detail": p[3]}
    if p[0] == "viol":
        replay["kind"] = "impl-violation"
        c.report("C10:%s" % p[1], "%s (%s, %d calls: %s)" % (p[3], schema, len(small), "; ".join(small)[:300]), replay)
    else:
        # a model/implementation disagreement: look for a property violation on this history first (there is none, else
        # first_problem would have returned it) -> correspondence
        replay["kind"] = "correspondence"
        replay["broken"] = "correspondence driver_c10 vs c10_harness (%s)" % p[1]
        c.report("C10:correspondence:%s" % p[1],
                 "model and implementation disagree on %s after `%s`: %s (no property violation on the shrunk history)" % (
                     p[1], small[min(p[2] - 1, len(small) - 1)] if small else "?", p[3][:300]), replay, no_input=True)


# ------------------------------------------------------------------ the check
def corpus_cases():
    out = []
    d = os.path.join(vlib.CORPUS, "C10")
    for f in sorted(glob.glob(os.path.join(d, "*.json"))):
        try:
            out.append((os.path.basename(f), json.load(open(f))))
        except Exception:
            pass
    return out


def add_stats(total, ev):
    for k, v in ev.stats.items():
        total[k] = total.get(k, 0) + v


def run(c):
    quick = c.tier == "quick"
    audit = vlib.lean_audit("C10")
    if not quick and audit["ok"]:
        ok, log = vlib.leanchecker("RimeModel.Props.C10")
        if not ok:
            audit["ok"] = False
            audit["failures"].append(("RimeModel.Props.C10", "leanchecker: " + log))
    exe = build()
    n_dicts, n_hist, n_rounds = (3, 8, 10) if quick else (60, 30, 20)
    luna_hist, luna_rounds = (3, 6) if quick else (240, 14)
    total, nontrivial, samples = {}, set(), []
    crashes = 0
    kinds = [("script", "c10_script", "script", "script 2"), ("table", "c10_table", "table", "table")]
    n_var = 4 if quick else 10        # histories per dictionary on each table-translator variant
    batches = []
    # corpus first
    for name, case in corpus_cases():
        rows = [(t, cd, w) for t, cd, w in case.get("dict", [])]
        batches.append((case["dict_kind"], case["schema"], case["style"], case["predict"], rows, [case["ops"]], "corpus:" + name))
    for d in range(n_dicts):
        for kindname, schema, style, predict in kinds:
            rows = gen_script_dict(c.rng) if kindname == "script" else gen_table_dict(c.rng)
            hs = [gen_history(c.rng, kindname, n_rounds, rows) for _ in range(n_hist)]
            batches.append((kindname, schema, style, predict, rows, hs, "gen%d" % d))
            if kindname == "table":
                for sid, (_, pred) in TABLE_VARIANTS.items():
                    if sid != schema:
                        hs2 = [gen_history(c.rng, kindname, n_rounds, rows) for _ in range(n_var)]
                        if "enc" in sid:
                            hs2 += [enc_history(c.rng, rows) for _ in range(n_var)]
                        batches.append((kindname, sid, style, pred, rows, hs2, "gen%d:%s" % (d, sid)))
    for d in range(1 if quick else 6):
        rows = gen_table_dict_dense(c.rng)
        for sid, (_, pred) in TABLE_VARIANTS.items():
            batches.append(("table", sid, "table", pred, rows, [dense_history(c.rng, rows) for _ in range(2 if quick else 4)],
                            "dense%d:%s" % (d, sid)))
    luna_hs = luna_long_histories(c.rng, 4 if quick else 8) + [gen_history(c.rng, "luna", luna_rounds, []) for _ in range(luna_hist)]
    for k in range(0, len(luna_hs), 8):
        batches.append(("luna", "luna_pinyin", "script", "none", [], luna_hs[k:k + 8], "luna%d" % k))
    ws_luna = None
    sample_line = None
    ws_cache = {}            # one deployed workspace per generated dictionary (the table variants share it)
    for bi, (kindname, schema, style, predict, rows, hs, tag) in enumerate(batches):
        if kindname == "luna":
            if ws_luna is None:
                ws_luna = make_workspace(os.path.join(c.work, "ws_luna"), luna=True)
            ws = ws_luna
        elif id(rows) in ws_cache and not tag.startswith("corpus:"):
            ws = ws_cache[id(rows)]
        else:
            ws = make_workspace(os.path.join(c.work, "ws_%d" % bi),
                                script_rows=rows if kindname == "script" else None,
                                table_rows=rows if kindname == "table" else None)
            ws_cache[id(rows)] = ws
        if sample_line is None and kindname != "luna":
            hs = [hs[0] + ["sample %d" % (20000 if quick else 400000)]] + hs[1:]
        rc, impl, model, evs = run_batch(c, exe, ws, schema, style, predict, rows, hs, "b%d" % bi)
        if rc != 0 and any("error while loading shared libraries" in l for l in impl[:5]):
            # librime.so is being relinked by a concurrent build of the same flavour: wait for it (build() takes the lock), once
            exe = build()
            rc, impl, model, evs = run_batch(c, exe, ws, schema, style, predict, rows, hs, "b%d" % bi)
        if sample_line is None:
            sample_line = next((l for l in impl if l.startswith("O sample")), None)
        if rc != 0:
            crashes += 1
            # find the crashing history by running them one by one
            for h in hs:
                r1, ev1, impl1 = run_one(c, exe, ws, schema, style, predict, rows, h, "cr")
                if r1 != 0:
                    small = ddmin(list(h), lambda t: run_one(c, exe, ws, schema, style, predict, rows, t, "cr")[0] != 0, 30)
                    r2, ev2, impl2 = run_one(c, exe, ws, schema, style, predict, rows, small, "cr")
                    m = re.search(r"#\d+ \S+ in (.+?) /\S*?/src/([\w/\.]+):(\d+)", "\n".join(impl2))
                    frame = "%s@%s" % (m.group(1).split("(")[0].replace(" ", ""), m.group(2)) if m else "?"
                    c.report("C10:crash:%s" % frame, "learning history crashes / trips a sanitizer in %s (%s)" % (frame, schema),
                             {"kind": "impl-violation", "schema": schema, "style": style, "predict": predict, "dict_kind": kindname,
                              "dict": [[t, cd, w] for t, cd, w in rows], "ops": small, "log": "\n".join(impl2)[-2500:]})
                    break
            continue
        total["histories:" + schema] = total.get("histories:" + schema, 0) + len(hs)
        for h, ev in zip(hs, evs):
            add_stats(total, ev)
            nontrivial |= {(kindname,) + x for x in ev.nontrivial}
            for prob in problems(ev):
                sig = "C10:%s" % prob[1] if prob[0] == "viol" else "C10:correspondence:%s" % prob[1]
                if sig in c.known_hits or any(v[0] == sig for v in c.violations):
                    continue          # already reported (with its minimised witness) in this run
                report_history(c, exe, ws, schema, style, predict, rows, h, prob, kindname)
        if len(samples) < 5:
            k = next((i for i, l in enumerate(impl) if l.startswith("O db") and " n=0" not in l and "none" not in l), None)
            if k is not None:
                samples.append({"schema": schema, "db": impl[k][:300], "list": next((l for l in impl[k:] if l.startswith("O cands") and " n=0" not in l), "")[:300]})
    # hypothesis sampling on the real formulas
    smp = dict(re.findall(r"(\w+)=(\S+)", sample_line or ""))
    if smp and int(smp.get("gain_fail", "0")) > 0:
        c.report("C10:hypothesis:gain", "the order law assumed by rank_no_worse_partial fails on the real formula_d/formula_p: %s" %
                 unhex(smp.get("first", "-")).decode(), {"kind": "hypothesis", "sample": smp, "broken": "hypothesis `Gain` of C10.rank_no_worse_partial"},
                 no_input=True)
    if not audit["ok"] and not c.violations:
        c.report("C10:proof", "proof obligation no longer checks: %s" % "; ".join("%s: %s" % f for f in audit["failures"])[:600],
                 {"kind": "proof", "broken_theorems": audit["failures"], "lean_log": audit["log"][-3000:]}, no_input=True)
    cov = vlib.proof_cov(audit, "lake build RimeModel.Props.C10 && #print axioms (all theorems) && forbidden-token scan"
                         + ("" if quick else " && leanchecker RimeModel.Props.C10"),
                         vlib.STD_TRUSTED + ["LevelDB ordered iteration and atomic write batch", "sentence composition (Poet) and system "
                                             "dictionary order as oracles of the candidate-list prediction",
                                             "formula_d / formula_p order law (hypothesis, sampled)"])
    cov.update({"evaluations": total.get("ops", 0), "distinct_nontrivial": len(nontrivial),
                "rule": ("seeded learning histories through the API (type / set_input, select k-th whole or partial candidate, commit_composition, "
                         "delete_candidate / Control+Delete, BackSpace and other unhandled keys under a virtual clock, raw segments inside a "
                         "composition, session and service restarts, typing the same input again) on generated script- and table-style "
                         "dictionaries and on stock luna_pinyin, corpus first; after every call the durable user db is dumped and the "
                         "candidate list read; non-trivial = a commit raising a stored count, a deletion, a rank or assembled-phrase "
                         "re-typing check; distinct by (schema kind, clause, key or input, count/position before)"),
                "samples": samples, "histories": sum(len(b[5]) for b in batches), "batches": len(batches),
                "stats": total, "sanitizer_aborts": crashes, "formula_sampling": smp,
                "source_hash": vlib.source_hash(SRC_FILES), "proof_failures": audit["failures"]})
    c.cov = cov
    c.level = "proof"
    c.assumptions = ["weight order law `Gain` (a commit gains strictly on every entry that was not ahead) holds for formula_d/formula_p on reachable records",
                     "code spellings contain neither space nor tab (db key injective on (code, text))",
                     "one session at a time per user dictionary (tick_ is per UserDictionary object)",
                     "table_translator without encoder (enable_encoder: false) on the synthetic schema"]


def replay(c, r):
    if "ops" not in r:
        print("replay: this file names a broken obligation, no concrete history:", r.get("what"))
        return 1
    exe = build()
    rows = [(t, cd, w) for t, cd, w in r.get("dict", [])]
    kind = r["dict_kind"]
    ws = make_workspace(os.path.join(c.work, "ws"), script_rows=rows if kind == "script" else None,
                        table_rows=rows if kind == "table" else None, luna=kind == "luna")
    rc, ev, impl = run_one(c, exe, ws, r["schema"], r["style"], r["predict"], rows, r["ops"], "rp")
    for v in ev.viols[:5]:
        print("violation at op %d (%s): %s" % (v[0], v[1], v[2]))
    for d in ev.diffs[:5]:
        print("model/impl difference at op %d (%s): %s" % (d[0], d[1], d[2]))
    print("rc=%d ops=%d violations=%d differences=%d" % (rc, len(r["ops"]), len(ev.viols), len(ev.diffs)))
    return 1 if (rc != 0 or ev.viols or ev.diffs) else 0
