"""C11 — a kill at any instant leaves the user dictionary openable, whole commits intact."""
import os, sys, json, re, shutil, hashlib, concurrent.futures
import vlib

META = {
    "technique": ("Lean 4 refinement proof (write-batch/transaction state machine with crash transitions vs. a specification of "
                  "whole commits, for all histories and every crash position) + trace hook tying the real LevelDb calls to the "
                  "model + kill-point enumeration over every file-system mutation of real typing histories"),
    "level": "proof",
    "level_text": ("Theorem C11.durable_is_prefix_of_commits: for every history of protocol events (OnCommit with any updates, "
                   "query/unhandled-key/destructor flushes, BackSpace inside/outside the 3 s window on a virtual clock, writes "
                   "outside the commit path, close/open; several UserDictionary objects sharing one db) and a kill after ANY "
                   "number of the emitted LevelDb ops, the durable state is applyCommits of the first j commits made, "
                   "flushed <= j <= made, with made <= flushed+1 (at_most_last_missing), done growing only by whole commits "
                   "(done_grows_by_whole_commits) and every update of a commit going to the one open batch "
                   "(no_update_outside_txn_in_protocol); all by induction over unbounded histories. Tie to the code, re-run "
                   "every time: (i) with the RIME_VERIF_TXN hook, the trace of the real LevelDb::Begin/Commit/Abort/Update/Erase "
                   "calls of generated typing histories must equal what the model's emitOne predicts event by event, every "
                   "Fetch must return what Kv.fetch (pending batch over durable) returns, the "
                   "routing (batch vs db) of every write must be the model's, the trace must satisfy traceWellFormed, and the "
                   "model's durable state must equal the real one after every API call; (ii) kill-point runs: every file-system "
                   "mutation of the plain build is a kill point (all in thorough, stratified in quick, every one inside a batch "
                   "write always); a fresh process is _exit'ed there, another reopens the dictionary through "
                   "UserDictionary::Load (recovery task included) and its content must be one of the states the theorems allow."),
    "level_note": ("Trusted: Lean kernel; LevelDB applies a WriteBatch atomically and reopens/repairs to a prefix of its log; a "
                   "process kill loses no page-cache data (power loss is out of scope: the property says 'killed'); the harness' "
                   "in-executable interposer sees every write/pwrite/writev/fsync/fdatasync/rename/unlink/remove/rmdir/mkdir/"
                   "ftruncate/open(O_CREAT|O_TRUNC) issued through the PLT by librime, libleveldb and libstdc++ (stdio writes "
                   "from inside libc — LevelDB's LOG info file, glog — are not data and not counted). The hand-written model is "
                   "tied to the C++ by the trace + differential runs, bounded by the generator. Without the hook in the tree "
                   "only part (ii) runs, against the per-call states recorded from an uninterrupted run, and the evidence says "
                   "so. Values written by a commit (counts, dee, tick) are taken from the trace: their arithmetic is C10's."),
    "design_ref": "DESIGN.md §3 C11",
}

SRC_FILES = ["src/rime/dict/level_db.cc", "src/rime/dict/user_dictionary.cc", "src/rime/gear/memory.cc",
             "src/rime/dict/user_db_recovery_task.cc", "src/rime/dict/db.h", "src/rime/gear/script_translator.cc",
             "src/rime/gear/table_translator.cc", "src/rime/dict/user_db.cc"]

DEFAULT_YAML = "config_version: '1'\nschema_list:\n  - schema: c11\n"
SCHEMA_YAML = """schema:
  schema_id: c11
  name: c11
  version: '1'
engine:
  processors:
    - speller
    - punctuator
    - selector
    - navigator
    - express_editor
  segmentors:
    - abc_segmentor
    - punct_segmentor
    - fallback_segmentor
  translators:
    - punct_translator
    - script_translator
punctuator:
  half_shape:
    '/': ['、', '/', '÷']
    ',': { commit: '，' }
    '.': '。'
  full_shape:
    '/': ['、', '/', '÷']
    ',': { commit: '，' }
    '.': '。'
speller:
  alphabet: 'abcdefghijklmnopqrstuvwxyz'
  delimiter: " '"
translator:
  dictionary: c11
  enable_user_dict: true
menu:
  page_size: 5
"""
SYLLABLES = ["ja", "yi", "bi", "di", "go", "fu", "ka", "le", "mo", "nu", "pa", "re", "su", "te"]
DICT_ROWS = [("甲", "ja", 100), ("乙", "yi", 100), ("丙", "bi", 100), ("丁", "di", 100), ("戊", "go", 100), ("己", "fu", 100),
             ("假", "ja", 50), ("以", "yi", 50), ("比", "bi", 50), ("地", "di", 50), ("高", "go", 50), ("福", "fu", 50),
             ("甲乙", "ja yi", 10), ("丙丁", "bi di", 10), ("高福", "go fu", 10), ("甲乙丙", "ja yi bi", 5),
             # eight more syllables: a sentence over all fourteen makes ONE commit write more than a dozen records
             ("卡", "ka", 100), ("乐", "le", 100), ("墨", "mo", 100), ("奴", "nu", 100), ("怕", "pa", 100), ("热", "re", 100),
             ("苏", "su", 100), ("特", "te", 100), ("咖", "ka", 40), ("模", "mo", 40)]
DICT_YAML = ("---\nname: c11\nversion: \"1\"\nsort: by_weight\nuse_preset_vocabulary: false\n...\n\n"
             + "".join("%s\t%s\t%d\n" % r for r in DICT_ROWS))

XK_BACKSPACE, XK_RETURN, XK_ESCAPE, XK_SPACE = 0xff08, 0xff0d, 0xff1b, 0x20
SHIFT, CONTROL, RELEASE = 1, 4, 1 << 30
TICK_KEY = "012f7469636b"
DBNAME_KEY = "012f64625f6e616d65"


# ------------------------------------------------------------------ build / workspace
def hook_present():
    try:
        return ("RIME_VERIF_TXN" in open(os.path.join(vlib.REPO, "src/rime/dict/level_db.cc")).read() and
                "txn_hook" in open(os.path.join(vlib.REPO, "src/rime/verif_hooks.h")).read())
    except OSError:
        return False


def build(hook):
    return vlib.build_harness("c11_harness_hook" if hook else "c11_harness", "plain", ["c11_harness.cc"],
                              extra=(["-DC11_HAVE_TXN_HOOK"] if hook else []), libs=["-lleveldb"])


def make_template(c, exe):
    tpl = os.path.join(c.work, "tpl")
    shutil.rmtree(tpl, ignore_errors=True)
    os.makedirs(tpl)
    for name, text in (("default.yaml", DEFAULT_YAML), ("c11.schema.yaml", SCHEMA_YAML), ("c11.dict.yaml", DICT_YAML)):
        with open(os.path.join(tpl, name), "w") as f:
            f.write(text)
    rc, out = vlib.sh([exe, "deploy", tpl], env={"GLOG_minloglevel": "3"}, timeout=300)
    if rc != 0 or not os.path.exists(os.path.join(tpl, "build", "c11.table.bin")):
        raise vlib.BuildError("C11: deploying the synthetic schema failed (rc=%d): %s" % (rc, out[-2000:]))
    shutil.rmtree(os.path.join(tpl, "log"), ignore_errors=True)
    return tpl


# ------------------------------------------------------------------ history generator
def gen_history(rng, n_calls, reopen_bias=0.06):
    """A typing history in the harness' line protocol.  Steps: type syllables and commit (space / select), BackSpace
    after a commit inside or outside the 3 s window (explicit `tick`s), other unhandled keys, deletion of a
    candidate, several sessions on the one dictionary (shared db), destroying / recreating sessions (close/reopen)."""
    L, alive, cur = [], [], None

    def keys(s, mask=0):
        for ch in s:
            L.append("key %d %d" % (ord(ch), mask))

    def ensure_session():
        nonlocal cur
        if cur is None or not alive[cur]:
            live = [i for i, a in enumerate(alive) if a]
            if live and rng.random() < 0.7:
                cur = rng.choice(live)
                L.append("use %d" % cur)
            else:
                alive.append(True)
                cur = len(alive) - 1
                L.append("new")

    while len(L) < n_calls:
        ensure_session()
        r = rng.random()
        if r < 0.50:      # type and commit
            word = "".join(rng.choice(SYLLABLES) for _ in range(rng.choice([1, 1, 2, 2, 3])))
            if rng.random() < 0.08:
                # a long sentence: one commit that writes many records (the phrase and every word it was composed of)
                word = "".join(rng.sample(SYLLABLES, len(SYLLABLES)) + [rng.choice(SYLLABLES) for _ in range(rng.choice([0, 2, 4]))])
            if rng.random() < 0.3:
                # a punctuation with several candidates stays in the composition: the commit then memorises the phrase before
                # it and the phrase after it as two entries of ONE commit
                word += "/" + "".join(rng.choice(SYLLABLES) for _ in range(rng.choice([1, 2])))
                if rng.random() < 0.2:
                    word += "/" + rng.choice(SYLLABLES)
            keys(word)
            if rng.random() < 0.75:
                L.append("key %d 0" % XK_SPACE)
            else:
                L.append("select %d" % rng.randrange(0, 3))
                for _ in range(rng.randrange(0, 3)):
                    L.append("key %d 0" % XK_SPACE)
            if rng.random() < 0.25:
                # a punctuation that is committed directly: a second commit right behind the first, within the same second,
                # with nothing to store of its own — the key still has to make the first one durable
                for _ in range(rng.choice([1, 1, 2])):
                    L.append("key %d 0" % ord(rng.choice(",.")))
            if rng.random() < 0.4:
                if rng.random() < 0.8:
                    L.append("tick %d" % rng.choice([0, 1, 2, 3, 3, 4, 4, 5, 9]))
                L.append("key %d %d" % (XK_BACKSPACE, rng.choice([0, 0, 0, SHIFT, CONTROL])))
        elif r < 0.58:    # an unhandled key that is not BackSpace, modifiers, releases
            L.append(rng.choice(["key %d 0" % XK_RETURN, "key %d 0" % XK_ESCAPE, "key %d %d" % (XK_BACKSPACE, CONTROL),
                                 "key %d %d" % (ord("j"), RELEASE), "key %d %d" % (XK_RETURN, SHIFT)]))
        elif r < 0.66:
            L.append("tick %d" % rng.choice([1, 2, 3, 4, 7]))
        elif r < 0.76:    # delete a candidate (OnDeleteEntry: UpdateEntry(-1) outside the commit path)
            keys("".join(rng.choice(SYLLABLES) for _ in range(rng.choice([1, 2]))))
            L.append("delete %d" % rng.randrange(0, 3))
            L.append("key %d 0" % XK_ESCAPE)
        elif r < 0.86:    # another session on the same dictionary
            live = [i for i, a in enumerate(alive) if a]
            if len(live) < 3 and rng.random() < 0.5:
                alive.append(True)
                cur = len(alive) - 1
                L.append("new")
            elif len(live) > 1:
                cur = rng.choice([i for i in live if i != cur])
                L.append("use %d" % cur)
        elif r < 0.86 + reopen_bias + 0.04:   # destroy a session (the last one closes the db)
            live = [i for i, a in enumerate(alive) if a]
            k = rng.choice(live)
            alive[k] = False
            L.append("destroy %d" % k)
            if k == cur:
                cur = None
        else:
            L.append("commit")
    return L[:n_calls]


# ------------------------------------------------------------------ side log / driver output parsing
def model_op(name):
    return name not in ("commit.done", "open.fail", "fetch", "fetch.miss")


def parse_sidelog(text):
    """-> dict(hook, proto[list of lines for the driver], fs[list], dumps{call: dump}, calls[list of script lines],
    nops, killed(dict|None), total(int|None), seq[(kind, payload) for the determinism check])"""
    r = {"hook": None, "proto": [], "fs": [], "dumps": {}, "calls": [], "nops": 0, "killed": None, "total": None, "seq": [],
         "bad": []}
    call = -1
    for line in text.splitlines():
        p = line.split(" ")
        t = p[0]
        if t == "hook":
            r["hook"] = p[1] == "1"
        elif t == "call":
            call = int(p[1])
            r["calls"].append(" ".join(p[2:]))
            r["proto"].append(line)
            r["seq"].append(line)
        elif t == "op":
            if model_op(p[1]):
                r["nops"] += 1
            r["proto"].append(line)
            r["seq"].append(line)
        elif t in ("note", "end"):
            r["proto"].append(line)
            r["seq"].append(line if t == "note" else "end " + p[1])
        elif t == "dump":
            r["dumps"][call] = p[1] if len(p) > 1 else "-"
            r["proto"].append("dump")
        elif t == "fs":
            r["fs"].append({"n": int(p[1]), "call": p[2], "path": p[3], "len": int(p[4]), "in_commit": p[5] == "c1",
                            "api_call": call, "ops_before": r["nops"]})
        elif t == "killed":
            r["killed"] = dict(kv.split("=", 1) for kv in p[1:])
        elif t == "total":
            r["total"] = int(p[1].split("=")[1])
        elif t == "bad-op":
            r["bad"].append(call)
    return r


def parse_driver(text):
    D, routed_bad, evs, dumps, wf, bad = {0: "-"}, [], [], [], None, 0
    fetches, fetch_bad, fetch_batch = 0, [], 0
    for line in text.splitlines():
        p = line.split(" ")
        if p[0] == "st":
            i = int(p[1])
            kv = dict(x.split("=", 1) for x in p[2:])
            D[i] = kv["dur"]
            if kv["routed"] == "MISMATCH":
                routed_bad.append(i)
        elif p[0] == "ev":
            m = re.match(r"ev (\S+) (ok|MISMATCH) ops=(\d+)\.\.(\d+) expected=(\[.*?\]) got=(\[.*?\]) done=(\d+) made=(\d+) "
                         r"specdur=(\S+) specmade=(\S+)$", line)
            if not m:
                bad += 1
                continue
            evs.append({"kind": m.group(1), "ok": m.group(2) == "ok", "first": int(m.group(3)), "last": int(m.group(4)),
                        "expected": m.group(5), "got": m.group(6), "done": int(m.group(7)), "made": int(m.group(8)),
                        "specdur": m.group(9), "specmade": m.group(10)})
        elif p[0] == "fetch":
            fetches += 1
            fetch_batch += 1 if "src=batch" in p else 0
            if p[1] != "ok":
                fetch_bad.append(line)
        elif p[0] == "dump":
            dumps.append(p[1])
        elif p[0] == "wf":
            wf = p[1] == "true"
        elif p[0] == "bad-op":
            bad += 1
    return {"D": D, "routed_bad": routed_bad, "evs": evs, "dumps": dumps, "wf": wf, "bad": bad, "fetches": fetches,
            "fetch_bad": fetch_bad, "fetch_batch": fetch_batch}


def dump_dict(d):
    if d in ("-", "absent", "unopenable", "copy-failed", None):
        return {}
    return dict(kv.split(":", 1) for kv in d.split(","))


def canon(dd):
    return ",".join("%s:%s" % (k, dd[k]) for k in sorted(dd)) or "-"


def heal(d, meta_consts):
    """what UserDictionary::Load leaves of state d: Open re-creates the metadata when /db_name is missing, Load
    initialises /tick to 0 when there is none"""
    dd = dict(dump_dict(d))
    if DBNAME_KEY not in dd:
        dd.update(meta_consts)
    if TICK_KEY not in dd:
        dd[TICK_KEY] = "30"
    return canon(dd)


def proj(d):
    dd = dump_dict(d)
    return (tuple(sorted((k, v) for k, v in dd.items() if not k.startswith("01"))), dd.get(TICK_KEY, "30"))


# ------------------------------------------------------------------ runs
class Runner:
    def __init__(self, c, exe, tpl, hook):
        self.c, self.exe, self.tpl, self.hook = c, exe, tpl, hook
        self.n = 0

    def fresh(self, tag):
        self.n += 1
        d = os.path.join(self.c.work, "%s_%d" % (tag, self.n))
        shutil.rmtree(d, ignore_errors=True)
        os.makedirs(d)
        ws = os.path.join(d, "ws")
        shutil.copytree(self.tpl, ws)
        return d, ws

    def run_history(self, d, ws, hist, kill=None, torn=False, dumps=True):
        script = os.path.join(d, "script.txt")
        with open(script, "w") as f:
            f.write("\n".join(hist) + "\n")
        log = os.path.join(d, "side.log")
        cmd = [self.exe, "run", ws, script, log, os.path.join(d, "scratch")]
        if kill is not None:
            cmd += ["--kill", str(kill)]
        if torn:
            cmd += ["--torn"]
        if not dumps:
            cmd += ["--nodump"]
        rc, out = vlib.sh(cmd, env={"GLOG_minloglevel": "3"}, timeout=600)
        try:
            text = open(log, errors="replace").read()
        except OSError:
            text = ""
        return rc, out, text

    def verify(self, d, ws, cwd=None):
        rc, out = vlib.sh([self.exe, "verify", ws, "c11", os.path.join(d, "vscratch")], env={"GLOG_minloglevel": "3"},
                          timeout=600, cwd=cwd)
        r = {"rc": rc, "pre": None, "opened": False, "recovery": 0, "post": None, "usable": False, "raw": out[-1500:]}
        for line in out.splitlines():
            p = line.split(" ")
            if p[0] == "pre":
                r["pre"] = p[1]
            elif p[0] == "opened":
                r["opened"] = p[1] == "1"
                for kv in p[2:]:
                    if kv.startswith("recovery="):
                        r["recovery"] = int(kv.split("=")[1])
            elif p[0] == "post":
                r["post"] = p[1]
            elif p[0] == "usable":
                r["usable"] = p[1] == "1"
        return r


class Recording:
    """one uninterrupted run of a history: the side log, the model's view of it, the allowed states per kill point"""

    def __init__(self, R, hist):
        self.hist = hist
        d, ws = R.fresh("rec")
        rc, out, text = R.run_history(d, ws, hist)
        self.rc, self.out = rc, out
        self.log = parse_sidelog(text)
        self.ok = rc == 0 and self.log["total"] is not None
        self.drv = None
        if self.ok and R.hook:
            self.drv = parse_driver(vlib.run_driver("driver_c11", "\n".join(self.log["proto"]) + "\n"))
            self.ev_of_op = {}
            for i, e in enumerate(self.drv["evs"]):
                for o in range(e["first"], e["last"] + 1):
                    self.ev_of_op[o] = i
        final = None
        for k in sorted(self.log["dumps"]):
            final = self.log["dumps"][k]
        self.meta_consts = {k: v for k, v in dump_dict(final).items() if k.startswith("01") and k != TICK_KEY}
        self.final_real = "-" if final in (None, "absent", "unopenable", "copy-failed") else final
        self.dir, self.ws = d, ws

    def cleanup(self):
        shutil.rmtree(self.dir, ignore_errors=True)

    def real_dump(self, call):
        if call < 0:
            return "-"
        d = self.log["dumps"].get(call, "-")
        return "-" if d in ("absent", "unopenable", "copy-failed") else d

    def allowed(self, p, api_call):
        """states allowed for a kill with p model ops logged during API call api_call:
        (kv-level set, spec-level set) with the hook, (call-level projections,) without"""
        if self.drv:
            D = self.drv["D"]
            kv = {x for x in (D.get(max(p - 1, 0)), D.get(p)) if x is not None}
            if p == 0:
                spec = {"-"}
            else:
                e = self.ev_of_op.get(p)
                if e is None:
                    spec = set()
                else:
                    spec = {self.drv["evs"][e]["specdur"], self.drv["evs"][e - 1]["specdur"] if e > 0 else "-"}
            return kv, spec
        return {self.real_dump(api_call - 1), self.real_dump(api_call)}, None


def judge(rec, kl, v):
    """kl: parsed side log of the killed run, v: verify result.  -> (clause or None, detail)"""
    k = kl["killed"]
    p, api_call = kl["nops"], int(k["api_call"])
    kvset, spec = rec.allowed(p, api_call)
    det = {"ops_logged": p, "api_call": api_call, "call_line": rec.hist[api_call] if 0 <= api_call < len(rec.hist) else None,
           "fs_call": k.get("call"), "path": k.get("path"), "in_commit": k.get("in_commit"), "torn": k.get("torn"),
           "pre": v["pre"], "post": v["post"], "opened": v["opened"], "recovery": v["recovery"], "usable": v["usable"]}
    if not v["opened"] or v["post"] is None:
        det["verify_output"] = v["raw"]
        return "reopen-failed", det
    mc = rec.meta_consts
    if spec is not None:
        both = (kvset & spec) or spec
        det["allowed_kv"] = sorted(x for x in kvset if x is not None)
        det["allowed_spec"] = sorted(spec)
        healed_spec = {heal(x, mc) for x in spec}
        healed_both = {heal(x, mc) for x in both}
        if v["post"] not in healed_both:
            if v["post"] in {heal(x, mc) for x in kvset if x is not None} and v["post"] not in healed_spec:
                return "partial-commit", det
            return "not-a-commit-prefix", det
        if v["pre"] not in (None, "absent", "unopenable", "copy-failed") and v["pre"] not in both \
                and heal(v["pre"], mc) not in healed_both:
            return "on-disk-state", det
    else:
        allowed = {proj(heal(x, mc)) for x in kvset}
        det["allowed_calls"] = sorted(kvset)
        if proj(v["post"]) not in allowed:
            return "not-a-commit-prefix", det
    if not v["usable"]:
        return "unusable-after-reopen", det
    return None, det


def kill_once(R, rec, idx, torn):
    d, ws = R.fresh("kill")
    try:
        rc, out, text = R.run_history(d, ws, rec.hist, kill=idx, torn=torn, dumps=False)
        kl = parse_sidelog(text)
        if kl["killed"] is None:
            return {"idx": idx, "torn": torn, "fired": False, "rc": rc}
        # the killed run must have done what the recorded run did, up to the kill
        n = len(kl["seq"])
        same = kl["seq"] == rec.log["seq"][:n]
        v = R.verify(d, ws)
        clause, det = judge(rec, kl, v)
        return {"idx": idx, "torn": torn, "fired": True, "deterministic": same, "clause": clause, "detail": det,
                "in_commit": kl["killed"].get("in_commit") == "1", "recovery": v["recovery"],
                "was_torn": kl["killed"].get("torn") == "1", "fs_call": kl["killed"].get("call"),
                "path": kl["killed"].get("path")}
    finally:
        shutil.rmtree(d, ignore_errors=True)


def damage_once(R, rec):
    """not a kill: overwrite the MANIFEST of the final on-disk state with garbage, so that LevelDb::Open fails and
    UserDictionary::Load has to go through the recovery task (RepairDB, else rename-and-recreate + snapshot restore).
    Exercises the reopen path's recovery branch, which no kill point reaches while LevelDB keeps its promises."""
    dbdir = os.path.join(rec.ws, "c11.userdb")
    n = 0
    try:
        for fn in os.listdir(dbdir):
            if fn.startswith("MANIFEST-"):
                with open(os.path.join(dbdir, fn), "wb") as f:
                    f.write(b"\x00garbage")
                n += 1
    except OSError:
        return None
    if not n:
        return None
    v = R.verify(rec.dir, rec.ws)
    want = heal(rec.drv["D"][max(rec.drv["D"])] if rec.drv else rec.final_real, rec.meta_consts)
    clause = None
    if not v["opened"] or v["post"] is None:
        clause = "reopen-failed"
    elif (v["post"] != want) if rec.drv else (proj(v["post"]) != proj(want)):
        clause = "not-a-commit-prefix"
    elif not v["usable"]:
        clause = "unusable-after-reopen"
    return {"clause": clause, "recovery": v["recovery"], "post": v["post"], "want": want, "raw": v["raw"] if clause else None}


USERID_KEY = "012f757365725f6964"


def snapshot_of(state):
    """the uniform snapshot (TSV) UserDbHelper::UniformBackup writes for a dumped state"""
    dd = dump_dict(state)
    out = [b"# Rime user dictionary"]
    for k in sorted(dd):
        if k.startswith("01"):
            out.append(b"#@" + bytes.fromhex(k[2:]) + b"\t" + bytes.fromhex(dd[k]))
    for k in sorted(dd):
        if not k.startswith("01"):
            out.append(bytes.fromhex(k) + b"\t" + bytes.fromhex(dd[k]))
    return b"\n".join(out) + b"\n"


def prefix_states(rec):
    """the durable states whole commits produce along the recorded run (spec level with the hook, per API call without)"""
    if rec.drv:
        out = [e["specdur"] for e in rec.drv["evs"]]
    else:
        out = [rec.real_dump(k) for k in sorted(rec.log["dumps"])]
    seen, res = set(), []
    for x in out:
        if x not in seen and x not in (None, "-") and proj(x)[0]:      # (a state with at least one entry)
            seen.add(x)
            res.append(x)
    return res


def damage_unrepairable(R, rec, variant, rng, snapshot=None):
    """not a kill: the dictionary's directory is replaced by a regular file, so LevelDb::Open fails AND RepairDB fails; the
    recovery task has to move the wreck aside, create the dictionary anew and bring back what the snapshot in the sync
    directory holds (`<name>.userdb.txt`, else the old `<name>.userdb.snapshot`), if there is one.  variant: 'txt' | 'old' |
    'none'.  The snapshot planted is a state whole commits produced earlier in this run."""
    dbdir = os.path.join(rec.ws, "c11.userdb")
    states = prefix_states(rec)
    if not os.path.isdir(dbdir) or not states:
        return None
    shutil.rmtree(dbdir)
    with open(dbdir, "wb") as f:
        f.write(b"not a database\n")
    shutil.rmtree(dbdir + ".old", ignore_errors=True)
    uid = bytes.fromhex(rec.meta_consts.get(USERID_KEY, "756e6b6e6f776e")).decode("latin1")
    # (a process that runs no maintenance keeps the deployer's defaults: sync directory "sync" relative to the working
    # directory, user id "unknown")
    snap_state = None
    syncd = os.path.join(rec.ws, "sync", "unknown")
    shutil.rmtree(os.path.join(rec.ws, "sync"), ignore_errors=True)
    if variant != "none":
        snap_state = snapshot if snapshot in states else rng.choice(states)
        os.makedirs(syncd)
        with open(os.path.join(syncd, "c11.userdb.txt" if variant == "txt" else "c11.userdb.snapshot"), "wb") as f:
            f.write(snapshot_of(snap_state))
    v = R.verify(rec.dir, rec.ws, cwd=rec.ws)
    fresh = dict(rec.meta_consts)
    fresh[USERID_KEY] = "756e6b6e6f776e"          # the verifying process never ran the installation update: "unknown"
    want = dict(fresh)
    want.update(dump_dict(snap_state) if snap_state else {})
    if TICK_KEY not in want:
        want[TICK_KEY] = "30"
    want = canon(want)
    allowed = {proj(x) for x in states} | {proj("-")}
    clause = None
    if not v["opened"] or v["post"] is None:
        clause = "reopen-failed"
    elif proj(v["post"]) not in allowed:
        clause = "not-a-commit-prefix"
    elif not v["usable"]:
        clause = "unusable-after-reopen"
    elif v["post"] != want:
        clause = "snapshot-not-restored"
    elif not os.path.isfile(dbdir + ".old"):
        clause = "wreck-not-kept"
    return {"clause": clause, "variant": variant, "recovery": v["recovery"], "post": v["post"], "want": want,
            "snapshot": snap_state, "raw": v["raw"] if clause else None}


def pick_kills(rec, quick, rng, budget):
    """kill indices (idx, torn).  Always: every mutation inside a batch write and every write to a LevelDB log
    (direct puts); thorough: every index, plus a torn variant of every write; quick: a stratified sample of the rest."""
    fs = rec.log["fs"]
    must = [f["n"] for f in fs if f["in_commit"] or (f["call"] == "write" and f["path"].endswith(".log"))]
    mustset = set(must)
    rest = [f["n"] for f in fs if f["n"] not in mustset]
    picks = [(i, False) for i in must]
    writes = [f["n"] for f in fs if f["call"] == "write" and f["len"] >= 2]
    if quick:
        # stratify the rest by (api call kind, fs call kind)
        strata = {}
        for f in fs:
            if f["n"] in mustset:
                continue
            kind = rec.hist[f["api_call"]].split(" ")[0] if 0 <= f["api_call"] < len(rec.hist) else "?"
            strata.setdefault((kind, f["call"], os.path.splitext(f["path"])[1]), []).append(f["n"])
        keys = sorted(strata)
        room = max(0, budget - len(picks))
        while room > 0 and keys:
            for k in list(keys):
                if not strata[k]:
                    keys.remove(k)
                    continue
                picks.append((strata[k].pop(rng.randrange(len(strata[k]))), False))
                room -= 1
                if room <= 0:
                    break
        torn = [i for i in must if i in set(writes)]
        picks += [(i, True) for i in torn[:max(4, budget // 6)]]
    else:
        picks += [(i, False) for i in rest]
        picks += [(i, True) for i in writes]
    return picks


def trace_findings(rec):
    """(clause, detail) list from the trace / correspondence part (hook mode)"""
    out = []
    if not rec.drv:
        return out
    drv, log = rec.drv, rec.log
    if drv["bad"] or log["bad"]:
        out.append(("driver", {"bad_lines": drv["bad"], "bad_calls": log["bad"]}))
    for i in drv["routed_bad"][:1]:
        out.append(("routing", {"op_index": i, "what": "a write was routed (batch vs db) differently from LevelDb::Update/Erase in the model",
                                "event": drv["evs"][rec.ev_of_op[i]] if i in rec.ev_of_op else None}))
    for e in drv["evs"]:
        if not e["ok"]:
            out.append(("protocol:" + e["kind"], {"event": {k: e[k] for k in ("kind", "first", "last", "expected", "got")}}))
            break
    if drv["fetch_bad"]:
        out.append(("fetch", {"what": "LevelDb::Fetch returned something else than Kv.fetch (pending batch over durable)",
                              "first": drv["fetch_bad"][0], "count": len(drv["fetch_bad"])}))
    if drv["wf"] is False:
        out.append(("grammar", {"what": "traceWellFormed is false on the real trace"}))
    real = [log["dumps"][k] for k in sorted(log["dumps"])]
    for j, (a, b) in enumerate(zip(real, drv["dumps"])):
        ra = "-" if a in ("absent",) else a
        if ra != b:
            out.append(("durable", {"api_call": j, "call_line": rec.hist[j] if j < len(rec.hist) else None, "impl": a, "model": b}))
            break
    if len(real) != len(drv["dumps"]):
        out.append(("driver", {"what": "dump count differs", "impl": len(real), "model": len(drv["dumps"])}))
    return out


def entry_tick(v_hex):
    """t= field of a packed UserDbValue ("c=1 d=1 t=3"), None when absent"""
    try:
        txt = bytes.fromhex(v_hex).decode("latin-1") if v_hex != "-" else ""
    except ValueError:
        return None
    m = re.search(r"(?:^| )t=(\d+)", txt)
    return int(m.group(1)) if m else None


def unit_coherence(rec):
    """Monitor on the implementation's own durable states at API-call boundaries (works without the hook): a commit
    writes its tick and the entry carrying that tick in ONE unit, so whenever the durable tick changes, some entry
    that changed in the same step must carry the new tick.  -> first offending (call index, detail) or None"""
    calls = sorted(rec.log["dumps"])
    prev = {}
    for cidx in calls:
        d = rec.log["dumps"][cidx]
        if d in ("absent", "unopenable", "copy-failed"):
            continue
        cur = dump_dict(d)
        kind = rec.hist[cidx].split(" ")[0] if cidx < len(rec.hist) else "?"
        if kind != "new" and TICK_KEY in prev and cur.get(TICK_KEY) != prev.get(TICK_KEY):
            try:
                nt = int(bytes.fromhex(cur.get(TICK_KEY, "30")).decode())
            except ValueError:
                nt = None
            changed = [k for k in cur if not k.startswith("01") and cur[k] != prev.get(k)]
            if nt is not None and not any(entry_tick(cur[k]) == nt for k in changed):
                return cidx, {"api_call": cidx, "call_line": rec.hist[cidx], "tick_before": prev.get(TICK_KEY),
                              "tick_after": cur.get(TICK_KEY), "entries_changed": changed, "before": canon(prev), "after": canon(cur)}
        prev = cur
    return None


def corpus_histories():
    d = os.path.join(vlib.CORPUS, "C11")
    hs = []
    if os.path.isdir(d):
        for fn in sorted(os.listdir(d)):
            if fn.endswith(".txt"):
                lines = [l.strip() for l in open(os.path.join(d, fn)) if l.strip() and not l.startswith("#")]
                hs.append((fn, lines))
    return hs


def shrink(R, hist, clause, budget=24):
    """shorten a failing history: cut everything after the failing call, then drop earlier steps while some
    must-kill index still fails with the same clause"""
    def fails(h):
        rec = Recording(R, h)
        try:
            if not rec.ok:
                return None
            rng = __import__("random").Random(1)
            for idx, torn in pick_kills(rec, True, rng, 0):
                r = kill_once(R, rec, idx, torn)
                if r.get("fired") and r.get("clause") == clause:
                    return (idx, torn, r)
            return None
        finally:
            rec.cleanup()
    best = None
    cur = list(hist)
    base = fails(cur)
    if not base:
        return cur, None
    best = base
    # drop from the end first
    step = max(1, len(cur) // 2)
    while step >= 1 and budget > 0:
        i = len(cur) - step
        changed = False
        while i >= 1 and budget > 0:
            cand = cur[:i] + cur[i + step:]
            if cand and cand[0] == "new":
                budget -= 1
                r = fails(cand)
                if r:
                    cur, best, changed = cand, r, True
            i -= step
        if not changed:
            step //= 2
    return cur, best


# ------------------------------------------------------------------ the check
def run(c):
    quick = c.tier == "quick"
    hook = hook_present()
    # P
    audit = vlib.lean_audit("C11")
    if not quick and audit["ok"]:
        ok, log = vlib.leanchecker("RimeModel.Props.C11")
        if not ok:
            audit["ok"] = False
            audit["failures"].append(("RimeModel.Props.C11", "leanchecker: " + log))
    rcd, outd = vlib.lake_build(["driver_c11"])
    if rcd != 0:
        raise vlib.BuildError("driver_c11 does not build: " + outd[-3000:])
    # B
    exe, bdir = build(hook)
    tpl = make_template(c, exe)
    R = Runner(c, exe, tpl, hook)
    # histories: corpus first, then seeded generation
    n_hist, n_calls, budget = (4, 90, 120) if quick else (16, 260, 0)
    hists = [("corpus/" + n, h) for n, h in corpus_histories()]
    for i in range(n_hist):
        hists.append(("gen%d" % i, gen_history(c.rng, n_calls, reopen_bias=0.06 if i % 2 == 0 else 0.14)))
    stats = {"histories": 0, "api_calls": 0, "ops_traced": 0, "events": 0, "event_kinds": {}, "fs_mutations": 0,
             "kill_runs": 0, "kills_fired": 0, "kills_in_batch_write": 0, "kills_torn": 0, "kills_needing_recovery": 0,
             "kills_nondeterministic": 0, "kill_fs_calls": {}, "commits_made": 0, "aborts": 0, "dumps_compared": 0,
             "trace_mismatches": 0, "kill_violations": 0, "kills_not_fired": 0,
             "kills_at_log_record_write": 0, "damage_scenarios": 0, "damage_needing_recovery": 0,
             "states_monitored": 0, "fetches_compared": 0,
             "fetches_answered_by_pending_batch": 0}
    distinct, samples = set(), []
    pool = concurrent.futures.ThreadPoolExecutor(max_workers=min(8, os.cpu_count() or 2))
    recs = []
    for name, hist in hists:
        rec = Recording(R, hist)
        recs.append(rec)
        if not rec.ok:
            c.report("C11:harness:run", "the uninterrupted run of a typing history failed (rc=%d)" % rec.rc,
                     {"kind": "harness", "history": hist, "output": rec.out[-2000:], "mode": "hook" if hook else "nohook"})
            rec.cleanup()
            continue
        stats["histories"] += 1
        stats["api_calls"] += len(rec.log["calls"])
        stats["fs_mutations"] += rec.log["total"]
        tf = trace_findings(rec)
        uc = unit_coherence(rec)
        stats["states_monitored"] += len(rec.log["dumps"])
        if uc:
            c.report("C11:unit:tick-without-entry",
                     "after `%s` (call %d) the durable tick moved but no entry carrying the new tick became durable with it: "
                     "part of a commit is on disk on its own" % (uc[1]["call_line"], uc[0]),
                     {"kind": "durable-state", "history": hist[:uc[0] + 1], "detail": uc[1], "mode": "hook" if hook else "nohook",
                      "found_in": name})
        if rec.drv:
            stats["ops_traced"] += rec.log["nops"]
            stats["events"] += len(rec.drv["evs"])
            stats["dumps_compared"] += len(rec.drv["dumps"])
            stats["fetches_compared"] += rec.drv["fetches"]
            stats["fetches_answered_by_pending_batch"] += rec.drv["fetch_batch"]
            for e in rec.drv["evs"]:
                stats["event_kinds"][e["kind"]] = stats["event_kinds"].get(e["kind"], 0) + 1
                if e["kind"] == "onCommit":
                    stats["commits_made"] += 1
                if e["kind"] == "backspace" and e["got"] == "[abort]":
                    stats["aborts"] += 1
        picks = pick_kills(rec, quick, c.rng, budget)
        results = list(pool.map(lambda it: kill_once(R, rec, it[0], it[1]), picks))
        kill_fail = {}
        for r in results:
            stats["kill_runs"] += 1
            if not r["fired"]:
                stats["kills_not_fired"] += 1
                continue
            stats["kills_fired"] += 1
            stats["kills_in_batch_write"] += 1 if r["in_commit"] else 0
            at_log = r["fs_call"] == "write" and (r["path"] or "").endswith(".log")
            stats["kills_at_log_record_write"] += 1 if at_log else 0
            stats["kills_torn"] += 1 if r["was_torn"] else 0
            stats["kills_needing_recovery"] += 1 if r["recovery"] else 0
            stats["kills_nondeterministic"] += 0 if r["deterministic"] else 1
            key = "%s %s" % (r["fs_call"], os.path.splitext(r["path"] or "")[1] or
                             re.sub(r"-\d+$", "", os.path.basename(r["path"] or "")))
            stats["kill_fs_calls"][key] = stats["kill_fs_calls"].get(key, 0) + 1
            if r["in_commit"] or at_log or len(r["detail"].get("allowed_kv") or r["detail"].get("allowed_calls") or []) > 1:
                distinct.add((name, r["idx"], r["torn"]))
            if r["clause"]:
                stats["kill_violations"] += 1
                kill_fail.setdefault(r["clause"], r)
            if not r["deterministic"]:
                kill_fail.setdefault("nondeterministic", r)
        if len(samples) < 4:
            good = [r for r in results if r["fired"] and r["in_commit"]][:1] or [r for r in results if r["fired"]][:1]
            samples.append({"history": name, "lines": hist[:40], "fs_mutations": rec.log["total"], "kills": len(picks),
                            "a_kill": {k: good[0][k] for k in ("idx", "torn", "fs_call", "path", "in_commit")} if good else None,
                            "post": good[0]["detail"]["post"] if good else None})
        # verdicts for this history
        for clause, r in sorted(kill_fail.items()):
            if clause == "nondeterministic":
                c.report("C11:harness:nondeterministic", "a killed run did not repeat the recorded run up to the kill",
                         {"kind": "harness", "history": hist, "kill_index": r["idx"], "mode": "hook" if hook else "nohook"},
                         no_input=True)
                continue
            sh, best = (hist, None)
            if clause in ("partial-commit", "not-a-commit-prefix", "reopen-failed"):
                sh, best = shrink(R, hist, clause)
            rr = best[2] if best else r
            c.report("C11:kill:" + clause,
                     "killed at file-system mutation #%d (%s %s%s) during `%s`: reopened dictionary %s" %
                     (rr["idx"], rr["fs_call"], rr["path"], ", torn write" if rr["was_torn"] else "",
                      rr["detail"].get("call_line"),
                      {"partial-commit": "holds a state the real sequence of LevelDb writes explains but no prefix of whole commits produces "
                                         "(part of a commit present, or a whole commit lost)",
                       "not-a-commit-prefix": "is not the state after any allowed prefix of the commits made",
                       "reopen-failed": "does not open, even after the built-in recovery",
                       "on-disk-state": "on-disk content before reopening is not an allowed state",
                       "unusable-after-reopen": "opens but a session cannot commit on it"}.get(clause, clause)),
                     {"kind": "kill-point", "history": sh, "kill_index": rr["idx"], "torn": rr["torn"], "detail": rr["detail"],
                      "mode": "hook" if hook else "nohook", "found_in": name})
        dm = damage_once(R, rec)
        if dm:
            stats["damage_scenarios"] += 1
            stats["damage_needing_recovery"] += 1 if dm["recovery"] else 0
            if dm["clause"]:
                c.report("C11:damage:" + dm["clause"],
                         "with the MANIFEST of the final on-disk state overwritten (not a kill), the built-in recovery leaves a "
                         "dictionary that %s" % {"reopen-failed": "does not open", "unusable-after-reopen": "cannot be committed to"}.get(
                             dm["clause"], "is not the last flushed state"),
                         {"kind": "damage", "history": hist, "detail": dm, "mode": "hook" if hook else "nohook", "found_in": name})
        # (last: it destroys the recorded dictionary) damage RepairDB cannot mend
        variant = ["txt", "old", "none", "txt"][stats["damage_scenarios"] % 4]
        du = damage_unrepairable(R, rec, variant, c.rng)
        if du:
            stats["unrepairable_scenarios"] = stats.get("unrepairable_scenarios", 0) + 1
            stats["unrepairable_with_snapshot"] = stats.get("unrepairable_with_snapshot", 0) + (1 if du["snapshot"] else 0)
            if du["clause"]:
                c.report("C11:damage:" + du["clause"],
                         "with the dictionary's directory replaced by a file (not a kill; RepairDB fails) and %s in the sync "
                         "directory, the built-in recovery leaves a dictionary that %s" % (
                             {"txt": "a snapshot c11.userdb.txt", "old": "an old-style snapshot c11.userdb.snapshot",
                              "none": "no snapshot"}[variant],
                             {"reopen-failed": "does not open", "unusable-after-reopen": "cannot be committed to",
                              "not-a-commit-prefix": "holds what no prefix of the commits made produces",
                              "snapshot-not-restored": "does not hold what the snapshot holds",
                              "wreck-not-kept": "is fine, but the damaged file was not kept as c11.userdb.old"}[du["clause"]]),
                         {"kind": "damage-unrepairable", "history": hist, "variant": variant, "detail": du,
                          "mode": "hook" if hook else "nohook", "found_in": name})
        rec.cleanup()
        for clause, det in tf:
            stats["trace_mismatches"] += 1
            if kill_fail and any(k != "nondeterministic" for k in kill_fail):
                continue   # the kill-point violation above is the concrete failing input
            c.report("C11:trace:" + clause,
                     "the real LevelDb trace of a typing history leaves the modelled protocol (%s) but no kill point of this "
                     "run showed a broken dictionary" % clause,
                     {"kind": "correspondence", "broken": "trace vs RimeModel.C11 (emitOne / Kv.step / traceWellFormed)",
                      "history": hist, "detail": det, "found_in": name}, no_input=True)
    pool.shutdown()
    if not audit["ok"] and not c.violations:
        c.report("C11:proof", "proof obligation no longer checks: %s" % "; ".join("%s: %s" % f for f in audit["failures"])[:600],
                 {"kind": "proof", "broken_theorems": audit["failures"], "lean_log": audit["log"][-3000:]}, no_input=True)
    cov = vlib.proof_cov(audit, "lake build RimeModel.Props.C11 && #print axioms (all theorems) && forbidden-token scan"
                         + ("" if quick else " && leanchecker RimeModel.Props.C11"),
                         vlib.STD_TRUSTED + ["LevelDB: a WriteBatch is applied atomically; reopen/RepairDB yields a prefix of the log",
                                             "a process kill loses no page-cache data (power loss out of scope)",
                                             "the in-executable interposer sees every PLT-routed file-system mutation of librime/libleveldb/libstdc++"])
    cov.update(stats)
    cov.update({
        "evaluations": stats["kills_fired"] + stats["api_calls"],
        "distinct_nontrivial": len(distinct),
        "rule": ("seeded typing histories (corpus first) through the real API on a synthetic script_translator schema with a LevelDB "
                 "user dictionary, virtual clock; every API call is one evaluation of the trace/durable correspondence (hook mode) and "
                 "every fired kill point one evaluation of the reopen check; non-trivial = kill inside a batch write (hook) / at a write of a LevelDB log record, or at a point "
                 "where two different states are allowed; distinct by (history, kill index, torn). "
                 + ("thorough: every file-system mutation of every history is a kill point, plus a torn variant of every write"
                    if not quick else
                    "quick: every mutation inside a batch write / LevelDB log write, a stratified sample of the others, some torn writes")),
        "samples": samples,
        "hook_present": hook,
        "mode": ("trace hook present: trace/protocol/durable correspondence + kill points against model (kv-level and spec-level) states"
                 if hook else "trace hook ABSENT from the tree: only the kill-point part ran, against per-call states recorded from an uninterrupted run"),
        "source_hash": vlib.source_hash(SRC_FILES), "proof_failures": audit["failures"],
    })
    c.cov = cov
    c.assumptions = ["one LevelDB user dictionary, opened read-write by one process (LevelDB's LOCK)",
                     "kill = process death (SIGKILL/_exit): data already handed to write() survives; power loss not modelled",
                     "deployer maintenance tasks (sync/backup/upgrade) do not run while the user types",
                     "the values a commit writes are taken from the trace (their arithmetic is C10)"]


def replay(c, r):
    hist = r.get("history")
    if not hist:
        print("replay: this file names a broken obligation, no concrete input:", r.get("what"))
        return 1
    hook = hook_present()
    vlib.lake_build(["driver_c11"])
    exe, bdir = build(hook)
    tpl = make_template(c, exe)
    R = Runner(c, exe, tpl, hook)
    rec = Recording(R, hist)
    if not rec.ok:
        print("replay: uninterrupted run failed rc=%d: %s" % (rec.rc, rec.out[-500:]))
        return 1
    bad = 0
    for clause, det in trace_findings(rec):
        print("replay: trace %s: %s" % (clause, json.dumps(det)[:600]))
        bad += 1
    uc = unit_coherence(rec)
    if uc:
        print("replay: durable tick moved without its entry at call %d `%s`: %s -> %s" %
              (uc[0], uc[1]["call_line"], uc[1]["before"][-60:], uc[1]["after"][-60:]))
        bad += 1
    if r.get("kind") == "damage":
        dm = damage_once(R, rec)
        print("replay: damage scenario -> %s (recovery=%s)" % ((dm or {}).get("clause") or "ok", (dm or {}).get("recovery")))
        bad += 1 if dm and dm["clause"] else 0
    if r.get("kind") == "damage-unrepairable":
        import random
        # (the planted snapshot is a prefix state chosen by the seed; every choice must be restored)
        du = damage_unrepairable(R, rec, r.get("variant", "txt"), random.Random(c.seed), (r.get("detail") or {}).get("snapshot"))
        print("replay: unrepairable damage (%s) -> %s (recovery=%s)" % (r.get("variant"), (du or {}).get("clause") or "ok",
                                                                       (du or {}).get("recovery")))
        if du and du["clause"]:
            print("        post=%s\n        want=%s" % (du["post"], du["want"]))
        bad += 1 if du and du["clause"] else 0
    if "kill_index" in r:
        res = kill_once(R, rec, int(r["kill_index"]), bool(r.get("torn")))
        if not res["fired"]:
            print("replay: kill index %s is beyond this run's %d file-system mutations: not reproduced on this tree" %
                  (r["kill_index"], rec.log["total"]))
            rec.cleanup()
            return 1 if bad else 0
        print("replay: kill #%d %s %s in_commit=%s torn=%s -> %s" % (res["idx"], res["fs_call"], res["path"], res["in_commit"],
                                                                   res["was_torn"], res["clause"] or "ok"))
        print("        post=%s" % res["detail"]["post"])
        for k in ("allowed_kv", "allowed_spec", "allowed_calls"):
            if k in res["detail"]:
                print("        %s=%s" % (k, res["detail"][k]))
        bad += 1 if res["clause"] else 0
    rec.cleanup()
    return 1 if bad else 0
