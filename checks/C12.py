"""C12 — redeploying yields what a clean deploy of the current sources yields."""
import os, sys, json, shutil, copy, glob, random
import vlib
from checks import deploy_common as dc

META = {
    "technique": ("Lean 4 model of WorkspaceUpdate / SchemaUpdate / ConfigFileUpdate / ConfigNeedsUpdate / DictCompiler::Compile "
                  "with theorems for all histories and all consistent staging directories; tied to the code by running the real "
                  "deployer on generated edit histories and comparing decision log, rewritten files, recorded fingerprints and "
                  "verdict with the model, plus the incremental-vs-clean oracle on the real build directory"),
    "level": "proof",
    "level_text": ("Theorems C12.deploy_eq_clean / history_eq_clean (a deployment over any consistent staging directory leaves every "
                   "artefact a clean deployment of the same sources produces, identically, with the same verdict; consistency is an "
                   "invariant of deployment, so this holds after any history), C12.deploy_idempotent_no_write (a second deployment of "
                   "unchanged sources writes nothing and returns the same verdict), C12.no_stale_use (every artefact a reachable schema "
                   "resolves records the fingerprints of the current sources), C12.detect_modifications_lemma. The model's decision "
                   "functions are compared with the real deployer on every run (decision hook log when present, set of rewritten "
                   "files, recorded timestamps, checksum equalities, verdict); the property itself is evaluated on the real build "
                   "directories (incremental vs clean: tables walked through the real Table, prism spelling maps, reverse db, compiled "
                   "YAML minus timestamps, session transcript; no-change redeploy rewrites nothing)."),
    "level_note": ("Hypotheses of the theorems (outside the proof): the config compiler records the mtime of every resource it read and "
                   "depends on nothing else (C14's subject; compared per run through the recorded timestamps); checksum injective on the "
                   "contents at hand (CRC32, fed with the concatenation of the files); edits change the recorded mtime and no file is recorded with time 0 (the mtime itself "
                   "where timestamps are stored as 64-bit numbers; `(int)time_t` in older trees, where this holds for mtimes less than 2^32 s "
                   "apart only — Gen.DeployFacts.timestampBits, re-read from the source per run); the "
                   "final sources are deployable (default has a schema list, listed schemas exist, every reachable valid schema compiles "
                   "and its dictionary, imports and packs have sources — reuse-without-source and failed builds keep old artefacts by "
                   "design); for idempotence/no-stale-use, no artefact file is claimed with two contents (one prism name per schema, a "
                   "pack belongs to one primary dictionary). Artefact contents are free terms of their inputs. Not in the Lean model: "
                   "installation_update, user_dict_upgrade, cleanup_trash, SymlinkingPrebuiltDictionaries (run, judged by the oracles only); "
                   "TrashDeprecatedUserCopy (which user copies a deployment moves to user/trash is compared, file by file, with a port of "
                   "the rule in checks/deploy_common.py, and the model is given the sources without them); the prebuilt data directory, "
                   "RimePrebuildAllSchemas, RimeDeploySchema / RimeDeployConfigFile, verbose recompilation and Customizer::UpdateConfigFile "
                   "(run on directed / generated histories and judged by the property alone: incremental = clean on what is in use, "
                   "no-change redeploy writes nothing); a spelling algebra that erases every spelling (BuildPrism fails: excluded by "
                   "'deployable'). Trusted: Lean kernel, the python abstraction of the generated workspace "
                   "(checks/deploy_common.py), harness/c12_harness.cc, yaml-cpp, marisa, darts."),
    "design_ref": "DESIGN.md §3 C12",
}

FLAVOUR = "san"
SRC_FILES = ["src/rime/lever/deployment_tasks.cc", "src/rime/dict/dict_compiler.cc", "src/rime/config/build_info_plugin.cc",
             "src/rime/config/save_output_plugin.cc", "src/rime/config/config_component.cc", "src/rime/algo/utilities.cc",
             "src/rime/dict/preset_vocabulary.cc", "src/rime/config/config_data.cc"]


class Model:
    """the Lean driver, one process per history (batch: all lines in, all lines out)"""

    def __init__(self):
        self.lines = []

    def add(self, lines):
        self.lines += lines

    def run(self):
        out = vlib.run_driver("driver_c12", "\n".join(self.lines) + "\n")
        return out.splitlines()


def split_blocks(lines):
    """driver output → list of blocks per `deploy` (ending with 'end') and loose lines"""
    blocks, cur, loose = [], [], []
    for l in lines:
        if l == "end":
            blocks.append(cur)
            cur = []
        elif l in ("ok",) or l.startswith("detect "):
            loose.append(l)
        else:
            cur.append(l)
    return blocks, loose, cur


def model_view(block):
    v = {"decisions": [l for l in block if l.startswith("d ")], "writes": sorted(l[2:] for l in block if l.startswith("w ")),
         "result": None, "cfg": {}, "table": {}, "prism": {}, "reverse": {}, "lastbuild": None, "bad": [l for l in block if l == "bad-op"]}
    for l in block:
        p = l.split(" ")
        if p[0] == "result":
            v["result"] = int(p[1])
        elif p[0] == "state":
            if p[1] == "cfg":
                v["cfg"][p[2]] = sorted(p[3].split(",")) if p[3] != "-" else []
            elif p[1] == "table":
                v["table"][p[2]] = (p[3], p[4])
                v.setdefault("empty_syl", {})[p[2]] = (p[4] == "pack:empty")
            elif p[1] == "prism":
                v["prism"][p[2]] = (p[3], p[4])
            elif p[1] == "reverse":
                v["reverse"][p[2]] = (p[3],)
            elif p[1] == "lastbuild":
                v["lastbuild"] = int(p[2])
    return v


def correspond(mv, real, dump, ckmap, have_hooks):
    """model view of one deployment vs what the real deployer did.  Returns list of mismatch strings."""
    mm = []
    if mv["bad"]:
        mm.append("driver rejected an op line")
    if have_hooks and real["hooks"]:
        if mv["decisions"] != real["decisions"]:
            mm.append("decision log: model %s / impl %s" % (mv["decisions"], real["decisions"]))
    if mv["writes"] != sorted(real["rewritten"]):
        mm.append("rewritten files: model %s / impl %s" % (mv["writes"], sorted(real["rewritten"])))
    ok = 1 if real["tasks"].get("workspace_update") == 1 else 0
    if mv["result"] != ok:
        mm.append("verdict: model %s / impl workspace_update=%s" % (mv["result"], real["tasks"].get("workspace_update")))
    # recorded fingerprints
    for n, st in mv["cfg"].items():
        if dump["stamps"].get(n) != st:
            mm.append("timestamps of %s: model %s / impl %s" % (n, st, dump["stamps"].get(n)))
    for n in dump["stamps"]:
        if n not in mv["cfg"]:
            mm.append("compiled config %s exists but the model has none" % n)

    def ck(mk, rk, where):
        # the model's ideal checksum and the real CRC must be in bijection over the whole history
        if ckmap["m2r"].setdefault(mk, rk) != rk or ckmap["r2m"].setdefault(rk, mk) != mk:
            mm.append("checksum of %s: model %s ↔ impl %s breaks the bijection (model %s was %s, impl %s was %s)" % (
                where, mk[:40], rk, mk[:40], ckmap["m2r"].get(mk), rk, (ckmap["r2m"].get(rk) or "")[:40]))
    for kind, idx in (("table", (0,)), ("prism", (0, 1)), ("reverse", (0,))):
        for n, mvv in mv[kind].items():
            if n not in dump[kind]:
                mm.append("%s %s: in the model but missing/unloadable in the build directory" % (kind, n))
                continue
            for i in idx:
                ck(mvv[i], dump[kind][n][i], "%s[%d]" % (n, i))
        for n in dump[kind]:
            if n not in mv[kind]:
                mm.append("%s %s exists but the model has none" % (kind, n))
    for n, e in mv.get("empty_syl", {}).items():
        if n in dump["table"]:
            real_empty = dc.unhex(dump["table"][n][1]).startswith("syllabary:\n")
            if e != real_empty:
                mm.append("syllabary of pack %s: model %s / impl %s" % (n, "empty" if e else "inherited", "empty" if real_empty else "non-empty"))
    if mv["lastbuild"] != dump["lastbuild"] and ok:
        mm.append("last_build_time: model %s / impl %s" % (mv["lastbuild"], dump["lastbuild"]))
    return mm


def tamper(root, kind, name):
    """the staging directory as another version of librime, or an editor, left it; returns the model's view of it"""
    p = os.path.join(root, "user", "build", name)
    cfgid = "default" if name == "default.yaml" else "schema:" + name[:-len(".schema.yaml")]
    if not os.path.isfile(p):
        return []
    text = open(p).read()
    st = os.stat(p)
    if kind == "no_timestamps":          # a build of librime with RIME_NO_TIMESTAMP: build info without the map
        lines, out, skip = text.split("\n"), [], False
        for l in lines:
            if l.startswith("  timestamps:"):
                skip = True
                continue
            if skip and l.startswith("    "):
                continue
            skip = False
            out.append(l)
        text = "\n".join(out)
    elif kind == "no_build_info":        # a compiled config of a librime older than the build info
        lines, out, skip = text.split("\n"), [], False
        for l in lines:
            if l.startswith("__build_info:"):
                skip = True
                continue
            if skip and l.startswith(" "):
                continue
            skip = False
            out.append(l)
        text = "\n".join(out)
    elif kind == "bad_timestamp":        # one recorded time is no number
        import re
        text = re.sub(r"(\n    default: )\S+", r"\g<1>12x", text, count=1)
    elif kind == "bad_timestamp_word":   # … nor starts with one
        import re
        text = re.sub(r"(\n    default: )\S+", r"\g<1>soon", text, count=1)
    elif kind == "timestamps_scalar":
        lines, out, skip = text.split("\n"), [], False
        for l in lines:
            if l.startswith("  timestamps:"):
                out.append("  timestamps: none")
                skip = True
                continue
            if skip and l.startswith("    "):
                continue
            skip = False
            out.append(l)
        text = "\n".join(out)
    with open(p, "w") as fh:
        fh.write(text)
    os.utime(p, ns=(st.st_mtime_ns, st.st_mtime_ns))
    return ["drop cfg %s" % cfgid]


def run_limited(c, runner, hist, work, tag):
    """The last deployment of the history runs on a "full disk": no file may grow beyond hist["file_size_limit"] bytes
    (whatever it reports).  The sources are then deployed once more without the limit; after that the build directory
    must behave like a clean deployment of the same sources.  The model takes no part (it has no failing writes)."""
    root = os.path.join(work, tag)
    shutil.rmtree(root, ignore_errors=True)
    os.makedirs(root)
    res = {"mismatches": [], "violations": [], "deploys": 0, "decisions": 0, "rebuilds": 0, "reuses": 0, "detects": []}
    states = [hist["base"]] + hist["steps"]
    w = None
    for i, sj in enumerate(states):
        w = dc.Workspace.from_json(sj)
        w.write(root)
        last = i == len(states) - 1
        r = runner.deploy(root, w.clock + 3, file_size_limit=hist["file_size_limit"] if last else None)
        res["deploys"] += 1
        if r["rc"] not in (0, 1) and not last:
            # (how the limited deployment itself ends is not judged: a write error may end it in any way — what is demanded
            # is that the next deployment repairs whatever it left)
            res["violations"].append(("C12:deploy:crash", "deployment %d exited with %d: %s" % (i, r["rc"], r["raw"][-600:])))
        if last:
            res["limited_rc"] = r["rc"]
    r2 = runner.deploy(root, w.clock + 5)
    if r2["rc"] not in (0, 1):
        res["violations"].append(("C12:after-failed-writes:crash", "the deployment after one that could not write more than %d bytes per file "
                                  "exited with %d: %s" % (hist["file_size_limit"], r2["rc"], r2["raw"][-600:])))
    d2 = runner.dump(root)
    res["deploys"] += 1
    croot = os.path.join(work, tag + "_clean")
    shutil.rmtree(croot, ignore_errors=True)
    os.makedirs(croot)
    w.write(croot)
    rc_ = runner.deploy(croot, w.clock + 3)
    dclean = runner.dump(croot)
    res["deploys"] += 1
    for n, what in dc.compare_dumps(d2, dclean):
        res["violations"].append(("C12:after-failed-writes:%s" % what.split(" differs")[0].replace(" ", "-"),
                                  "a deployment that could not write more than %d bytes per file, then a normal one: %s: %s "
                                  "(clean deploy of the same sources disagrees)" % (hist["file_size_limit"], n, what)))
    if (rc_["tasks"].get("workspace_update") == 1) != (r2["tasks"].get("workspace_update") == 1):
        res["violations"].append(("C12:after-failed-writes:verdict", "the deployment after the limited one and a clean deployment return different verdicts"))
    shutil.rmtree(root, ignore_errors=True)
    shutil.rmtree(croot, ignore_errors=True)
    return res


def run_customizer(c, runner, rng, work, tag, n_steps=6):
    """Customizer::UpdateConfigFile, the older way a `<name>.custom.yaml` reaches `<name>.schema.yaml` in the user
    directory (copy the shared file when its version is newer or the copy carries a patch, apply the patch, stamp version
    and `customization`).  The property, read on it: after any history of source releases (content changes come with a
    higher version, as the update strategy in customizer.cc presupposes) and patch edits, each followed by an update, the
    user copy equals what one update into an empty user directory gives; an update with nothing changed answers "up to
    date" and leaves the copy alone.  Returns (violations, updates run)."""
    root = os.path.join(work, tag)
    shutil.rmtree(root, ignore_errors=True)
    for d in ("src", "usr", "clean"):
        os.makedirs(os.path.join(root, d))
    w = dc.Workspace()
    spec = {"kind": "schema", "sid": "cz", "dict": "da", "algebra": ["derive/^sh/s/"], "version": "1.0"}
    major, minor = 1, 0
    custom = None
    viol, log, runs = [], [], 0
    src, dest, cust = (os.path.join(root, "src", "cz.schema.yaml"), os.path.join(root, "usr", "cz.schema.yaml"),
                       os.path.join(root, "usr", "cz.custom.yaml"))

    def write(destdir=None):
        w.files = {"shared/s": dict(spec, mtime=0)}
        with open(src, "w") as fh:
            fh.write(w.render_file("shared/s"))
        cp = cust if destdir is None else os.path.join(root, destdir, "cz.custom.yaml")
        if custom is None:
            if os.path.exists(cp):
                os.unlink(cp)
        else:
            w.files["user/c"] = {"kind": "custom", "patch": custom, "mtime": 0}
            with open(cp, "w") as fh:
                fh.write(w.render_file("user/c"))

    def update(d):
        rc, out = runner.sh([runner.exe, "customize", src, d, "schema/version"], runner.env, 120)
        return rc, ("customize 1" in out), out
    keys = [["menu/page_size", 7], ["menu/page_size", 9], ["speller/delimiter", "x"], ["switches", ["a", "b"]], ["schema/name", "Other"]]
    for step in range(n_steps + 1):
        if step:
            k = rng.choice(["release", "release_minor", "custom_on", "custom_mod", "custom_mod", "custom_mod", "custom_off", "nothing"])
            if k == "release":
                major, minor = major + rng.choice([1, 9]), 0
                spec = dict(spec, version="%d.%d" % (major, minor), algebra=spec["algebra"] + [rng.choice(dc.ALGEBRA_POOL)])
            elif k == "release_minor":
                minor += rng.choice([1, 9])
                spec = dict(spec, version="%d.%d" % (major, minor), pad=rng.randint(1, 4))
            elif k in ("custom_on", "custom_mod"):
                custom = [list(x) for x in rng.sample(keys, rng.choice([0, 1, 1, 2, 2]))]
                if len(set(x[0] for x in custom)) != len(custom):
                    custom = custom[:1]
            elif k == "custom_off":
                custom = None
            log.append("%s -> source %s, patch %s" % (k, spec["version"], custom))
        write()
        rc, changed, out = update(dest)
        runs += 1
        if rc != 0:
            viol.append(("C12:customizer:crash", "update %d exited with %d: %s" % (step, rc, out[-300:])))
            break
        if step and k == "nothing" and changed:
            viol.append(("C12:customizer:no-change-update", "an update with nothing changed reported an update"))
    if not viol:
        before = (open(dest, "rb").read(), os.stat(dest).st_mtime_ns)
        rc, changed, out = update(dest)
        runs += 1
        if changed or (open(dest, "rb").read(), os.stat(dest).st_mtime_ns) != before:
            viol.append(("C12:customizer:no-change-update", "an update with nothing changed %s" % ("reported an update" if changed else "rewrote the user copy")))
        cdest = os.path.join(root, "clean", "cz.schema.yaml")
        write("clean")
        update(cdest)
        runs += 1
        a, b = open(dest, "rb").read(), (open(cdest, "rb").read() if os.path.exists(cdest) else b"")
        if a != b:
            viol.append(("C12:customizer:incremental-vs-clean", "the user copy after the history differs from one update into an empty user directory"))
    shutil.rmtree(root, ignore_errors=True)
    return [(sig, what + " [history: %s]" % "; ".join(log)) for sig, what in viol], runs, log


def schema_walk(w):
    """the schema files a workspace update builds, in its order (listed schemas, each followed by its dependencies)"""
    seen, out = set(), []
    for sid in w.effective_schema_list() or []:
        for x in [sid] + (w.effective_schema(sid) or {"deps": []})["deps"]:
            if x not in seen:
                seen.add(x)
                rel = w.resolve(x + ".schema.yaml")
                if rel:
                    out.append(rel)
    return out


def run_variant(c, runner, hist, work, tag):
    """Other ways the same deployment is driven, judged by the property alone (the model takes no part):
    `prebuilt`   — the shared directory carries a prebuilt `build` (a clean deployment of the base sources, as a
                   distribution ships it); what is *in use* (staging first, then prebuilt) after the history and a
                   no-change redeployment must equal a clean deployment of the final sources without any prebuilt data;
    `prebuild`   — every deployment is RimePrebuildAllSchemas (`prebuild_all_schemas`), compared with a clean one of those;
    `piecewise`  — every deployment is RimeDeployConfigFile(default.yaml) followed by RimeDeploySchema for each schema
                   a workspace update would build, compared with a clean full deployment;
    `same_process` — the last two deployments of the history run in ONE process, the sources edited in between (what a
                   deployment keeps in the process — vocabulary, config and dictionary objects — meets the new sources), then a
                   no-change redeployment in a fresh process; compared with a clean full deployment;
    `verbose`    — after the history, every schema is compiled once more the way `rime_deployer --compile` does (rebuild
                   all, dump text files), compared with a clean full deployment."""
    mode = hist["variant"]
    root, croot, pre = os.path.join(work, tag), os.path.join(work, tag + "_clean"), os.path.join(work, tag + "_pre")
    for d in (root, croot, pre):
        shutil.rmtree(d, ignore_errors=True)
        os.makedirs(d)
    res = {"mismatches": [], "violations": [], "deploys": 0, "decisions": 0, "rebuilds": 0, "reuses": 0, "detects": []}
    states = [hist["base"]] + hist["steps"]

    def tasks_for(w, rt):
        if mode == "prebuild":
            return "prebuild_all_schemas"
        if mode == "piecewise":
            return ",".join(["installation_update", "config_file_update:default.yaml:config_version"] +
                            ["schema_update:" + os.path.join(rt, rel) for rel in schema_walk(w)])
        return None
    if mode == "prebuilt":
        w0 = dc.Workspace.from_json(states[0])
        w0.write(pre)
        runner.deploy(pre, w0.clock + 3)
        res["deploys"] += 1
        w0.write(root)
        shutil.copytree(os.path.join(pre, "user", "build"), os.path.join(root, "shared", "build"))
    w = None
    if mode == "same_process" and len(states) >= 2:
        # the last state is written next to the workspace and copied over it (modification times kept; files it no longer has
        # removed) between the two deployments of the last process
        nxt = os.path.join(work, tag + "_next")
        shutil.rmtree(nxt, ignore_errors=True)
        os.makedirs(nxt)
        dc.Workspace.from_json(states[-1]).write(nxt)
        states = states[:-1]
    for i, sj in enumerate(states):
        w = dc.Workspace.from_json(sj)
        w.write(root)
        t = tasks_for(w, root)
        env = {"VERIF_TASKS": t} if t else {}
        if mode == "same_process" and i == len(states) - 1:
            w2 = dc.Workspace.from_json(hist["steps"][-1])
            gone = [os.path.join(root, rel) for rel in w.files if rel not in w2.files]
            env["VERIF_BETWEEN"] = "cp -a %s/shared/. %s/shared/ && cp -a %s/user/. %s/user/" % (nxt, root, nxt, root) + "".join(" && rm -f '%s'" % g for g in gone)
            w = w2
        r = runner.deploy(root, w.clock + 3 - (4 if "VERIF_BETWEEN" in env else 0), extra_env=env or None)
        if "VERIF_BETWEEN" in env:
            shutil.rmtree(nxt, ignore_errors=True)
        res["deploys"] += 1
        res.setdefault("trace", []).append({"rc": r["rc"], "tasks": r["tasks"], "rewritten": r["rewritten"]})
        if r["rc"] not in (0, 1):
            res["violations"].append(("C12:deploy:crash", "deployment %d (%s) exited with %d: %s" % (i, mode, r["rc"], r["raw"][-600:])))
        if mode == "prebuilt" and i == 0 and r["rewritten"]:
            res["violations"].append(("C12:no-change-deploy:rewrote", "a deployment over prebuilt data of the same sources wrote %s" % r["rewritten"]))
    last = r
    if mode == "verbose":
        t = ",".join("compile:" + os.path.join(root, rel) for rel in schema_walk(w))
        rv = runner.deploy(root, w.clock + 4, extra_env={"VERIF_TASKS": t})
        res["deploys"] += 1
        if rv["rc"] != 0:
            res["violations"].append(("C12:verbose-compile:verdict", "compiling every schema of a deployable workspace the verbose way failed: %s" % rv["raw"][-400:]))
    t = tasks_for(w, root)
    r2 = runner.deploy(root, w.clock + 5, extra_env={"VERIF_TASKS": t} if t else None)
    d2 = runner.dump(root)
    res["deploys"] += 1
    if r2["rewritten"]:
        res["violations"].append(("C12:no-change-deploy:rewrote", "redeploying unchanged sources (%s) rewrote %s" % (mode, r2["rewritten"])))
    if mode != "verbose" and (r2["rc"] == 0) != (last["rc"] == 0):
        res["violations"].append(("C12:no-change-deploy:verdict", "redeploying unchanged sources (%s) changed the verdict" % mode))
    w.write(croot)
    tc = "prebuild_all_schemas" if mode == "prebuild" else None
    rc_ = runner.deploy(croot, w.clock + 3, extra_env={"VERIF_TASKS": tc} if tc else None)
    dclean = runner.dump(croot)
    res["deploys"] += 1
    diffs = dc.compare_dumps(d2, dclean)
    for n, what in diffs:
        res["violations"].append(("C12:incremental-vs-clean:%s" % what.split(" differs")[0].replace(" ", "-"),
                                  "after the history (%s), %s: %s (clean deploy of the final sources disagrees)" % (mode, n, what)))
    if (rc_["rc"] == 0) != (r2["rc"] == 0):
        res["violations"].append(("C12:incremental-vs-clean:verdict", "incremental (%s) and clean deployments return different verdicts" % mode))
    if not diffs and mode in ("prebuilt", "verbose", "same_process"):
        pairs = dc.session_inputs(w)
        _, t1 = runner.session(root, pairs)
        _, t2 = runner.session(croot, pairs)
        res["session_lines"] = len(t1)
        if t1 != t2:
            first = next((a for a, b in zip(t1, t2) if a != b), "length")
            res["violations"].append(("C12:incremental-vs-clean:session", "session transcripts differ (%s), first: %s" % (mode, first)))
    for d in (root, croot, pre):
        shutil.rmtree(d, ignore_errors=True)
    return res


def run_history(c, runner, hist, work, have_hooks, tag, check_sessions=True):
    """hist = {"base": ws json, "steps": [ws json after each edit]}.  Returns dict(mismatches, violations, stats)."""
    if hist.get("file_size_limit") is not None:
        return run_limited(c, runner, hist, work, tag)
    if hist.get("variant"):
        return run_variant(c, runner, hist, work, tag)
    root = os.path.join(work, tag)
    shutil.rmtree(root, ignore_errors=True)
    os.makedirs(root)
    intern = {}
    model = Model()
    reals, dumps, descs = [], [], []
    states = [hist["base"]] + hist["steps"]
    res = {"mismatches": [], "violations": [], "deploys": 0, "decisions": 0, "rebuilds": 0, "reuses": 0, "detects": []}
    w = None
    view = None
    trash_dir = os.path.join(root, "user", "trash")
    for i, sj in enumerate(states):
        w = dc.Workspace.from_json(sj)
        w.write(root)
        for kind, name in (hist.get("tamper") or {}).get(str(i), []):
            model.add(tamper(root, kind, name))
        for at, n, target in hist.get("legacy_symlinks") or []:
            if at == i and not os.path.lexists(os.path.join(root, "user", n)):
                os.symlink(target, os.path.join(root, "user", n))
        now = w.clock + 3
        # the pre-filter, as start_maintenance(False) would evaluate it now
        detect_line = "detect state %s" % ",".join(str(t) for t in w.detect_mtimes(root))
        shutil.rmtree(trash_dir, ignore_errors=True)
        r = runner.deploy(root, now)
        # user copies the deployment moved to user/trash (TrashDeprecatedUserCopy) are no sources of this deployment:
        # the model is given the sources without them; which copies go is judged here, file by file
        trashed = sorted(n for n in (os.listdir(trash_dir) if os.path.isdir(trash_dir) else []) if n.endswith(".yaml"))
        r["trash_mismatch"] = []
        if have_hooks and r["hooks"]:
            for n in sorted(set(d.split(" ")[1].split(":", 1)[1] for d in r["decisions"] if d.startswith("d config_needs_update:"))):
                if w.trash_expected(n) != (n in trashed):
                    r["trash_mismatch"].append("user copy of %s (shared version %r, user version %r): expected to be %s, was %s" % (
                        n, w.version_of("shared/" + n) if "shared/" + n in w.files else None,
                        w.version_of("user/" + n) if "user/" + n in w.files else None,
                        "moved to trash" if w.trash_expected(n) else "kept", "moved to trash" if n in trashed else "kept"))
        res["trashed"] = res.get("trashed", 0) + len(trashed)
        view = w.without_user_copies(trashed)
        model.add(view.describe(intern))
        model.add([detect_line])
        model.add(["deploy %d" % now])
        reals.append(r)
        dumps.append(runner.dump(root))
        res["deploys"] += 1
        # a session saves its options to user.yaml long after the build: the pre-filter must keep ignoring that file
        up = os.path.join(root, "user", "user.yaml")
        if os.path.isfile(up):
            ns = (now + 1000) * 10**9 + 5 * 10**8
            os.utime(up, ns=(ns, ns))
    # no-change redeploy
    model.add(view.describe(intern))
    model.add(["detect state %s" % ",".join(str(t) for t in w.detect_mtimes(root))])
    model.add(["deploy %d" % (w.clock + 5)])
    r2 = runner.deploy(root, w.clock + 5)
    r2["trash_mismatch"] = []
    d2 = runner.dump(root)
    reals.append(r2)
    dumps.append(d2)
    res["deploys"] += 1
    # model
    blocks, loose, rest = split_blocks(model.run())
    detects = [int(l.split(" ")[1]) for l in loose if l.startswith("detect ")]
    ckmap = {"m2r": {}, "r2m": {}}
    for i, (b, r, d) in enumerate(zip(blocks, reals, dumps)):
        mv = model_view(b)
        mm = correspond(mv, r, d, ckmap, have_hooks) + r.get("trash_mismatch", [])
        res["decisions"] += len(mv["decisions"])
        res["rebuilds"] += sum(1 for x in mv["decisions"] if x.endswith(" 1"))
        res["reuses"] += sum(1 for x in mv["decisions"] if x.endswith(" 0"))
        if i < len(detects) and r["detect"] is not None:
            res["detects"].append(r["detect"])
            if detects[i] != r["detect"]:
                mm.append("detect_modifications: model %d / impl %d" % (detects[i], r["detect"]))
            # O4, the quick-check path: start_maintenance(full_check=False) deploys only when DetectModifications fires.  Where
            # it stays silent although the sources changed in a way it is built to see (the model, fed with the mtimes of the
            # data directories and their *.yaml files, fires) and a full deployment has artefacts to rewrite, the artefacts in
            # use stay those of the earlier sources
            if detects[i] == 1 and r["detect"] == 0 and r["rewritten"]:
                res["violations"].append(("C12:quick-check:stale", "after step %d (%s) start_maintenance(full_check=False) does not deploy — "
                                          "DetectModifications reports no change — and leaves %s as built from the earlier sources (a full deployment "
                                          "rewrites them)" % (i, (hist.get("edits") or [[]] * i)[i - 1] if 0 < i <= len(hist.get("edits") or []) else "no edit", r["rewritten"])))
        for m in mm:
            res["mismatches"].append({"deploy": i, "what": m})
        if r["rc"] not in (0, 1):
            res["violations"].append(("C12:deploy:crash", "deployment %d exited with %d: %s" % (i, r["rc"], r["raw"][-600:])))
    if len(blocks) != len(reals):
        res["mismatches"].append({"deploy": -1, "what": "driver produced %d deployments for %d" % (len(blocks), len(reals))})
    # O1: a deployment with no source change rewrites nothing and succeeds as before
    if r2["rewritten"]:
        res["violations"].append(("C12:no-change-deploy:rewrote", "redeploying unchanged sources rewrote %s" % r2["rewritten"]))
    if r2["tasks"].get("workspace_update") != reals[-2]["tasks"].get("workspace_update"):
        res["violations"].append(("C12:no-change-deploy:verdict", "redeploying unchanged sources changed the verdict"))
    # O2: incremental vs clean
    croot = os.path.join(work, tag + "_clean")
    shutil.rmtree(croot, ignore_errors=True)
    os.makedirs(croot)
    w.write(croot)
    rc_ = runner.deploy(croot, w.clock + 3)
    dclean = runner.dump(croot)
    res["deploys"] += 1
    # (the yardstick applies to sources a clean deployment can build; otherwise the deployer keeps what it built earlier,
    # by design, and the correspondence with the model above is the judge)
    final_ok = view.deployable()
    res["final_deployable"] = final_ok
    diffs = dc.compare_dumps(d2, dclean) if final_ok else []
    for n, what in diffs:
        res["violations"].append(("C12:incremental-vs-clean:%s" % what.split(" differs")[0].replace(" ", "-"),
                                  "after the history, %s: %s (clean deploy of the final sources disagrees)" % (n, what)))
    if final_ok and (rc_["tasks"].get("workspace_update") == 1) != (reals[-2]["tasks"].get("workspace_update") == 1):
        res["violations"].append(("C12:incremental-vs-clean:verdict", "incremental and clean deployments return different verdicts"))
    # O3: session transcript on both
    if check_sessions and not diffs and final_ok:
        pairs = dc.session_inputs(w)
        if pairs:
            _, t1 = runner.session(root, pairs)
            _, t2 = runner.session(croot, pairs)
            res["session_lines"] = len(t1)
            if t1 != t2:
                first = next((a for a, b in zip(t1, t2) if a != b), "length")
                res["violations"].append(("C12:incremental-vs-clean:session", "session transcripts differ, first: %s" % first))
    res["final_build"] = sorted(os.listdir(os.path.join(root, "user", "build"))) if os.path.isdir(os.path.join(root, "user", "build")) else []
    shutil.rmtree(root, ignore_errors=True)
    shutil.rmtree(croot, ignore_errors=True)
    return res


def gen_history(rng, n_edits, big=False, epoch="2017"):
    """`epoch`: where the virtual clock of the history starts (dc.EPOCHS): every source mtime and every deployment time
    of the history lies there"""
    w = dc.base_workspace(rng, big=big, t0=dc.EPOCHS[epoch])
    hist = {"base": w.to_json(), "steps": [], "edits": [], "epoch": epoch}
    for _ in range(n_edits):
        k = rng.randint(1, 2)
        names = []
        for _ in range(k):
            names.append(dc.gen_edit(rng, w, extra=True))
        hist["steps"].append(w.to_json())
        hist["edits"].append(names)
    if not w.deployable():
        # end on sources a clean deployment can build: whatever vanished returns, whatever broke is repaired
        hist["edits"].append(w.repair())
        hist["steps"].append(w.to_json())
    return hist


def directed_histories(far=True):
    """one history per dependency edge of the build graph, each with an edit whose effect is visible in the artefact that
    depends on it (so that a staleness decision that ignores the edge shows as a content difference, not only as a
    disagreement with the model); then the same edges with edits that change white space only; then config sources
    dated far in the future (`far`: the scratch file system can hold such mtimes)"""
    out = []

    def mk(name, *edits, setup=None, **more):
        w = dc.base_workspace(random.Random(11))
        rel = w.resolve("sa.schema.yaml")
        f = copy.deepcopy(w.files[rel])
        f["packs"] = ["pk1", "pk2"]
        w.put(rel, f)
        for fn in (setup or []):
            fn(w)
        hist = {"base": w.to_json(), "steps": [], "edits": []}
        for label, fn in edits:
            fn(w)
            hist["steps"].append(w.to_json())
            hist["edits"].append([label])
        hist["directed"] = name
        hist.update(more)
        out.append(hist)

    def edit(rel_name, mut):
        def fn(w):
            rel = w.resolve(rel_name)
            f = copy.deepcopy(w.files[rel])
            mut(f)
            w.put(rel, f)
        return fn
    mk("primary syllabary -> packs, prisms", ("row_add da: new syllable sorting first",
       edit("da.dict.yaml", lambda f: f["rows"].append(["啊", "aa", 77]))))
    mk("imported table -> table, prisms, packs", ("row_add dx: new syllable", edit("dx.dict.yaml", lambda f: f["rows"].append(["哦", "ou", 66]))))
    mk("preset vocabulary -> table", ("essay: new phrase made of known characters",
       lambda w: edit("essay.txt", lambda f: f["rows"].append([w.files[w.resolve("da.dict.yaml")]["rows"][-1][0] + w.files[w.resolve("da.dict.yaml")]["rows"][-2][0], 400]))(w)))
    mk("vocabulary filters of a dictionary compiled earlier in the same deployment",
       ("list sb,sa", edit("default.yaml", lambda f: f.__setitem__("schema_list", ["sb", "sa"]))),
       ("row_add da", edit("da.dict.yaml", lambda f: f["rows"].append(["啊", "aa", 77]))))
    mk("schema algebra -> prism", ("algebra_add sa", edit("sa.schema.yaml", lambda f: f["algebra"].append("derive/^n/l/"))))
    mk("included config -> compiled schema -> prism", ("common: rule added", edit("common.yaml", lambda f: f["rules"].append("derive/^h/f/"))))
    mk("custom patch appears and vanishes",
       ("custom_on sa", lambda w: w.put("user/sa.custom.yaml", {"kind": "custom", "patch": [["speller/algebra/+", ["derive/^g/k/"]]]})),
       ("custom_off sa", lambda w: w.remove("user/sa.custom.yaml")))
    mk("custom patch commented out, then emptied, then restored",
       ("custom_on sa", lambda w: w.put("user/sa.custom.yaml", {"kind": "custom", "patch": [["speller/algebra/+", ["derive/^g/k/"]]]})),
       ("custom_commented sa", lambda w: w.put("user/sa.custom.yaml", {"kind": "custom", "patch": [], "commented": "comments"})),
       ("custom_empty sa", lambda w: w.put("user/sa.custom.yaml", {"kind": "custom", "patch": [], "commented": "empty"})),
       ("custom_on sa", lambda w: w.put("user/sa.custom.yaml", {"kind": "custom", "patch": [["speller/algebra/+", ["derive/^g/k/"]]]})))
    mk("comment-only default.custom",
       ("defcustom_commented", lambda w: w.put("user/default.custom.yaml", {"kind": "custom", "patch": [], "commented": "comments"})),)
    mk("comment-only custom of a schema, last",
       ("custom_commented sb", lambda w: w.put("user/sb.custom.yaml", {"kind": "custom", "patch": [], "commented": "comments"})),)
    mk("default.custom appears and vanishes",
       ("defcustom_on", lambda w: w.put("user/default.custom.yaml", {"kind": "custom", "patch": [["schema_list", ["{schema: sb}"]]]})),
       ("defcustom_off", lambda w: w.remove("user/default.custom.yaml")))
    mk("pack source -> pack", ("row_mod pk2", edit("pk2.dict.yaml", lambda f: f["rows"].__setitem__(0, ["们", f["rows"][0][1], 9]))))
    mk("user copy shadows and unshadows a shared schema",
       ("shadow sc", lambda w: w.put("user/sc.schema.yaml", dict({k: v for k, v in w.files["shared/sc.schema.yaml"].items() if k != "mtime"}, algebra=["derive/^d/t/"], version="2"))),
       ("unshadow sc", lambda w: w.remove("user/sc.schema.yaml")))

    # ---- the same edges, with edits whose byte difference is white space only but whose meaning differs
    def row(name, r):
        return edit(name, lambda f: f["rows"].append(list(r)))

    def recode(name, text, code):
        def mut(f):
            i = max(j for j, r in enumerate(f["rows"]) if r[0] == text)
            f["rows"][i] = [f["rows"][i][0], code] + list(f["rows"][i][2:])
        return edit(name, mut)
    mk("white space only: syllable boundary moved in the primary dictionary -> table, reverse db, prisms, packs",
       ("ws_syl da: `hao de` -> `ha ode`", recode("da.dict.yaml", "好的", "ha ode")),
       setup=[row("da.dict.yaml", ["好的", "hao de", 30])])
    mk("white space only: two syllables joined in an imported table -> table, prisms, packs",
       ("ws_syl dx: `ba bo` -> `babo`", recode("dx.dict.yaml", "你我", "babo")),
       setup=[row("dx.dict.yaml", ["你我", "ba bo", 20])])
    mk("white space only: syllable boundary moved in a pack source -> pack",
       ("ws_syl pk2: `da guo` -> `d aguo`", recode("pk2.dict.yaml", "大国", "d aguo")),
       setup=[row("pk2.dict.yaml", ["大国", "da guo", 9])])
    mk("white space only: code split in a table-style dictionary -> table, prism",
       ("ws_syl db: `abc` -> `ab c`", recode("db.dict.yaml", "和", "ab c")),
       setup=[row("db.dict.yaml", ["和", "abc"])])

    def tabswap(f):
        i = max(j for j, r in enumerate(f["rows"]) if r[0] == "ok a")
        f["rows"][i] = ["ok", "a ba"] + list(f["rows"][i][2:])
    mk("white space only: tab and space trade places in a row of an imported table (`ok a<TAB>ba` -> `ok<TAB>a ba`)",
       ("ws_tab dx", edit("dx.dict.yaml", tabswap)))

    def essay_space(f):
        i = max(j for j, r in enumerate(f["rows"]) if r[0] == dc.HAN[0] + dc.HAN[1])
        f["rows"][i] = [dc.HAN[0] + " " + dc.HAN[1], f["rows"][i][1]]
    mk("white space only: a space typed into a preset-vocabulary phrase made of known characters -> table",
       ("ws_essay", edit("essay.txt", essay_space)))
    mk("white space only: space moved inside an algebra rule of the schema -> compiled schema -> prism",
       ("ws_algebra sa", edit("sa.schema.yaml", lambda f: f["algebra"].__setitem__(f["algebra"].index("derive/^(.)a$/$1 e/"), "derive/^(.)a$/$1e /"))),
       setup=[edit("sa.schema.yaml", lambda f: f["algebra"].append("derive/^(.)a$/$1 e/"))])
    mk("white space only: space moved inside an algebra rule of a custom patch -> compiled schema -> prism",
       ("ws_algebra sa.custom", lambda w: w.put("user/sa.custom.yaml", {"kind": "custom", "patch": [["speller/algebra/+", ["derive/^(.)o$/$1u /"]]]})),
       setup=[lambda w: w.put("user/sa.custom.yaml", {"kind": "custom", "patch": [["speller/algebra/+", ["derive/^(.)o$/$1 u/"]]]})])

    # ---- sources that vanish and come back, break and get repaired; what the deployer does to the sources itself
    def gone(rel_name):
        def fn(w):
            rel = w.resolve(rel_name)
            w.attic = dict(getattr(w, "attic", {}))
            w.attic[rel] = {k: v for k, v in w.files[rel].items() if k != "mtime"}
            w.remove(rel)
        return fn

    def back(rel_name, mut=lambda f: None):
        def fn(w):
            rel = next(r for r in w.attic if r.endswith("/" + rel_name))
            f = w.attic.pop(rel)
            mut(f)
            w.put(rel, f)
        return fn
    add_row = lambda r: (lambda f: f["rows"].append(list(r)))
    setf = lambda k, v: (lambda f: f.__setitem__(k, v))
    mk("primary dictionary source vanishes (its table is reused), the schema is edited meanwhile, the source returns edited",
       ("gone da", gone("da.dict.yaml")),
       ("algebra_add sa", edit("sa.schema.yaml", lambda f: f["algebra"].append("derive/^n/l/"))),
       ("back da, row_add", back("da.dict.yaml", add_row(["啊", "aa", 77]))))
    mk("imported table vanishes and returns edited",
       ("gone dx", gone("dx.dict.yaml")), ("back dx, row_add", back("dx.dict.yaml", add_row(["哦", "ou", 66]))))
    mk("pack source vanishes (its table is kept), the primary dictionary is edited meanwhile, the pack source returns",
       ("gone pk1", gone("pk1.dict.yaml")),
       ("row_add da", edit("da.dict.yaml", add_row(["啊", "aa", 77]))),
       ("back pk1", back("pk1.dict.yaml")))
    mk("included config vanishes (the schema cannot be compiled), the schema is edited meanwhile, the config returns",
       ("gone common", gone("common.yaml")),
       ("algebra_add sa", edit("sa.schema.yaml", lambda f: f["algebra"].append("derive/^n/l/"))),
       ("back common", back("common.yaml")))
    mk("preset vocabulary vanishes, returns empty, returns with its phrases",
       ("gone essay", gone("essay.txt")),
       ("back essay, empty", back("essay.txt", lambda f: (f.__setitem__("saved", f["rows"]), f.__setitem__("rows", [])))),
       ("essay refilled", edit("essay.txt", lambda f: f.__setitem__("rows", f.pop("saved")))))
    mk("dictionary headers lose their version and get it back: primary, then a pack listed before another",
       ("dict_header da 1", edit("da.dict.yaml", setf("bad_header", True))),
       ("dict_header da 0, row_add", edit("da.dict.yaml", lambda f: (f.pop("bad_header"), f["rows"].append(["啊", "aa", 77])))),
       ("dict_header pk1 1", edit("pk1.dict.yaml", setf("bad_header", True))),
       ("dict_header pk1 0", edit("pk1.dict.yaml", lambda f: f.pop("bad_header"))))
    mk("a schema loses its id, becomes unparsable, is repaired: a dependency, then a listed one",
       ("schema_break sc no_id", edit("sc.schema.yaml", setf("broken", "no_id"))),
       ("schema_break sc unparsable, row_add da", lambda w: (edit("sc.schema.yaml", setf("broken", "unparsable"))(w), edit("da.dict.yaml", add_row(["啊", "aa", 77]))(w))),
       ("schema_fix sc", edit("sc.schema.yaml", lambda f: f.pop("broken"))),
       ("schema_break sb no_id", edit("sb.schema.yaml", setf("broken", "no_id"))),
       ("schema_fix sb, algebra", edit("sb.schema.yaml", lambda f: (f.pop("broken"), f.__setitem__("pad", 2)))))
    mk("schema list: a missing schema, a schema listed twice, entries that are no schema, no list at all, an empty list",
       ("list_odd sa,ghost", edit("default.yaml", setf("schema_list", ["sa", "ghost"]))),
       ("list_odd sb,sa,sb,sc,sa", edit("default.yaml", setf("schema_list", ["sb", "sa", "sb", "sc", "sa"]))),
       ("list_odd scalar,map-without-schema", edit("default.yaml", setf("schema_list", ["!just_a_scalar", "sc", "!{note: no schema here}", "sb"]))),
       ("list_odd none", edit("default.yaml", setf("schema_list", None))),
       ("list_odd []", edit("default.yaml", setf("schema_list", []))),
       ("list sa,sb", edit("default.yaml", setf("schema_list", ["sa", "sb"]))))
    mk("a schema without a dictionary is listed, then gets one",
       ("schema sd added and listed", lambda w: (w.put("shared/sd.schema.yaml", {"kind": "schema", "sid": "sd", "algebra": ["derive/^a/e/"]}),
                                                 edit("default.yaml", setf("schema_list", ["sd", "sa"]))(w))),
       ("sd gets dictionary db", edit("sd.schema.yaml", lambda f: f.update({"dict": "db", "prism": "sd", "style": "table"}))))
    mk("algebra: a rule that does not load (the prism is built without any algebra), then repaired",
       ("badrule sc derive/x", edit("sc.schema.yaml", lambda f: f["algebra"].append("derive/x"))),
       ("row_add da meanwhile", edit("da.dict.yaml", add_row(["啊", "aa", 77]))),
       ("algebra repaired", edit("sc.schema.yaml", lambda f: f.__setitem__("algebra", ["derive/^sh/s/"]))))
    mk("line ends and versions of dictionary files: CRLF, no final newline, back; version bumps",
       ("eol da crlf", edit("da.dict.yaml", setf("eol", "crlf"))),
       ("eol da nofinal", edit("da.dict.yaml", setf("eol", "nofinal"))),
       ("eol pk2 nofinal", edit("pk2.dict.yaml", setf("eol", "nofinal"))),
       ("eol dx crlf", edit("dx.dict.yaml", setf("eol", "crlf"))),
       ("dict_version da 2", edit("da.dict.yaml", setf("version", "2"))),
       ("dict_version dx 2", edit("dx.dict.yaml", setf("version", "2"))))

    def user_copy(sid, version, **chg):
        def fn(w):
            f = {k: v for k, v in w.files["shared/%s.schema.yaml" % sid].items() if k != "mtime"}
            f.update(chg)
            f["version"] = version
            w.put("user/%s.schema.yaml" % sid, f)
        return fn

    def user_default(version, **chg):
        def fn(w):
            f = {k: v for k, v in w.files["shared/default.yaml"].items() if k != "mtime"}
            f.update(chg)
            f["version"] = version
            w.put("user/default.yaml", f)
        return fn
    mk("user copies of schemas next to the shared ones: same version (kept), older (moved to trash), stamped by the old customizer (trash), newer (kept), without a version (trash)",
       ("shadow_old sc 1", user_copy("sc", "1", algebra=["derive/^d/t/"])),
       ("shadow_old sc 0.9", user_copy("sc", "0.9", algebra=["derive/^b/p/"])),
       ("shadow_old sa 1.custom.777", user_copy("sa", "1.custom.777", algebra=["derive/^g/k/"])),
       ("shadow_old sb 2", user_copy("sb", "2", pad=2)),
       ("shadow_old sb none", user_copy("sb", None, pad=3)))
    mk("multi-part versions: shared 1.10 against user 1.9 (trash) and 1.10.1 (kept); shared `2.0.minimal` against user 2.0 (kept) and 2 (kept)",
       ("shared_version sc 1.10, shadow_old sc 1.9", lambda w: (edit("sc.schema.yaml", setf("version", "1.10"))(w), user_copy("sc", "1.9", algebra=["derive/^d/t/"])(w))),
       ("shadow_old sc 1.10.1", user_copy("sc", "1.10.1", algebra=["derive/^b/p/"])),
       ("shared_version sa 2.0.minimal, shadow_old sa 2.0", lambda w: (edit("sa.schema.yaml", setf("version", "2.0.minimal"))(w), user_copy("sa", "2.0", algebra=["derive/^g/k/"])(w))),
       ("shadow_old sa 2", user_copy("sa", "2", algebra=["derive/^d/t/"])),
       ("shadow_old sa 1.9.9", user_copy("sa", "1.9.9", algebra=["derive/^b/p/"])))
    mk("user copies of default.yaml: same version (kept), customizer stamp (trash), newer (kept), older (trash)",
       ("shadow_default 1.0", user_default("1.0", page_size=7, schema_list=["sb"])),
       ("shadow_default 1.0.custom.42", user_default("1.0.custom.42", page_size=8, schema_list=["sc"])),
       ("shadow_default 1.1", user_default("1.1", page_size=9, schema_list=["sb", "sc"])),
       ("shared_version default 1.2", lambda w: w.put("shared/default.yaml", dict({k: v for k, v in w.files["shared/default.yaml"].items() if k != "mtime"}, version="1.2"))))
    mk("compiled configs of other vintages in the staging directory: no timestamps, no build info, a time that is no number, timestamps that are no map",
       ("touch nothing 1", lambda w: w.touch("shared/essay.txt")), ("touch nothing 2", lambda w: w.touch("shared/essay.txt")),
       ("touch nothing 3", lambda w: w.touch("shared/essay.txt")), ("touch nothing 4", lambda w: w.touch("shared/essay.txt")),
       tamper={"1": [["no_timestamps", "sa.schema.yaml"]], "2": [["no_build_info", "default.yaml"], ["bad_timestamp", "sb.schema.yaml"]],
               "3": [["timestamps_scalar", "sc.schema.yaml"]], "4": [["bad_timestamp_word", "default.yaml"]]})
    mk("what an older installation left in the user directory: links to shared files, a dangling link, installation info of another version, binaries",
       ("custom_on sa", lambda w: w.put("user/sa.custom.yaml", {"kind": "custom", "patch": [["menu/page_size", 7]]})),
       ("row_add dx", edit("dx.dict.yaml", add_row(["哦", "ou", 66]))),
       setup=[lambda w: w.put("user/installation.yaml", {"kind": "raw", "text": "installation_id: \"verif-0001\"\ndistribution_code_name: verif\n"
                                                         "distribution_version: \"0.0.1\"\nrime_version: \"0.0.1\"\nsync_dir: \"sync_elsewhere\"\nbackup_config_files: false\n"}),
              lambda w: w.put("user/old.table.bin", {"kind": "raw", "text": "not a table"})],
       legacy_symlinks=[[1, "dx.dict.yaml", "../shared/dx.dict.yaml"], [1, "sc.schema.yaml", "../shared/sc.schema.yaml"],
                        [2, "gone.yaml", "../shared/gone.yaml"], [2, "rime.log", "../shared/nothing"]])
    # ---- files that reach an artefact only indirectly, edited alone
    mk("preset reached only through key_binder/import_preset -> compiled schema",
       ("indirect kb: binding added", edit("kb.yaml", lambda f: f["rows"].append(["Control+g", "Escape"]))),
       ("indirect_custom_on kb", lambda w: w.put("user/kb.custom.yaml", {"kind": "custom", "patch": [["key_binder/bindings/+", ["{when: always, accept: Control+z, send: Escape}"]]]})),
       ("indirect_custom_off kb", lambda w: w.remove("user/kb.custom.yaml")))
    mk("patch kept in a file of its own (__patch: tweaks:/patch) -> compiled schema -> prism",
       ("indirect tweaks: page size", edit("tweaks.yaml", lambda f: f.__setitem__("patch", [["menu/page_size", 9]]))),
       ("indirect tweaks: algebra", edit("tweaks.yaml", lambda f: f.__setitem__("patch", [["speller/algebra/+", ["derive/^d/t/"]]]))),
       ("custom_on sc (ignored: the schema names its own patch)", lambda w: w.put("user/sc.custom.yaml", {"kind": "custom", "patch": [["menu/page_size", 3]]})))
    mk("vocabulary file of another name (vocabulary: lexicon) -> pack tables",
       ("indirect lexicon: phrase added", edit("lexicon.txt", lambda f: f["rows"].append([dc.HAN[31] + dc.HAN[32], 260]))),
       ("pk1 lets every phrase in", edit("pk1.dict.yaml", lambda f: f.pop("min_phrase_weight"))),
       ("indirect lexicon: phrase removed", edit("lexicon.txt", lambda f: f["rows"].pop())))
    mk("vocabulary filters of a pack compiled earlier in the same deployment (both on the named vocabulary): the later pack edited alone",
       ("row_add pk2", edit("pk2.dict.yaml", lambda f: f["rows"].append(["们", "ba", 9]))),
       ("row_add pk1 (the filtering one) alone", edit("pk1.dict.yaml", lambda f: f["rows"].append(["们", "bo", 9]))))
    mk("entries that start with # after `# no comment`: an edit confined to them -> table, reverse db",
       ("hash_row da: text changed", edit("da.dict.yaml", lambda f: f["hash_rows"].__setitem__(0, ["#" + dc.HAN[41], "ba", 33]))),
       ("hash_row da: entry added", edit("da.dict.yaml", lambda f: f["hash_rows"].append(["#more", "de", 5]))),
       ("hash_row dx: first such entry of an imported table", edit("dx.dict.yaml", lambda f: f.__setitem__("hash_rows", [["#x", "ba", 4]]))),
       ("hash_row dx: weight changed", edit("dx.dict.yaml", lambda f: f.__setitem__("hash_rows", [["#x", "ba", 40]]))))

    def override_on(n, mut):
        def fn(w):
            f = {k: copy.deepcopy(v) for k, v in w.files["shared/" + n].items() if k != "mtime"}
            mut(f)
            w.put("user/" + n, f)
        return fn
    # a name starts (stops) resolving to a copy in the user directory; each of these also runs with the last two deployments
    # in one process (variant same_process), once ending on the appearance and once on the disappearance
    mk("override: a user copy of the preset vocabulary shadows the shared one, then goes",
       ("override_on essay.txt", override_on("essay.txt", lambda f: f.__setitem__("rows", [[t, 500 - wt] for t, wt in f["rows"] if t][:-1]))),
       ("override_off essay.txt", lambda w: w.remove("user/essay.txt")))
    mk("override: a user copy of the named vocabulary shadows the shared one, then goes",
       ("override_on lexicon.txt", override_on("lexicon.txt", lambda f: f.__setitem__("rows", [[t, 400 - wt] for t, wt in f["rows"]]))),
       ("override_off lexicon.txt", lambda w: w.remove("user/lexicon.txt")))
    mk("override: a user copy of an included config and of an imported table shadow the shared ones, then go",
       ("override_on common.yaml, dx.dict.yaml", lambda w: (override_on("common.yaml", lambda f: f["rules"].append("derive/^h/f/"))(w),
                                                            override_on("dx.dict.yaml", lambda f: f["rows"].append(["哦", "ou", 66]))(w))),
       ("override_off common.yaml, dx.dict.yaml", lambda w: (w.remove("user/common.yaml"), w.remove("user/dx.dict.yaml"))))
    mk("files that come and go with old modification times: only the directory shows it (cp -p, rm)",
       ("old_mtime sa.custom", lambda w: w.put("user/sa.custom.yaml", {"kind": "custom", "patch": [["menu/page_size", 7]], "skew": -500000})),
       ("custom_off sa", lambda w: w.remove("user/sa.custom.yaml")),
       ("old_mtime default.custom", lambda w: w.put("user/default.custom.yaml", {"kind": "custom", "patch": [["menu/page_size", 4]], "skew": -400000})),
       ("old_mtime user copy of dx", lambda w: w.put("user/dx.dict.yaml", dict({k: v for k, v in w.files["shared/dx.dict.yaml"].items() if k != "mtime"},
                                                                                rows=w.files["shared/dx.dict.yaml"]["rows"] + [["哦", "ou", 66]], skew=-300000))),
       ("rm user copy of dx", lambda w: w.remove("user/dx.dict.yaml")))
    if not far:
        return out

    # ---- config sources dated far in the future (the rest of the workspace and the deployments stay in 2017).  The
    # recorded time is `(int)mtime`: negative from 2038-01-19 on, small again from 2106-02-07 on.  Every history ends
    # with the far-dated files still there, so the no-change redeploy sees them.
    def dated(skew, rel_name, mut):
        def fn(w):
            rel = w.resolve(rel_name)
            f = copy.deepcopy(w.files[rel])
            mut(f)
            f["skew"] = skew
            w.put(rel, f)
        return fn

    def custom(rel, patch, skew=0, mtime=None):
        def fn(w):
            w.put(rel, dict({"kind": "custom", "patch": patch}, **({"skew": skew} if skew else {})))
            if mtime is not None:
                w.files[rel]["mtime"] = mtime
        return fn
    mk("config sources dated 2040, one per kind of resource a compiled config records",
       ("custom_on sa dated 2040", custom("user/sa.custom.yaml", [["menu/page_size", 7]], dc.SKEW_2040)),
       ("schema sb edited, dated 2040", dated(dc.SKEW_2040, "sb.schema.yaml", lambda f: f.__setitem__("version", "2"))),
       ("included config edited, dated 2040", dated(dc.SKEW_2040, "common.yaml", lambda f: f["rules"].append("derive/^h/f/"))),
       ("defcustom_on dated 2040", custom("user/default.custom.yaml", [["menu/page_size", 6]], dc.SKEW_2040)),
       ("default.yaml edited, dated 2040", dated(dc.SKEW_2040, "default.yaml", lambda f: f.__setitem__("page_size", 8))))
    mk("a custom patch edited across 2038-01-19T03:14:08Z: mtime 2^31-1, then 2^31",
       ("custom_on sa at 2^31-1", custom("user/sa.custom.yaml", [["speller/algebra/+", ["derive/^g/k/"]]], mtime=2**31 - 1)),
       ("custom_mod sa at 2^31", custom("user/sa.custom.yaml", [["speller/algebra/+", ["derive/^d/t/"]]], mtime=2**31)))
    mk("config sources dated after 2106-02-07 (recorded as small numbers), then one comes back to the present",
       ("custom_on sa dated 2106", custom("user/sa.custom.yaml", [["speller/algebra/+", ["derive/^g/k/"]]], dc.SKEW_2106)),
       ("schema sc edited, dated 2106", dated(dc.SKEW_2106, "sc.schema.yaml", lambda f: f["algebra"].append("derive/^d/t/"))),
       ("custom_mod sa dated by the clock again (mtime decreases)", custom("user/sa.custom.yaml", [["speller/algebra/+", ["derive/^b/p/"]]])),
       ("custom_on sb dated 2040", custom("user/sb.custom.yaml", [["menu/page_size", 4]], dc.SKEW_2040)))
    return out


def shrink(c, runner, hist, work, have_hooks, bad):
    """drop steps while the history still fails (bad(res) true)"""
    cur = hist
    changed = True
    while changed and len(cur["steps"]) > 0:
        changed = False
        for i in range(len(cur["steps"])):
            # steps are snapshots: dropping one drops the deployment in between, its edits stay part of the next step
            edits = [list(e) for e in cur["edits"]]
            if i + 1 < len(edits):
                edits[i + 1] = edits[i] + edits[i + 1]
            cand = {"base": cur["base"], "steps": cur["steps"][:i] + cur["steps"][i + 1:], "edits": edits[:i] + edits[i + 1:]}
            for k in ("directed", "epoch", "variant"):
                if k in cur:
                    cand[k] = cur[k]
            if i == len(cur["steps"]) - 1 and not cand["steps"]:
                continue
            r = run_history(c, runner, cand, work, have_hooks, "shrink")
            if bad(r):
                cur = cand
                changed = True
                break
    return cur


# ------------------------------------------------------------------- excluded points of the theorems, run for real
def probe_pack_after_missing_pack(runner, work):
    """SourcesOK excludes a listed pack without source.  The model says: the syllabary is lost for the packs after
    it (Syl.empty), and such a pack keeps a 'valid' checksum.  Run it: [pk1 (missing), pk2] then add pk1."""
    rng = random.Random(7)
    w = dc.base_workspace(rng)
    rel = w.resolve("sa.schema.yaml")
    f = copy.deepcopy(w.files[rel])
    f["packs"] = ["pk1", "pk2"]
    w.put(rel, f)
    saved = w.files.pop("shared/pk1.dict.yaml")
    h0 = w.to_json()
    w.put("shared/pk1.dict.yaml", {k: v for k, v in saved.items() if k != "mtime"})
    h1 = w.to_json()
    return {"base": h0, "steps": [h1], "edits": [["add pk1.dict.yaml (listed before, source missing until now)"]]}


def run(c):
    quick = c.tier == "quick"
    have_hooks = dc.hooks_present()
    # G
    rc, out = vlib.sh([sys.executable, os.path.join(vlib.ROOT, "gen", "deploy_facts.py"), vlib.REPO,
                       os.path.join(vlib.LEAN, "RimeModel", "Gen", "DeployFacts.lean")])
    if rc != 0:
        raise vlib.BuildError("translator deploy_facts failed: " + out)
    gen = json.loads(out[out.index("{"):])
    # P
    audit = vlib.lean_audit("C12")
    if not quick and audit["ok"]:
        ok, log = vlib.leanchecker("RimeModel.Props.C12")
        if not ok:
            audit["ok"] = False
            audit["failures"].append(("RimeModel.Props.C12", "leanchecker: " + log))
    rcd, outd = vlib.lake_build(["driver_c12"])
    if rcd != 0:
        raise vlib.BuildError("driver_c12 does not build: " + outd[-3000:])
    # B
    exe, bdir = vlib.build_harness("c12_harness", FLAVOUR, ["c12_harness.cc"], libs=["-lmarisa"])
    runner = dc.Runner(exe, FLAVOUR)
    # can the scratch file system hold mtimes past 2^31 / 2^32 s?  (if not: those histories are left out, and said so)
    far = dc.far_mtimes_supported(c.work)
    if not far:
        del dc.FAR_SKEWS[:]
    # which way the tree under test records source timestamps (the model follows through Gen.DeployFacts.timestampBits)
    ts_bits = gen["facts"].get("timestampBits", 0)
    dc.set_timestamp_bits(ts_bits)
    # K + O
    n_hist, n_edits = (22, 5) if quick else (300, 8)
    stats = {"histories": 0, "deploys": 0, "decisions": 0, "rebuilds": 0, "reuses": 0, "mismatches": 0, "edit_kinds": {},
             "session_lines": 0, "corpus": 0, "epochs": {}}
    samples, nontrivial = [], set()
    all_mm, all_viol = [], []

    def account(hist, res, label):
        stats["histories"] += 1
        for k in ("deploys", "decisions", "rebuilds", "reuses"):
            stats[k] += res[k]
        stats["session_lines"] += res.get("session_lines", 0)
        stats["trashed"] = stats.get("trashed", 0) + res.get("trashed", 0)
        stats["undeployable_final"] = stats.get("undeployable_final", 0) + (0 if res.get("final_deployable", True) else 1)
        stats["detect_fired"] = stats.get("detect_fired", 0) + sum(res["detects"])
        stats["detect_silent"] = stats.get("detect_silent", 0) + sum(1 for d in res["detects"] if not d)
        stats["mismatches"] += len(res["mismatches"])
        for names in hist.get("edits", []):
            for n in names:
                stats["edit_kinds"][n.split(" ")[0]] = stats["edit_kinds"].get(n.split(" ")[0], 0) + 1
        if res["rebuilds"] and res["reuses"]:
            nontrivial.add(json.dumps(hist.get("edits"), sort_keys=True))
        if len(samples) < 4:
            samples.append({"label": label, "edits": hist.get("edits"), "deploys": res["deploys"], "rebuild_decisions": res["rebuilds"],
                            "reuse_decisions": res["reuses"], "final_build_dir": res.get("final_build")})

    # corpus first
    cdir = os.path.join(vlib.CORPUS, "C12")
    for p in sorted(glob.glob(os.path.join(cdir, "*.json"))):
        hist = json.load(open(p))
        res = run_history(c, runner, hist, c.work, have_hooks, "corpus")
        stats["corpus"] += 1
        account(hist, res, "corpus:" + os.path.basename(p))
        for sig, what in res["violations"]:
            # a corpus case that fails again is reported under the signature it was found with
            all_viol.append((hist.get("signature", sig), (hist.get("what", "") + " " + what).strip() + " [corpus %s]" % os.path.basename(p), hist))
        for m in res["mismatches"]:
            all_mm.append((m, hist))
    # directed histories: one per dependency edge
    for i, hist in enumerate(directed_histories(far)):
        res = run_history(c, runner, hist, c.work, have_hooks, "dir%d" % i)
        account(hist, res, "directed: " + hist["directed"])
        stats["directed"] = stats.get("directed", 0) + 1
        for sig, what in res["violations"]:
            all_viol.append((sig, what + " [directed: %s]" % hist["directed"], hist))
        for m in res["mismatches"]:
            all_mm.append((m, hist))
    # a deployment on a full disk between two normal ones: the first few directed histories, the last deployment of each
    # limited to a few file sizes (inside the compiled schema, inside build info, past the configs but inside the tables)
    limits = (150, 333, 700, 3000) if quick else (60, 150, 333, 500, 700, 1500, 3000, 6000, 20000)
    lim_hists = [h for h in directed_histories(False) if any(k in h["directed"] for k in (
        ("schema algebra", "included config", "custom patch appears", "primary syllabary") if quick else
        ("schema algebra", "included config", "custom patch", "default.custom", "primary syllabary", "imported table", "preset vocabulary",
         "pack source", "user copy")))]
    for i, hist in enumerate(lim_hists):
        for lim in limits:
            h2 = dict(hist, file_size_limit=lim)
            res = run_history(c, runner, h2, c.work, have_hooks, "lim%d_%d" % (i, lim))
            stats["limited_deployments"] = stats.get("limited_deployments", 0) + 1
            stats["deploys"] += res["deploys"]
            for sig, what in res["violations"]:
                all_viol.append((sig, what + " [directed: %s]" % hist["directed"], h2))
    # the same deployments driven the other ways the API offers (judged by the property alone): over a prebuilt directory
    # shipped with the shared data, by RimePrebuildAllSchemas, piecewise by RimeDeployConfigFile / RimeDeploySchema, and
    # with a verbose recompilation (`rime_deployer --compile`) at the end
    base_dir = directed_histories(False)
    pick = lambda *keys: [h for h in base_dir if any(h["directed"].startswith(k) for k in keys)]
    if quick:
        variants = ([("prebuilt", h) for h in pick("primary syllabary", "custom patch appears", "user copy shadows",
                                                   "primary dictionary source vanishes", "pack source vanishes")]
                    + [("prebuild", h) for h in pick("imported table ->")]
                    + [("piecewise", h) for h in pick("included config ->", "default.custom appears")]
                    + [("verbose", h) for h in pick("preset vocabulary ->")]
                    + [("same_process", h) for h in pick("preset vocabulary ->")]
                    + [("same_process", hh) for h in pick("override:") for hh in (h, dict(h, steps=h["steps"][:1], edits=h["edits"][:1]))])
    else:
        ok_final = [h for h in base_dir if dc.Workspace.from_json(h["steps"][-1]).deployable() and not h.get("tamper") and not h.get("legacy_symlinks")]
        variants = [("same_process", hh) for h in ok_final for hh in ([h] + ([dict(h, steps=h["steps"][:1], edits=h["edits"][:1])] if "override:" in h["directed"] else []))] + [(m, h) for m in ("prebuilt", "prebuild", "piecewise", "verbose") for h in ok_final
                    if not (m in ("prebuild", "piecewise", "verbose") and ("user cop" in h["directed"] or "multi-part" in h["directed"]))]
    for i, (mode, hist) in enumerate(variants):
        h2 = dict(hist, variant=mode)
        res = run_history(c, runner, h2, c.work, have_hooks, "var%d" % i)
        stats["variant_deployments"] = stats.get("variant_deployments", 0) + res["deploys"]
        stats.setdefault("variants", {})[mode] = stats.setdefault("variants", {}).get(mode, 0) + 1
        stats["deploys"] += res["deploys"]
        stats["session_lines"] += res.get("session_lines", 0)
        for sig, what in res["violations"]:
            all_viol.append((sig, what + " [%s; directed: %s]" % (mode, hist["directed"]), h2))
    # the older patching mechanism (Customizer::UpdateConfigFile), same reading of the property
    for i in range(6 if quick else 150):
        seed = c.rng.randrange(2**31)
        v, runs, log = run_customizer(c, runner, random.Random(seed), c.work, "cz%d" % i)
        stats["customizer_updates"] = stats.get("customizer_updates", 0) + runs
        for sig, what in v:
            all_viol.append((sig, what, {"base": None, "steps": [], "customizer_seed": seed}))
    # generated histories
    for h in range(n_hist):
        big = (h % 5 == 4)
        # every third history lives entirely in a far epoch: 2040, across 2^31 (2038), across 2^32 (2106)
        epoch = ("2040", "2038", "2106")[(h // 3) % 3] if (far and h % 3 == 1) else "2017"
        stats["epochs"][epoch] = stats["epochs"].get(epoch, 0) + 1
        hist = gen_history(c.rng, n_edits, big=big, epoch=epoch)
        res = run_history(c, runner, hist, c.work, have_hooks, "h%d" % h)
        account(hist, res, "generated")
        for sig, what in res["violations"]:
            all_viol.append((sig, what, hist))
        for m in res["mismatches"]:
            all_mm.append((m, hist))
        if res["violations"] or res["mismatches"]:
            if len(all_viol) + len(all_mm) > 6:
                break
    # verdicts
    seen = set()
    for sig, what, hist in all_viol:
        if sig in seen:
            continue
        seen.add(sig)
        small = hist
        if len(hist["steps"]) > 1 and "signature" not in hist:
            small = shrink(c, runner, hist, c.work, have_hooks, lambda r, s=sig: any(v[0] == s for v in r["violations"]))
        c.report(sig, what, {"kind": "impl-violation", "history": small})
    unexpected = [v for v in all_viol if not vlib.known_status(c.pid, v[0]) or vlib.known_status(c.pid, v[0]).get("status") != "open"]
    if all_mm and not unexpected:
        m, hist = all_mm[0]
        small = shrink(c, runner, hist, c.work, have_hooks, lambda r: bool(r["mismatches"])) if len(hist["steps"]) > 1 else hist
        r = run_history(c, runner, small, c.work, have_hooks, "mm")
        # property on the shrunk disagreement
        if r["violations"]:
            c.report(r["violations"][0][0], r["violations"][0][1], {"kind": "impl-violation", "history": small})
        else:
            c.report("C12:correspondence", "model of the deployer and the implementation disagree: %s" % m["what"][:300],
                     {"kind": "correspondence", "broken": "driver_c12 vs c12_harness", "first": r["mismatches"][:4] or [m],
                      "history": small}, no_input=True)
    if gen.get("unknown_c12") and not unexpected:
        c.report("C12:translator", "gen/deploy_facts.py no longer understands how source timestamps are written and read: %s" % gen["unknown_c12"],
                 {"kind": "proof", "broken": "translator gen/deploy_facts.py (timestampBits); premise of C12.timestamp_width_known",
                  "unknown": gen["unknown_c12"]}, no_input=True)
    elif not audit["ok"] and not unexpected:
        c.report("C12:proof", "proof obligation no longer checks: %s" % "; ".join("%s: %s" % f for f in audit["failures"])[:600],
                 {"kind": "proof", "broken_theorems": audit["failures"], "lean_log": audit["log"][-3000:]}, no_input=True)
    cov = vlib.proof_cov(audit, "lake build RimeModel.Props.C12 && #print axioms (all theorems) && forbidden-token scan"
                         + ("" if quick else " && leanchecker RimeModel.Props.C12"),
                         vlib.STD_TRUSTED + ["checks/deploy_common.py (abstraction of the generated workspace)",
                                             "config compiler records what it reads (CompilerOK)", "CRC32 injective on the contents at hand"])
    cov.update({
        "evaluations": stats["deploys"], "distinct_nontrivial": len(nontrivial),
        "rule": ("generated edit histories over a 3-schema workspace (rows, algebra, custom patches on/off, imports, packs, schema list, "
                 "preset vocabulary, touch, user-directory shadow copies, dependencies, included config, padding > 8 KiB, edits that "
                 "change white space only but not the meaning-bearing letters: syllable boundary moved / joined / split, tab and space "
                 "trading places, a space typed into a vocabulary phrase; files re-dated to 2040 / 2106; every third history with "
                 "all mtimes and deployment times in 2040, across 2^31 s or across 2^32 s; sources that vanish and return (dictionaries, "
                 "imports, packs, included config, vocabulary), broken / repaired schemas and dictionary headers, odd schema lists, user copies "
                 "of every vintage next to shared ones, CRLF / missing final newline, compiled configs of other vintages, legacy links); one evaluation = "
                 "one real deployment compared with the model; a history is non-trivial when its deployments took both 'rebuild' and "
                 "'reuse' decisions; distinct by edit list"),
        "samples": samples, "histories": stats["histories"], "decisions_compared": stats["decisions"],
        "rebuild_decisions": stats["rebuilds"], "reuse_decisions": stats["reuses"], "edit_kind_distribution": stats["edit_kinds"], "deployments_on_a_full_disk": stats.get("limited_deployments", 0),
        "histories_driven_other_ways": stats.get("variants", {}), "customizer_updates": stats.get("customizer_updates", 0), "user_copies_moved_to_trash": stats.get("trashed", 0),
        "histories_ending_undeployable": stats.get("undeployable_final", 0),
        "session_transcript_lines": stats["session_lines"], "corpus_cases": stats["corpus"], "directed_histories": stats.get("directed", 0),
        "far_future_mtimes": "run" if far else "NOT RUN (the scratch file system cannot hold mtimes past 2^31 s)",
        "generated_histories_by_epoch": stats["epochs"],
        "detect_modifications_fired": stats.get("detect_fired", 0), "detect_modifications_silent": stats.get("detect_silent", 0),
        "model_impl_disagreements": stats["mismatches"], "monitor_violations": len(all_viol),
        "decision_hook_present": have_hooks,
        "decision_log_correspondence": "run" if have_hooks else "NOT RUN (librime has no RIME_VERIF_DECISION hook); rewritten-file sets, timestamps, checksum bijection and verdicts compared instead",
        "generated_facts": gen["facts"], "generated_facts_unknown": gen["unknown"] + gen.get("unknown_c12", []),
        "source_timestamp_bits": ts_bits,
        "source_hash": vlib.source_hash(SRC_FILES), "proof_failures": audit["failures"], "flavour": FLAVOUR,
    })
    c.cov = cov
    c.assumptions = [("edits change mtime (1 s resolution), no source has mtime 0" if ts_bits == 64 else
                      "edits change the recorded mtime `(int)time_t` (1 s resolution; any two mtimes less than 2^32 s apart differ there), "
                      "no source is recorded with time 0 (mtime a multiple of 2^32 s) — this tree stores 32-bit timestamps"),
                     "CRC32 injective on the file contents at hand",
                     "the config compiler records every resource it reads in __build_info/timestamps and reads nothing else",
                     "final sources deployable: listed schemas exist, dictionaries / imports / packs of reachable schemas have sources",
                     "one prism name per schema; a pack belongs to one primary dictionary (idempotence, no-stale-use)",
                     "the comparison with a clean deployment is made when the final sources are deployable (else the deployer keeps earlier "
                     "artefacts by design and only the correspondence with the model is checked)",
                     "Customizer::UpdateConfigFile: releases of the source carry a higher version with the same number of parts (its update strategy)"]


def replay(c, r):
    hist = r.get("history") or (r if "base" in r and "steps" in r else None)      # a replay file, or a corpus history itself
    if hist and hist.get("customizer_seed") is not None:
        exe, bdir = vlib.build_harness("c12_harness", FLAVOUR, ["c12_harness.cc"], libs=["-lmarisa"])
        v, runs, log = run_customizer(c, dc.Runner(exe, FLAVOUR), random.Random(hist["customizer_seed"]), c.work, "replay")
        for sig, what in v:
            print("replay: %s: %s" % (sig, what))
        print("replay: customizer history %s -> %s" % (log, "FAILS" if v else "ok"))
        return 1 if v else 0
    if not hist:
        print("replay: this file names a broken obligation, no concrete input:", r.get("what"))
        return 1
    exe, bdir = vlib.build_harness("c12_harness", FLAVOUR, ["c12_harness.cc"], libs=["-lmarisa"])
    # the model follows the tree under test (Gen.DeployFacts): regenerate before building the driver
    vlib.sh([sys.executable, os.path.join(vlib.ROOT, "gen", "deploy_facts.py"), vlib.REPO,
             os.path.join(vlib.LEAN, "RimeModel", "Gen", "DeployFacts.lean")])
    vlib.lake_build(["driver_c12"])
    runner = dc.Runner(exe, FLAVOUR)
    res = run_history(c, runner, hist, c.work, dc.hooks_present(), "replay")
    for sig, what in res["violations"]:
        print("replay: %s: %s" % (sig, what))
    for m in res["mismatches"][:5]:
        print("replay: correspondence: deploy %s: %s" % (m["deploy"], m["what"]))
    print("replay: edits %s -> %s" % (hist.get("edits"), "FAILS" if (res["violations"] or res["mismatches"]) else "ok"))
    return 1 if (res["violations"] or res["mismatches"]) else 0
