"""C13 — an interrupted deployment is repaired by the next, never mistaken for complete."""
import os, sys, json, shutil, copy, glob, random, hashlib
import vlib
from checks import deploy_common as dc
from checks import C12 as c12

META = {
    "technique": ("Lean 4 model of the file builders as sequences of abstract stores (order re-extracted from the source on every run), "
                  "theorems for all prefixes; crash states of a deployment expressed in the C12 model; tied to the code by killing the "
                  "real deployer at tagged crash points and at file-system calls (LD_PRELOAD interposer), loading every file left behind "
                  "with the real Load functions, redeploying and comparing with a clean deployment and with the model's decisions"),
    "level": "proof",
    "level_text": ("Theorems C13.table_loadable_complete / prism_loadable_complete (any prefix of the builder's stores that Load accepts is the "
                   "untouched old file or holds all data of the new build; proofs use facts regenerated from table.cc, prism.cc, "
                   "dict_compiler.cc, mapped_file.*), reverse_loadable_complete (same, under the generated premise that the reverse db is "
                   "removed before it is rebuilt) with reverse_loadable_complete_partial / _counterexample for a tree that rebuilds it in "
                   "place, yaml_loadable_complete (under the generated premise that compiled YAML is not written in place) with "
                   "yaml_loadable_complete_counterexample, crash_state_consistent and redeploy_after_crash_eq_clean (every crash state is "
                   "Consistent in the sense of C12, so the next deployment yields the clean result), crash_keeps_last_build_time. The check "
                   "evaluates the premises on the regenerated facts, replays the counterexamples on the implementation, and runs kill-point "
                   "sweeps on five fixed workspaces (empty build directory, after an edit, multi-buffer artefacts, a deployment that moves a "
                   "deprecated user copy to the trash and reuses a table whose source is gone, a prebuilt directory shadowed by the staging "
                   "one) and generated ones. Where a kill leaves the primary table (or the prism next to a final table) of a schema "
                   "unloadable, the run also continues in ONE process — sessions on that state (kept open), the repairing deployment, "
                   "new sessions — and the new sessions must behave as on a clean deployment."),
    "level_note": ("Outside the theorems: a kill leaves exactly the stores executed (process kill, page cache intact — not a power loss); "
                   "the ≤16-byte format tag is modelled byte by byte, data blocks as atomic stores in program order; compiled YAML is modelled "
                   "at entry granularity (the byte-level cut is replayed on the real code); installation.yaml and user.yaml are written in place "
                   "too but are outside the property (configurations and dictionaries). Kill points without the RIME_VERIF_CRASHPOINT hook: "
                   "file-system calls only (reported). Trusted: Lean kernel, gen/deploy_facts.py (fails closed), harness/c12_harness.cc, "
                   "harness/killpoint_interposer.c, checks/deploy_common.py."),
    "design_ref": "DESIGN.md §3 C13",
}

FLAVOUR = "plain"
SRC_FILES = ["src/rime/dict/table.cc", "src/rime/dict/prism.cc", "src/rime/dict/mapped_file.cc", "src/rime/dict/mapped_file.h",
             "src/rime/dict/reverse_lookup_dictionary.cc", "src/rime/dict/dict_compiler.cc", "src/rime/config/config_data.cc",
             "src/rime/config/save_output_plugin.cc", "src/rime/lever/deployment_tasks.cc"]


def build_interposer():
    out = os.path.join(vlib.BUILD, "harness", "libkillpoint.so")
    src = os.path.join(vlib.ROOT, "harness", "killpoint_interposer.c")
    os.makedirs(os.path.dirname(out), exist_ok=True)
    if not os.path.exists(out) or os.path.getmtime(out) < os.path.getmtime(src):
        rc, o = vlib.sh(["gcc", "-O1", "-g", "-shared", "-fPIC", "-o", out + ".tmp", src, "-ldl"])
        if rc != 0:
            raise vlib.BuildError("killpoint interposer does not compile: " + o[-2000:])
        os.replace(out + ".tmp", out)
    return out


# ---------------------------------------------------------------------------------------------- scenarios
def scenario_small(rng):
    """empty build directory, small artefacts"""
    w = dc.base_workspace(rng)
    return {"name": "initial", "pre": [], "final": w.to_json()}


def scenario_edit(rng):
    """a complete deployment, then edits that make the table, reverse db, prisms, packs and two configs stale"""
    w = dc.base_workspace(rng)
    pre = w.to_json()
    rel = w.resolve("da.dict.yaml")
    f = copy.deepcopy(w.files[rel])
    f["rows"].append(["啊", "aa", 77])
    w.put(rel, f)
    rel = w.resolve("sa.schema.yaml")
    f = copy.deepcopy(w.files[rel])
    f["algebra"].append("derive/^n/l/")
    w.put(rel, f)
    rel = w.resolve("db.dict.yaml")
    f = copy.deepcopy(w.files[rel])
    f["rows"].append(["們", "abc"])
    w.put(rel, f)
    w.put("user/default.custom.yaml", {"kind": "custom", "patch": [["menu/page_size", 7]]})
    return {"name": "after-edit", "pre": [pre], "final": w.to_json()}


def scenario_big(rng):
    """multi-buffer artefacts: compiled configs > 8 KiB (several write()s), a reverse db that shrinks (in-place resize cuts
    the old file), a table whose texts outgrow the size estimate (the mapped file grows while it is built)"""
    w = dc.base_workspace(rng, big=True)
    rel = w.resolve("da.dict.yaml")
    f = copy.deepcopy(w.files[rel])
    f["rows"] += [[chr(0x4e00 + i), dc.SYLL[i % 10], 5] for i in range(1500)]
    w.put(rel, f)
    rel = w.resolve("default.yaml")
    d = copy.deepcopy(w.files[rel])
    d["pad"] = 400
    w.put(rel, d)
    pre = w.to_json()
    rel = w.resolve("da.dict.yaml")
    f = copy.deepcopy(w.files[rel])
    f["rows"] = f["rows"][:14] + [["".join(chr(0x5000 + (i * 7 + j) % 2000) for j in range(24)), " ".join(dc.SYLL[(i + j) % 10] for j in range(3)), 3] for i in range(60)]
    w.put(rel, f)
    rel = w.resolve("sa.schema.yaml")
    f = copy.deepcopy(w.files[rel])
    f["algebra"].append("derive/^n/l/")
    w.put(rel, f)
    rel = w.resolve("default.yaml")
    d = copy.deepcopy(w.files[rel])
    d["page_size"] = 6
    w.put(rel, d)
    return {"name": "multi-buffer", "pre": [pre], "final": w.to_json()}


def scenario_trash(rng):
    """the killed deployment also moves a deprecated user copy of a schema to user/trash (and recompiles that schema from
    the shared copy), applies a new patch, and finds a dictionary source gone (its table is reused while the prism is rebuilt)"""
    w = dc.base_workspace(rng)
    f = {k: v for k, v in w.files["shared/sc.schema.yaml"].items() if k != "mtime"}
    w.put("user/sc.schema.yaml", dict(f, version="2", algebra=["derive/^d/t/"]))          # newer than the shared copy: kept, in use
    pre = w.to_json()
    w.put("user/sc.schema.yaml", dict(f, version="0.9", algebra=["derive/^b/p/"]))        # older: goes to the trash
    w.put("user/sa.custom.yaml", {"kind": "custom", "patch": [["speller/algebra/+", ["derive/^g/k/"]]]})
    w.remove("shared/db.dict.yaml")                                                       # sb keeps its table, gets no new one
    return {"name": "trash-and-reuse", "pre": [pre], "final": w.to_json()}


def scenario_prebuilt(rng):
    """the shared directory ships a prebuilt `build` of the base sources; the killed deployment rebuilds, into the staging
    directory, what an edited dictionary, an edited schema and a new patch made stale — a half-written file in the staging
    directory shadows the complete prebuilt one.  (The model has no prebuilt directory: judged by the property alone.)"""
    w = dc.base_workspace(rng)
    pre = w.to_json()
    rel = w.resolve("da.dict.yaml")
    f = copy.deepcopy(w.files[rel])
    f["rows"].append(["啊", "aa", 77])
    w.put(rel, f)
    rel = w.resolve("sb.schema.yaml")
    f = copy.deepcopy(w.files[rel])
    f["pad"] = 3
    w.put(rel, f)
    w.put("user/default.custom.yaml", {"kind": "custom", "patch": [["menu/page_size", 7]]})
    return {"name": "prebuilt", "pre": [pre], "final": w.to_json(), "prebuilt": True}


def scenario_random(rng, i):
    """a deployed workspace, then 2-4 generated edits (the C12 generator: rows, algebra, patches, imports, packs, schema list,
    vocabulary, shadow copies …); the deployment that follows is the one that gets killed"""
    w = dc.base_workspace(rng, big=(i % 3 == 2))
    pre = [w.to_json()]
    if rng.random() < 0.5:
        dc.gen_edit(rng, w)
        pre.append(w.to_json())
    names = [dc.gen_edit(rng, w) for _ in range(rng.randint(2, 4))]
    return {"name": "random-%d" % i, "pre": pre, "final": w.to_json(), "edits": names}


def scenario_random_extra(rng, i):
    """like scenario_random, with the wider edit vocabulary of C12 (sources that vanish and return, broken and repaired schemas
    and dictionary headers, odd schema lists, user copies of every vintage, CRLF …); every deployment of the scenario, the
    killed one included, is of deployable sources (the preparatory ones must succeed, and the clean one is the yardstick)"""
    def view_ok(w):
        return sources_seen(w).deployable()
    w = dc.base_workspace(rng, big=(i % 3 == 2))
    pre = [w.to_json()]
    names = []
    for k in range(rng.randint(1, 2)):
        names += [dc.gen_edit(rng, w, extra=True) for _ in range(rng.randint(1, 3))]
        if not view_ok(w):
            names += w.repair()
        if k == 0 and view_ok(w):
            pre.append(w.to_json())
    if not view_ok(w):
        names += w.repair()
    return {"name": "random-extra-%d" % i, "pre": pre, "final": w.to_json(), "edits": names}


# ---------------------------------------------------------------------------------------------- helpers
def sources_seen(w):
    """the sources as the model sees them: without the user copies the deployment moves to user/trash (TrashDeprecatedUserCopy)"""
    gone = [n for n in ["default.yaml"] + [s + ".schema.yaml" for s in w.all_sids()] if w.trash_expected(n)]
    return w.without_user_copies(gone)


def file_hashes(root):
    b = os.path.join(root, "user", "build")
    out = {}
    if os.path.isdir(b):
        for n in sorted(os.listdir(b)):
            p = os.path.join(b, n)
            if os.path.isfile(p):
                out[n] = hashlib.sha256(open(p, "rb").read()).hexdigest()
    return out


def kind_of(n):
    if n.endswith(".table.bin"):
        return "table"
    if n.endswith(".prism.bin"):
        return "prism"
    if n.endswith(".reverse.bin"):
        return "reverse"
    if n.endswith(".yaml"):
        return "yaml"
    return "other"


def yaml_class(n):
    return "schema.yaml" if n.endswith(".schema.yaml") else n


def slot_of(n):
    k = kind_of(n)
    if k == "yaml":
        return "cfg", ("default" if n == "default.yaml" else "schema:" + n[:-len(".schema.yaml")])
    return k, n.rsplit(".", 2)[0]


def entry(dump, n):
    k = kind_of(n)
    if k == "yaml":
        return (dump["yaml"].get(n), tuple(dump["stamps"].get(n) or []))
    return dump[k].get(n)


class Sweep:
    def __init__(self, c, runner, interposer, have_hooks):
        self.c, self.runner, self.interposer, self.have_hooks = c, runner, interposer, have_hooks
        self.stats = {"kill_runs": 0, "fs_points": 0, "cp_points": 0, "torn_points": 0, "by_op": {}, "by_tag": {}, "class": {},
                      "redeploy_decisions": 0, "mismatches": 0, "partial_yaml_seen": 0, "detect_after_kill": 0}
        self.cycles, self.cycle_all = {}, c.tier != "quick"      # same-process continuations already run
        self.viol = []      # (signature, what, replay)
        self.mm = []
        self.nontrivial = set()
        self.samples = []

    def prepare(self, sc, tag):
        """materialise the pre state (deployed) in <work>/<tag>_pre, the reference (completed deployment) and the clean one"""
        work = self.c.work
        pre = os.path.join(work, tag + "_pre")
        shutil.rmtree(pre, ignore_errors=True)
        os.makedirs(pre)
        intern = {}
        mlines = []
        for sj in sc["pre"]:
            w = dc.Workspace.from_json(sj)
            w.write(pre)
            mlines += sources_seen(w).describe(intern) + ["deploy %d" % (w.clock + 3)]
            r = self.runner.deploy(pre, w.clock + 3)
            if r["rc"] != 0:
                raise vlib.BuildError("C13 scenario %s: the preparatory deployment failed: %s" % (sc["name"], r["raw"][-800:]))
        if sc.get("prebuilt"):
            # what was just built becomes the prebuilt directory shipped with the shared data; the staging directory starts empty
            shutil.move(os.path.join(pre, "user", "build"), os.path.join(pre, "shared", "build"))
            os.makedirs(os.path.join(pre, "user", "build"))
            r = self.runner.deploy(pre, w.clock + 4)
            mlines += sources_seen(w).describe(intern) + ["deploy %d" % (w.clock + 4)]
            if r["rc"] != 0 or r["rewritten"]:
                self.viol.append(("C13:prebuilt-not-used", "a deployment over prebuilt data of the same sources wrote %s (exit %d)" % (r["rewritten"], r["rc"]),
                                  {"kind": "impl-violation", "scenario": sc}))
        w = dc.Workspace.from_json(sc["final"])
        w.write(pre)
        self.runner.set_sentinels(pre)
        now = w.clock + 3
        # the sources as the model sees them: without the user copies this deployment moves to user/trash
        view = sources_seen(w)
        info = {"pre": pre, "w": w, "view": view, "now": now, "intern": intern, "mlines": mlines, "tag": tag, "sc": sc}
        info["pre_hashes"] = file_hashes(pre)
        info["pre_dump"] = self.runner.dump(pre)
        # reference: the same deployment, not killed, with traces
        ref = os.path.join(work, tag + "_ref")
        shutil.rmtree(ref, ignore_errors=True)
        shutil.copytree(pre, ref, symlinks=True)
        trace = os.path.join(work, tag + "_trace.txt")
        if os.path.exists(trace):
            os.unlink(trace)
        env = {"LD_PRELOAD": self.interposer, "VERIF_FS_ROOT": ref + "/", "VERIF_FS_TRACE": trace, "VERIF_CP_TRACE": "1"}
        r = self.runner.deploy(ref, now, extra_env=env)
        if r["rc"] != 0:
            # the sources of a scenario are deployable (its earlier deployments succeeded; what vanished since has an artefact to
            # reuse): an uninterrupted deployment that fails is no kill-point matter, but it is this input that shows it
            self.viol.append(("C13:deploy-fails:uninterrupted", "the deployment of scenario %s fails without any kill (exit %d): %s" % (
                sc["name"], r["rc"], " | ".join(r["raw"].strip().splitlines()[-3:])[:300]), {"kind": "impl-violation", "scenario": sc, "kill": []}))
            return None
        info["ref"] = ref
        info["ref_dump"] = self.runner.dump(ref)
        info["ref_hashes"] = file_hashes(ref)
        info["fs_ops"] = [l.split(" ") for l in open(trace).read().splitlines()] if os.path.exists(trace) else []
        info["cps"] = r["cps"]
        info["ref_decisions"] = r["decisions"]
        # clean deployment of the same sources
        clean = os.path.join(work, tag + "_clean")
        shutil.rmtree(clean, ignore_errors=True)
        os.makedirs(clean)
        w.write(clean)
        rc_ = self.runner.deploy(clean, now)
        info["clean_dump"] = self.runner.dump(clean)
        info["clean_ok"] = rc_["tasks"].get("workspace_update")
        info["pairs"] = dc.session_inputs(view)
        info["clean_session"] = self.runner.session(clean, info["pairs"])[1] if info["pairs"] else []
        shutil.rmtree(clean, ignore_errors=True)
        d = dc.compare_dumps(info["ref_dump"], info["clean_dump"])
        if d:
            self.viol.append(("C13:reference-vs-clean", "uninterrupted incremental deployment differs from the clean one: %s" % d[:3],
                              {"kind": "impl-violation", "scenario": sc}))
        return info

    def choose(self, info, quick):
        """kill points: ('fs', k, torn) and ('cp', k).  quick: one per (op, file) / per tag class + a few random; thorough: all."""
        rng = self.c.rng
        fs = [(int(o[0]), o[1], o[2], int(o[3])) for o in info["fs_ops"] if len(o) == 4]
        pts = []
        if quick:
            seen = {}
            for k, op, fn, sz in fs:
                seen.setdefault((op, kind_of(fn) if "/" in fn else fn), []).append(k)
            for cls, ks in sorted(seen.items()):
                pts.append(("fs", rng.choice(ks), False))
                if cls[0] in ("write", "writev") and len(ks) > 1:
                    pts.append(("fs", ks[1], False))          # the second write of a multi-buffer file
            pts += [("fs", k, False) for k, op, fn, sz in fs if op == "rename"]      # every temp-file → destination switch
            pts += [("fs", k + 1, False) for k, op, fn, sz in fs if op == "rename" and k < len(fs)]     # … and right after it
            extra = [k for k, *_ in fs]
            rng.shuffle(extra)
            pts += [("fs", k, False) for k in extra[:10]]
            big_writes = [k for k, op, fn, sz in fs if op in ("write", "writev") and sz > 4096]
            pts += [("fs", k, True) for k in big_writes[:4]]
        else:
            pts += [("fs", k, False) for k, *_ in fs]
            pts += [("fs", k, True) for k, op, fn, sz in fs if op in ("write", "writev", "pwrite") and sz > 4096]
        if self.have_hooks:
            cps = info["cps"]
            if quick:
                seen = {}
                for i, t in enumerate(cps):
                    seen.setdefault(t, []).append(i + 1)
                for t, ks in sorted(seen.items()):
                    pts.append(("cp", rng.choice(ks)))
                    if t in ("mapped_file.resize:after", "mapped_file.create:sized", "mapped_file.allocate"):
                        pts += [("cp", k) for k in ks[:3]]
                    if t in ("mapped_file.resize:after",):
                        pts += [("cp", k) for k in ks]      # every resize: the in-place window
                    if t == "mapped_file.allocate" and len(ks) > 3:
                        # ... and allocations spread over the whole deployment: inside the build of every table, prism and
                        # reverse db of every dictionary (the first three are all inside the first table)
                        pts += [("cp", ks[(j * (len(ks) - 1)) // 11]) for j in range(12)]
                extra = list(range(1, len(cps) + 1))
                rng.shuffle(extra)
                pts += [("cp", k) for k in extra[:10]]
            else:
                pts += [("cp", k) for k in range(1, len(cps) + 1)]
        out, seen = [], set()
        for p in pts:
            if p not in seen:
                seen.add(p)
                out.append(p)
        return out

    def kill_run(self, info, pt):
        """restore the pre state, deploy with the kill, examine what is left, redeploy, compare.  Returns list of
        (signature, what) and fills statistics."""
        c, runner = self.c, self.runner
        work = os.path.join(c.work, info["tag"] + "_k")
        shutil.rmtree(work, ignore_errors=True)
        shutil.copytree(info["pre"], work, symlinks=True)
        now = info["now"]
        if pt[0] == "fs":
            env = {"LD_PRELOAD": self.interposer, "VERIF_FS_ROOT": work + "/", "VERIF_KILL_FS": str(pt[1])}
            if pt[2]:
                env["VERIF_KILL_TORN"] = "1"
            op = next((o for o in info["fs_ops"] if int(o[0]) == pt[1]), None)
            where = "fs#%d %s %s%s" % (pt[1], op[1], op[2], " (torn)" if pt[2] else "") if op else "fs#%d" % pt[1]
            target = op[2].split("/")[-1] if op else ""
            self.stats["by_op"][op[1] if op else "?"] = self.stats["by_op"].get(op[1] if op else "?", 0) + 1
            self.stats["torn_points" if pt[2] else "fs_points"] += 1
        else:
            env = {"VERIF_KILL_CP": str(pt[1])}
            tag = info["cps"][pt[1] - 1]
            where = "cp#%d %s" % (pt[1], tag)
            target = ""
            self.stats["by_tag"][tag] = self.stats["by_tag"].get(tag, 0) + 1
            self.stats["cp_points"] += 1
        r = runner.deploy(work, now, extra_env=env)
        self.stats["kill_runs"] += 1
        out = []
        if r["rc"] not in (86, 87):
            if r["rc"] == 0:
                shutil.rmtree(work, ignore_errors=True)
                return out        # the kill point was not reached (e.g. a decision went the other way): nothing to examine
            out.append(("C13:killed-deploy:unexpected-exit", "deployment with kill at %s exited with %d: %s" % (where, r["rc"], r["raw"][-300:])))
        # ---- what is left
        left = file_hashes(work)
        dump = runner.dump(work)
        classes = {}
        sizes = {n: os.path.getsize(os.path.join(work, "user", "build", n)) for n in left}
        for n in sorted(left):
            k = kind_of(n)
            if k == "other":
                continue
            crashed = next((x[2] for x in dump["crash"] if x[1] == n), None)
            if left[n] == info["pre_hashes"].get(n) or (n in info["pre_hashes"] and entry(dump, n) is not None and not crashed
                                                        and entry(dump, n) == entry(info["pre_dump"], n) and (k != "yaml" or entry(dump, n)[0] is not None)):
                classes[n] = "old"         # untouched, or (reverse db resized in place to a larger estimate) old content + padding
            elif left[n] == info["ref_hashes"].get(n) or (entry(dump, n) is not None and entry(dump, n) == entry(info["ref_dump"], n)
                                                        and (k != "yaml" or entry(dump, n)[0] is not None)):
                classes[n] = "new"
            elif any(u[1] == n for u in dump["unloadable"]):
                classes[n] = "unloadable"
            elif sizes[n] == 0 and k != "yaml":
                # MappedFile::Create was killed between creating the file and sizing it; mapping a zero-length file throws
                classes[n] = "zero-length" + ("-load-throws" if crashed else "")
            elif crashed:
                classes[n] = "load-crash"
                out.append(("C13:loadable-incomplete:%s" % k, "kill at %s leaves %s (%d bytes) which the real Load accepts (format tag present) but "
                            "whose content is cut: loading / walking it dies with signal %s" % (where, n, sizes[n], crashed)))
            elif k == "yaml":
                classes[n] = "partial-yaml"        # parses; judged after the redeployment (stale → rebuilt, else it survives)
                self.stats["partial_yaml_seen"] += 1
            else:
                classes[n] = "loadable-other"
                out.append(("C13:loadable-incomplete:%s" % k, "kill at %s leaves %s which Load accepts but which is neither the old nor the "
                            "complete new artefact" % (where, n)))
        for v in classes.values():
            self.stats["class"][v] = self.stats["class"].get(v, 0) + 1
        if len(set(classes.values())) > 1:
            self.nontrivial.add((info["tag"],) + tuple(pt))
        # ---- the same process goes on: sessions on what the kill left, the repairing deployment, new sessions.  Judged for the
        # schemas whose dictionary could not be loaded before the deployment (the primary table, or the prism next to a table
        # that is already the final one, is unloadable) and whose compiled configs are already the final ones: nothing of them
        # can legitimately be kept open from before, so the sessions opened after the deployment must behave like sessions
        # on a clean deployment.  (Artefacts that *did* load stay cached while a session holds them — by design, not judged.)
        # (not over a prebuilt directory: a Table / Prism object created before the deployment keeps the path it was resolved to —
        # the prebuilt file while the staging directory had none — for as long as a session holds it: stale by design of that cache)
        if info.get("pairs") and not info["sc"].get("prebuilt"):
            def broken(n):
                return classes.get(n, "") == "unloadable" or classes.get(n, "").startswith("zero-length")

            def settled(n):
                return n in left and left.get(n) == info["ref_hashes"].get(n)
            elig = []
            for sid, _ in info["pairs"]:
                e = info["view"].effective_schema(sid)
                t, p = e["dict"] + ".table.bin", e["prism"] + ".prism.bin"
                packs = [q + ".table.bin" for q in e["packs"]]
                if settled(sid + ".schema.yaml") and settled("default.yaml") and (
                        broken(t) or (broken(p) and settled(t) and all(settled(q) for q in packs if q in info["ref_hashes"]))):
                    elig.append(sid)
            # quick: once per distinct set of unloadable files (and kind of kill point) of a scenario; thorough: every time
            key = (info["tag"], tuple(sorted(n for n in classes if broken(n))), where.split(" ")[1] if " " in where else where)
            if elig and (self.cycle_all or key not in self.cycles):
                self.cycles[key] = 1
                wc = work + "_c"
                shutil.rmtree(wc, ignore_errors=True)
                shutil.copytree(work, wc, symlinks=True)
                rcc, t1, t2, rawc = dc.cycle(runner, wc, info["pairs"], now + 4)
                self.stats["same_process_cycles"] = self.stats.get("same_process_cycles", 0) + 1
                for n in classes:
                    if broken(n):
                        self.stats.setdefault("same_process_cycles_over_unloadable", {})[kind_of(n)] = self.stats.setdefault("same_process_cycles_over_unloadable", {}).get(kind_of(n), 0) + 1
                if os.environ.get("VERIF_C13_TRACE"):
                    print("cycle", where, elig, [n for n in classes if broken(n)], "t1", [l for l in t1 if l.split(" ")[1] in elig][:2], "t2", [l for l in t2 if l.split(" ")[1] in elig][:2], "rc", rcc)
                if rcc != 0:
                    out.append(("C13:same-process-redeploy:crash", "kill at %s, then in one process: sessions, deployment, sessions — the process "
                                "exits with %d: %s" % (where, rcc, rawc.strip()[-300:])))
                else:
                    for sid in elig:
                        a = [l for l in t2 if l.split(" ")[1] == sid]
                        b = [l for l in info["clean_session"] if l.split(" ")[1] == sid]
                        if a != b:
                            first = next((x for x, y in zip(a, b) if x != y), "length %d / %d" % (len(a), len(b)))
                            out.append(("C13:same-process-redeploy:session-differs",
                                        "kill at %s leaves %s unloadable; a process that opens sessions on that state, then deploys (the files on disk "
                                        "are repaired), then opens new sessions: schema %s does not behave as after a clean deployment, first "
                                        "difference: %s" % (where, [n for n in classes if broken(n)], sid, first)))
                            break
                shutil.rmtree(wc, ignore_errors=True)
        # ---- model: the crash state in the terms of C12, and the redeployment
        w, intern = info["view"], info["intern"]
        ml = list(info["mlines"]) + ["mark"] + w.describe(intern) + ["deploy %d" % now]
        for n in set(info["ref_hashes"]) | set(left):
            if kind_of(n) == "other":
                continue
            kd, nm = slot_of(n)
            cl = classes.get(n)
            if cl == "old":
                ml.append("old %s %s" % (kd, nm))
            elif cl != "new":
                ml.append("drop %s %s" % (kd, nm))
        if dump["lastbuild"] == info["pre_dump"]["lastbuild"]:
            ml.append("old lastbuild x")
        # ---- redeploy
        ml += w.describe(intern) + ["detect state %s" % ",".join(str(t) for t in w.detect_mtimes(work)), "deploy %d" % (now + 4)]
        r2 = runner.deploy(work, now + 4)
        d2 = runner.dump(work)
        mout = vlib.run_driver("driver_c12", "\n".join(ml) + "\n").splitlines()
        blocks, loose, _ = c12.split_blocks(mout)
        redeploy_ok = r2["rc"] == 0
        if r2["rc"] != 0:
            what = "the next deployment of the same sources %s (exit %d) after a kill at %s: %s" % (
                "dies" if r2["rc"] not in (0, 1) else "fails", r2["rc"], where, r2["raw"].strip().splitlines()[-1][:300] if r2["raw"].strip() else "")
            bad = [n for n, v in classes.items() if v in ("load-crash", "loadable-other")]
            zl = [n for n, v in classes.items() if v.startswith("zero-length")]
            if zl and not bad:
                out.append(("C13:redeploy-fails:zero-length-mapped-file", what + " — %s is a zero-length file (MappedFile::Create killed between "
                            "creating and sizing it) and mapping it throws" % zl[0]))
            else:
                out.append(("C13:redeploy-fails:%s-truncated" % (kind_of(bad[0]) if bad else (kind_of(target) if target else "unknown")), what))
        else:
            diffs = dc.compare_dumps(d2, info["clean_dump"])
            if any(kind_of(n) == "yaml" for n, _ in diffs):
                diffs = [(n, x) for n, x in diffs if kind_of(n) == "yaml"]     # the rest follows from the cut config
            for n, whatd in diffs:
                if kind_of(n) == "yaml":
                    sz = os.path.getsize(os.path.join(work, "user", "build", n)) if os.path.exists(os.path.join(work, "user", "build", n)) else -1
                    full = os.path.getsize(os.path.join(info["ref"], "user", "build", n)) if os.path.exists(os.path.join(info["ref"], "user", "build", n)) else -1
                    if full > 0 and sz >= 0.95 * full:
                        # nothing is cut: the config is complete, but not the one a clean deployment compiles
                        out.append(("C13:after-redeploy-differs:yaml", "after a kill at %s and a redeployment, %s: %s (%d bytes; the uninterrupted "
                                    "deployment leaves %d)" % (where, n, whatd, sz, full)))
                        continue
                    out.append(("C13:yaml-truncated:%s" % yaml_class(n),
                                "kill at %s leaves build/%s cut to %d bytes (complete: %d); it parses, its leading __build_info matches the "
                                "sources, and the next deployment keeps it as up to date" % (
                                    where, n, sz, os.path.getsize(os.path.join(info["ref"], "user", "build", n)))))
                else:
                    out.append(("C13:after-redeploy-differs:%s" % kind_of(n), "after a kill at %s and a redeployment, %s: %s" % (where, n, whatd)))
            if blocks and not info["sc"].get("prebuilt"):
                mv = c12.model_view(blocks[-1])
                mm = c12.correspond(mv, r2, d2, {"m2r": {}, "r2m": {}}, self.have_hooks)
                self.stats["redeploy_decisions"] += len(mv["decisions"])
                if mm and not out:
                    self.stats["mismatches"] += len(mm)
                    self.mm.append({"scenario": info["sc"]["name"], "kill": where, "classes": classes, "what": mm[:3]})
        if redeploy_ok:
            tmps = [os.path.join(d, n) for d in ("user", "user/build") for n in os.listdir(os.path.join(work, d)) if n.endswith(".tmp")]
            if tmps:
                out.append(("C13:tmp-leftover", "after a kill at %s and a redeployment a temporary file is still there: %s" % (where, tmps)))
        tmp_after_kill = [n for n in left if n.endswith(".tmp")]
        if tmp_after_kill:
            self.stats["kills_leaving_tmp"] = self.stats.get("kills_leaving_tmp", 0) + 1
        det = [int(l.split(" ")[1]) for l in loose if l.startswith("detect ")]
        if r2["detect"] is not None:
            self.stats["detect_after_kill"] += r2["detect"]
            if det and det[-1] != r2["detect"]:
                self.mm.append({"scenario": info["sc"]["name"], "kill": where, "what": ["detect after kill: model %d impl %d" % (det[-1], r2["detect"])]})
            def as_ref(n):
                return left.get(n) == info["ref_hashes"].get(n) or (entry(dump, n) is not None and entry(dump, n) == entry(info["ref_dump"], n))
            incomplete = any(not as_ref(n) for n in info["ref_hashes"] if kind_of(n) != "other")
            if "workspace_update" not in r["tasks"] and incomplete and r["detect"] == 1 and r2["detect"] == 0:
                out.append(("C13:detect-silent", "after a kill at %s DetectModifications no longer fires although workspace_update never "
                            "finished (last_build_time %s, before the killed deployment %s)" % (where, dump["lastbuild"], info["pre_dump"]["lastbuild"])))
        if len(self.samples) < 5 and len(set(classes.values())) > 1:
            self.samples.append({"scenario": info["sc"]["name"], "kill": where, "left_behind": classes, "redeploy_exit": r2["rc"],
                                 "redeploy_rewrote": r2["rewritten"]})
        shutil.rmtree(work, ignore_errors=True)
        return [(s, wh, {"kind": "impl-violation", "scenario": info["sc"], "kill": list(pt), "kill_where": where}) for s, wh in out]

    def run_scenario(self, sc, tag, quick):
        info = self.prepare(sc, tag)
        if info is None:
            return {"fs_ops": 0, "crash_points": 0, "kill_points_run": 0, "uninterrupted_deployment_failed": True}
        pts = self.choose(info, quick)
        for pt in pts:
            for v in self.kill_run(info, pt):
                if not any(x[0] == v[0] for x in self.viol):
                    self.viol.append(v)
        res = {"fs_ops": len(info["fs_ops"]), "crash_points": len(info["cps"]), "kill_points_run": len(pts)}
        for t in ("_pre", "_ref"):
            shutil.rmtree(os.path.join(self.c.work, tag + t), ignore_errors=True)
        return res


def setup(c):
    rc, out = vlib.sh([sys.executable, os.path.join(vlib.ROOT, "gen", "deploy_facts.py"), vlib.REPO,
                       os.path.join(vlib.LEAN, "RimeModel", "Gen", "DeployFacts.lean")])
    if rc != 0:
        raise vlib.BuildError("translator deploy_facts failed: " + out)
    gen = json.loads(out[out.index("{"):])
    exe, bdir = vlib.build_harness("c12_harness", FLAVOUR, ["c12_harness.cc"], libs=["-lmarisa"])
    interposer = build_interposer()
    rcd, outd = vlib.lake_build(["driver_c12"])
    if rcd != 0:
        raise vlib.BuildError("driver_c12 does not build: " + outd[-3000:])
    env = {"GLOG_minloglevel": "3"}
    runner = dc.Runner(exe, FLAVOUR)
    return gen, runner, interposer


def run(c):
    quick = c.tier == "quick"
    have_hooks = dc.hooks_present()
    gen, runner, interposer = setup(c)
    facts = gen["facts"]
    # P
    audit = vlib.lean_audit("C13")
    if not quick and audit["ok"]:
        ok, log = vlib.leanchecker("RimeModel.Props.C13")
        if not ok:
            audit["ok"] = False
            audit["failures"].append(("RimeModel.Props.C13", "leanchecker: " + log))
    sw = Sweep(c, runner, interposer, have_hooks)
    scen = []
    # corpus first: saved kill recipes
    ncorpus = 0
    for p in sorted(glob.glob(os.path.join(vlib.CORPUS, "C13", "*.json"))):
        rec = json.load(open(p))
        if rec.get("match", {}).get("type") == "cp" and not have_hooks:
            continue
        info = sw.prepare(rec["scenario"], "corpus")
        if info is None:
            continue
        pt = resolve_kill(info, rec)
        if pt is None:
            continue          # the call the recipe names no longer exists on this tree
        for v in sw.kill_run(info, pt):
            v = (v[0], v[1] + " [corpus %s]" % os.path.basename(p), v[2])
            if not any(x[0] == v[0] for x in sw.viol):
                sw.viol.append(v)
        ncorpus += 1
        for t in ("_pre", "_ref"):
            shutil.rmtree(os.path.join(c.work, "corpus" + t), ignore_errors=True)
    per = {}
    for i, mk in enumerate((scenario_small, scenario_edit, scenario_big, scenario_trash, scenario_prebuilt)):
        sc = mk(random.Random(c.seed * 100 + i))
        per[sc["name"]] = sw.run_scenario(sc, "s%d" % i, quick)
    for i in range(2 if quick else 24):
        sc = scenario_random(random.Random(c.seed * 1000 + i), i)
        per[sc["name"]] = dict(sw.run_scenario(sc, "r%d" % i, quick), edits=sc["edits"])
    for i in range(1 if quick else 16):
        sc = scenario_random_extra(random.Random(c.seed * 1000 + 500 + i), i)
        per[sc["name"]] = dict(sw.run_scenario(sc, "x%d" % i, quick), edits=sc["edits"])
    # premises of the conditional theorems, evaluated on the regenerated facts
    premises = {"reverse_loadable_complete": facts["reverseRemovedFirst"], "yaml_loadable_complete": not facts["yamlSavedInPlace"]}
    # verdicts
    for sig, what, rep in sw.viol:
        c.report(sig, what, rep)
    seen = {v[0] for v in sw.viol}
    if not premises["reverse_loadable_complete"] and not any(s.startswith("C13:loadable-incomplete:reverse") or s.startswith("C13:redeploy-fails:reverse") for s in seen):
        c.report("C13:premise:reverse-rebuilt-in-place", "the reverse db is rebuilt in place (C13.reverse_loadable_complete does not apply; "
                 "reverse_loadable_complete_counterexample does) and the kill-point runs did not reproduce the counterexample on the implementation"
                 + ("" if have_hooks else " — the window between Resize and the metadata reset is reached through mmap-rw kill points only"),
                 {"kind": "proof", "broken": "premise DeployFacts.reverseRemovedFirst of C13.reverse_loadable_complete"}, no_input=True)
    if not premises["yaml_loadable_complete"] and not any(s.startswith("C13:yaml-truncated") for s in seen):
        c.report("C13:premise:yaml-written-in-place", "compiled YAML is written in place (C13.yaml_loadable_complete does not apply) and the "
                 "kill-point runs did not reproduce the counterexample on the implementation",
                 {"kind": "proof", "broken": "premise ¬DeployFacts.yamlSavedInPlace of C13.yaml_loadable_complete"}, no_input=True)
    if gen["unknown"]:
        c.report("C13:translator", "gen/deploy_facts.py no longer understands: %s" % gen["unknown"],
                 {"kind": "proof", "broken": "translator gen/deploy_facts.py", "unknown": gen["unknown"]}, no_input=True)
    unexpected = [v for v in sw.viol if not (vlib.known_status(c.pid, v[0]) or {}).get("status") == "open"]
    if sw.mm and not unexpected:
        c.report("C13:correspondence", "model and implementation disagree on a redeployment over a crash state: %s" % json.dumps(sw.mm[0], ensure_ascii=False)[:400],
                 {"kind": "correspondence", "broken": "driver_c12 vs c12_harness on crash states", "first": sw.mm[:4]}, no_input=True)
    if not audit["ok"] and not unexpected:
        c.report("C13:proof", "proof obligation no longer checks: %s" % "; ".join("%s: %s" % f for f in audit["failures"])[:600],
                 {"kind": "proof", "broken_theorems": audit["failures"], "lean_log": audit["log"][-3000:], "generated_facts": facts}, no_input=True)
    cov = vlib.proof_cov(audit, "gen/deploy_facts.py && lake build RimeModel.Props.C13 && #print axioms (all theorems) && forbidden-token scan"
                         + ("" if quick else " && leanchecker RimeModel.Props.C13"),
                         vlib.STD_TRUSTED + ["gen/deploy_facts.py (store order facts; fails closed)", "checks/deploy_common.py", "harness/killpoint_interposer.c",
                                             "process-kill semantics: executed stores to MAP_SHARED pages survive"])
    cov.update({
        "evaluations": sw.stats["kill_runs"], "distinct_nontrivial": len(sw.nontrivial),
        "rule": ("one evaluation = one deployment killed at a chosen point (file-system call k via LD_PRELOAD interposer, optionally with a torn "
                 "write; or the k-th RIME_VERIF_CRASHPOINT), followed by: real Load of every file left, redeployment, comparison with a clean "
                 "deployment and with the model's decisions on the abstracted crash state. quick: one point per (call, artefact kind) and per "
                 "crash tag + every resize + random extras; thorough: every point. non-trivial = the kill left a mix of old / new / unloadable "
                 "artefacts; distinct by (scenario, kill point)"),
        "samples": sw.samples, "scenarios": per, "kill_point_stats": sw.stats, "exhaustive": not quick,
        "generated_facts": facts, "generated_facts_unknown": gen["unknown"], "theorem_premises_on_this_tree": premises,
        "crash_point_hook_present": have_hooks,
        "tagged_crash_points": "run" if have_hooks else "NOT RUN (librime has no RIME_VERIF_CRASHPOINT hook); file-system kill points only",
        "corpus_cases": ncorpus, "model_impl_disagreements": sw.stats["mismatches"], "monitor_violations": len(sw.viol),
        "source_hash": vlib.source_hash(SRC_FILES), "proof_failures": audit["failures"], "flavour": FLAVOUR,
    })
    c.cov = cov
    c.assumptions = ["same-process continuation: judged only for schemas none of whose artefacts could be loaded before the deployment (what did load "
                     "stays cached while a session holds it, by design)",
                     "a kill is a process kill: stores already executed on MAP_SHARED mappings and completed write()s survive, nothing else does",
                     "the sources do not change between the killed deployment and the next one",
                     "hypotheses of C12 (deployable sources, mtimes identify contents, checksums injective on the contents at hand)",
                     "the format tag store is not reordered before the data stores by the compiler (the hooks are opaque calls between them)"]


def resolve_kill(info, rec):
    """corpus recipes name the kill by (op, file, ordinal) or crash tag + ordinal, so that they survive small changes of the call sequence"""
    m = rec.get("match")
    if not m:
        return None
    if m["type"] == "fs":
        ks = [int(o[0]) for o in info["fs_ops"] if len(o) == 4 and o[1] == m["op"] and (o[2].endswith(m["file"]) or o[2].endswith(m["file"] + ".tmp"))]
        if len(ks) > m.get("ordinal", 0):
            return ("fs", ks[m.get("ordinal", 0)], bool(m.get("torn", False)))
    else:
        ks = [i + 1 for i, t in enumerate(info["cps"]) if t == m["tag"]]
        if len(ks) > m.get("ordinal", 0):
            return ("cp", ks[m.get("ordinal", 0)])
    return None


def replay(c, r):
    if "scenario" not in r:
        print("replay: this file names a broken obligation, no concrete input:", r.get("what"))
        return 1
    gen, runner, interposer = setup(c)
    sw = Sweep(c, runner, interposer, dc.hooks_present())
    info = sw.prepare(r["scenario"], "replay")
    if info is None or not r.get("kill"):
        for sig, what, _ in sw.viol:
            print("replay: %s: %s" % (sig, what))
        print("replay: scenario %s without a kill -> %s" % (r["scenario"]["name"], "FAILS" if sw.viol else "ok"))
        return 1 if sw.viol else 0
    pt = resolve_kill(info, r) or tuple(r["kill"])
    if len(pt) < 2 or not pt[1]:
        print("replay: the call this recipe names does not exist on this tree")
        return 0
    if pt[0] == "cp" and not dc.hooks_present():
        print("replay: needs the RIME_VERIF_CRASHPOINT hook")
        return 1
    vs = sw.kill_run(info, pt)
    for sig, what, _ in vs:
        print("replay: %s: %s" % (sig, what))
    print("replay: scenario %s kill %s -> %s" % (r["scenario"]["name"], list(pt), "FAILS" if vs else "ok"))
    return 1 if vs else 0
