"""C14 — config compiler: includes copy, patches apply in order, sources stay untouched."""
import os, sys, json, glob, copy, time, re
import vlib
from checks import c14_gen as G
from checks import c14_shrink as S
from checks import c14_cov as V

META = {
    "technique": ("Lean 4 reference compiler on value trees (exact ports of EditNode / MergeTree / AppendTo* / CreateReference / "
                  "ResolveListIndex / copy-on-write references) with theorems about what the reference means, tied to the real "
                  "ConfigCompiler + plugin list by a differential check on generated document sets (in-memory tree and re-loaded "
                  "staging YAML), delta-debugged on disagreement"),
    "level": "proof",
    "level_text": ("Theorems (RimeModel/Props/C14.lean, all document sets / trees, no bounds): a directive-free document compiles to "
                   "itself; an include makes the slot the compiled referenced node with the local entries merged over it; patch "
                   "dependencies and patch-literal keys are folded in order; set / append / merge / replace semantics of EditNode at "
                   "map and list-index keys; the result is a function of the documents reachable through reference texts; the "
                   "chain-guarded resolution scheme terminates on arbitrary (cyclic) dependency maps within a proved fuel bound; "
                   "CustomSettings::Customize sets exactly the given key — slashes and all — in the `patch` map the automatic patch "
                   "reads (customize_sets_patch_key / _fresh / _no_file / _read_back), TraverseWrite is EditNode's traversal. "
                   "PARTIAL: that the C++ dependency-graph algorithm (priorities, pending children, in-place references, "
                   "copy-on-write) computes the reference is tied by the differential check only, not proved."),
    "level_note": ("Trusted: Lean kernel; harness/c14_harness.cc (writes the YAML, dumps trees, drives CustomSettings, reads every staging "
                   "file back both plainly and through the deployed-config loader component); yaml-cpp parsing/emitting of the flow-style "
                   "documents the harness writes (scalars from a safe alphabet; the YAML codec is C18's subject); the generator's "
                   "coverage of the directive grammar. Equality is claimed where the reference reports a clean run (no circular "
                   "dependency, no swallowed failure); for failing compilations only the success flag is compared (partial trees "
                   "depend on the memoisation order of the C++ graph); for cyclic sets only termination, sanitizer-cleanliness and "
                   "the aliasing monitors."),
    "design_ref": "DESIGN.md §3 C14",
}

SRC_FILES = ["src/rime/config/config_compiler.cc", "src/rime/config/config_compiler.h", "src/rime/config/config_compiler_impl.h",
             "src/rime/config/config_cow_ref.h", "src/rime/config/config_data.cc", "src/rime/config/config_types.cc",
             "src/rime/config/auto_patch_config_plugin.cc", "src/rime/config/default_config_plugin.cc",
             "src/rime/config/legacy_preset_config_plugin.cc", "src/rime/config/build_info_plugin.cc",
             "src/rime/config/save_output_plugin.cc", "src/rime/config/config_component.cc", "src/rime/core_module.cc",
             "src/rime/lever/custom_settings.cc", "src/rime/signature.cc"]
FIXTURES = ["starcraft", "config_test", "config_compiler_test", "config_merge_test", "config_dependency_test",
            "config_optional_reference_test", "config_circular_dependency_test"]


# ---------------------------------------------------------------- running both sides
class Runner:
    def __init__(self, c):
        self.c = c
        self.exe, self.bdir = vlib.build_harness("c14_harness", "san", ["c14_harness.cc"])
        rc, out = vlib.lake_build(["driver_c14"])
        if rc != 0:
            raise vlib.BuildError("driver_c14 does not build: " + out[-3000:])
        self.n = 0
        self.san_reports = []
        self.gave_up = False
        self.impl_s = 0.0
        self.model_s = 0.0

    def scratch(self):
        self.n += 1
        d = os.path.join(self.c.work, "r%d" % self.n)
        os.makedirs(d, exist_ok=True)
        return d

    def translate(self, files):
        rc, out = vlib.sh([self.exe, "translate"] + files, env=vlib.SAN_ENV, timeout=300)
        docs = {}
        for line in out.splitlines():
            p = line.split(" ", 2)
            if p[0] == "doc" and len(p) == 3:
                docs[G.unhx(p[1])] = G.untok(p[2])
        return docs

    def impl(self, cases):
        """-> {id: {"res": [(name, ok, mem, saved)], "again": {name: tree-text}, "src": str, "abort": None|str}}"""
        out = {}
        todo = list(cases)
        while todo:
            d = self.scratch()
            f = os.path.join(d, "cases.txt")
            with open(f, "w") as fh:
                fh.write("".join(G.case_text(k) for k in todo))
            t0 = time.time()
            rc, text = vlib.sh([self.exe, "run", d, f], env=vlib.SAN_ENV, timeout=7200)
            self.impl_s += time.time() - t0
            cur, done = None, set()
            lines = text.splitlines()
            i = 0
            order = [k["id"] for k in todo]
            pos = 0
            while i < len(lines):
                p = lines[i].split(" ")
                if p[0] == "res" and i + 2 < len(lines) and lines[i + 1].startswith("mem ") and lines[i + 2].startswith("saved "):
                    cid = p[1]
                    cur = out.setdefault(cid, {"res": [], "again": {}, "src": None, "abort": None})
                    cur["res"].append((G.unhx(p[2]), p[3] == "ok=1", lines[i + 1][4:], lines[i + 2][6:]))
                    i += 3
                    continue
                if p[0] == "cust" and i + 1 < len(lines) and lines[i + 1].startswith("custfile "):
                    cid = p[1]
                    cur = out.setdefault(cid, {"res": [], "again": {}, "src": None, "abort": None})
                    cur.setdefault("cust", []).append((G.unhx(p[2]), dict(x.split("=") for x in p[3:]), lines[i + 1][9:]))
                    i += 2
                    if i < len(lines) and lines[i].startswith("custprobe "):
                        cur.setdefault("custprobe", []).append((len(cur["res"]), dict(x.split("=") for x in lines[i].split(" ")[1:])))
                        i += 1
                    continue
                if p[0] == "again" and cur is not None:
                    cur["again"][G.unhx(p[1])] = lines[i].split(" ", 2)[2]
                elif p[0] == "src" and cur is not None:
                    cur["src"] = p[1]
                    done.add(cid)
                    cur = None
                elif p[0] == "timeout":
                    out.setdefault(p[1], {"res": [], "again": {}, "src": None, "abort": None})["abort"] = "timeout"
                i += 1
            if rc == 0:
                break
            # the harness died inside one case: the first case (in order) that is not complete
            culprit = next((k for k in order if k not in done), None)
            if culprit is None:
                break
            e = out.setdefault(culprit, {"res": [], "again": {}, "src": None, "abort": None})
            if not e["abort"]:
                e["abort"] = "rc=%d: %s" % (rc, "\n".join(l for l in lines if "ERROR" in l or "runtime error" in l or "SUMMARY" in l)[:1500]
                                            or text[-1500:])
            self.san_reports.append(culprit)
            todo = todo[order.index(culprit) + 1:]
            if len(self.san_reports) >= 6:
                # the build is plainly broken (every cyclic set crashes, say): the first aborts are reported, stop here
                self.gave_up = True
                for k in todo:
                    out.setdefault(k["id"], {"res": [], "again": {}, "src": None, "abort": "not run: too many sanitizer aborts before"})
                break
        return out

    def model(self, cases, timeout=900):
        """-> {id: ModelOut}  (a list of (name, flags dict, mem, saved), with .cust = [(name, flags, custfile)])"""
        t0 = time.time()
        text = vlib.run_driver("driver_c14", "".join(G.case_text(k) for k in cases), timeout=timeout)
        self.model_s += time.time() - t0
        return parse_model(text)


class ModelOut(list):
    """the reference's answers for one case: the list of compile results, plus the CustomSettings sessions"""
    def __init__(self):
        super().__init__()
        self.cust = []


def parse_model(text):
    out = {}
    lines = text.splitlines()
    i = 0
    while i < len(lines):
        p = lines[i].split(" ")
        if p[0] == "res":
            fl = dict(x.split("=") for x in p[3:])
            out.setdefault(p[1], ModelOut()).append((G.unhx(p[2]), {k: v == "1" for k, v in fl.items()}, lines[i + 1][4:], lines[i + 2][6:]))
            i += 3
        elif p[0] == "cust":
            out.setdefault(p[1], ModelOut()).cust.append((G.unhx(p[2]), dict(x.split("=") for x in p[3:]), lines[i + 1][9:]))
            i += 2
        else:
            if p[0] == "bad-op":
                raise vlib.BuildError("driver_c14 rejected a line of the case file")
            i += 1
    return out


# ---------------------------------------------------------------- O: independent evaluation of the property on simple shapes
class Unsupported(Exception):
    pass


def _plain_key(k):
    return bool(k) and "/" not in k and not k.startswith("__") and not k.startswith("@")


def _lit_key(k):
    """a key that MergeTree takes literally beside an __include: anything but a directive, a list index or an operator suffix
    (a '/' inside it is part of the key there, not a path separator)"""
    return bool(k) and not k.startswith("__") and not k.startswith("@") and not k.endswith("/+") and not k.endswith("/=") \
        and not k.startswith("/") and not k.endswith("/")


def _plain_tree(t):
    """directive-free and without any operator-looking key"""
    if isinstance(t, list):
        return all(_plain_tree(x) for x in t)
    if isinstance(t, dict):
        return all(_plain_key(k) and _plain_tree(v) for k, v in t.items())
    return True


def _merge_plain(base, over):
    """MergeTree restricted to plain keys: maps merge recursively, anything else overwrites"""
    out = dict(base)
    for k in sorted(over, key=G.bkey):
        v = over[k]
        if v is None:
            if k not in out:
                out[k] = None
            continue
        if isinstance(v, dict):
            if k in out and out[k] is not None:
                if not isinstance(out[k], dict):
                    raise Unsupported("map over non-map")
                out[k] = _merge_plain(out[k], v)
            else:
                out[k] = copy.deepcopy(v)
        else:
            out[k] = copy.deepcopy(v)
    return out


_IDX = re.compile(r"^@(?:(\d+)|(next)|(last)|(before|after) (\d+|last))$")


def _is_idx(s):
    return len(s) > 1 and s[0] == "@" and s[1].isascii() and s[1].isalnum()


def _at(val, segs, fn):
    """the value with `fn` applied at the path (None = nothing there); containers on the way are created as the kind of
    key asks.  Written from the property statement: anything it leaves open raises Unsupported."""
    if not segs:
        return fn(val)
    s = segs[0]
    if _is_idx(s):
        m = _IDX.match(s)
        if not m:
            raise Unsupported("index spelling")
        if val is None:
            lst = []
        elif isinstance(val, list):
            lst = list(val)
        else:
            raise Unsupported("list index on a non-list")
        n = len(lst)
        if m.group(1) is not None:
            i = int(m.group(1))
            if i > n + 8:
                raise Unsupported("far index")
            while len(lst) <= i:
                lst.append(None)
            lst[i] = _at(lst[i], segs[1:], fn)
        elif m.group(2):
            lst.append(_at(None, segs[1:], fn))
        elif m.group(3):
            if n == 0:
                raise Unsupported("@last of an empty list")
            lst[n - 1] = _at(lst[n - 1], segs[1:], fn)
        else:
            if len(segs) > 1:
                raise Unsupported("insert form inside a path")
            if m.group(5) == "last":
                if n == 0:
                    raise Unsupported("last of an empty list")
                j = n - 1
            else:
                j = int(m.group(5))
            pos = j if m.group(4) == "before" else j + 1
            if pos > n:
                raise Unsupported("insert beyond the end")
            lst.insert(pos, fn(None))
        return lst
    if s == "" or s.startswith("@"):
        raise Unsupported("odd segment")
    if val is None:
        out = {}
    elif isinstance(val, dict):
        out = dict(val)
    else:
        raise Unsupported("map key on a non-map")
    out[s] = _at(out.get(s), segs[1:], fn)
    return out


def _merge_into(old, v):
    cur = old
    for kk in sorted(v, key=G.bkey):
        cur = edit(cur, kk, v[kk], True)
    return cur


def edit(val, key, v, mt):
    """one entry `key: v` of a patch literal (mt=False: the key is a path) or of the entries merged over an include / into
    a map (mt=True: the key is one literal key): set, append / merge (`/+`, `__append`, `__merge`), replace (`/=`)"""
    if key == "__append":
        kind, path = "append", ""
    elif key == "__merge":
        kind, path = "merge", ""
    elif key.endswith("/+"):
        kind, path = "add", key[:-2]
    elif key.endswith("/="):
        kind, path = "set", key[:-2]
    elif mt and (v is None or isinstance(v, dict)):
        kind, path = "mergeset", key
    else:
        kind, path = "set", key
    if "/+" in path or "/=" in path or path.startswith("__"):
        raise Unsupported("operator inside the key")
    if mt:
        if path.startswith("/") or path.endswith("/"):
            raise Unsupported("odd literal key")
        segs = [path] if path else []
    elif path == "":
        segs = []
    else:
        segs = path.split("/")
        if any(x == "" for x in segs):
            raise Unsupported("empty path segment")
    if kind != "set" and any(_is_idx(x) and re.match(r"^@(before|after)", x) for x in segs):
        raise Unsupported("append / merge at an insert position")

    def fn(old):
        if kind == "set":
            return copy.deepcopy(v)
        if kind == "mergeset":
            if v is None:
                return old
            if old is None:
                if not _plain_tree(v):
                    raise Unsupported("operator keys copied literally")
                return copy.deepcopy(v)
            if isinstance(old, dict):
                return _merge_into(old, v)
            raise Unsupported("map over non-map")
        if v is None:
            if old is None:
                raise Unsupported("nothing appended to nothing")
            return old
        if old is None:
            if not _plain_tree(v):
                raise Unsupported("operator keys copied literally")
            return copy.deepcopy(v)
        if kind in ("add", "append") and isinstance(old, str) and isinstance(v, str):
            return old + v
        if kind in ("add", "append") and isinstance(old, list) and isinstance(v, list):
            return old + copy.deepcopy(v)
        if kind in ("add", "merge") and isinstance(old, dict) and isinstance(v, dict):
            return _merge_into(old, v)
        raise Unsupported("type clash")
    return _at(val, segs, fn)


def py_customize(docs, name, kvs):
    """what `<name>.custom.yaml` reloads to after CustomSettings(name).Load(); Customize(k, v)...; Save() — from the contract of
    the custom file: `patch` is the map of patch keys, `customization` the signature block; entries with null values are not
    written.  None = outside what this evaluator speaks about."""
    cn = G.custom_of(name)
    if not kvs:
        return docs.get(cn, "\0none")
    old = docs.get(cn)
    if old is not None and not isinstance(old, dict):
        return None
    root = dict(old or {})
    patch = dict(root["patch"]) if isinstance(root.get("patch"), dict) else {}
    for k, v in kvs:
        patch[k] = v
    root["patch"] = patch
    cz = root.get("customization")
    if cz is not None and not isinstance(cz, dict):
        return None
    root["customization"] = dict(cz or {}, generator="verif", modified_time="T", distribution_code_name="verif",
                                 distribution_version="1", rime_version="V")
    return G.emit_proj(root)


def simple_expect(docs, name):
    """Expected compiled tree of `name` for the fragment: includes of directive-free targets with plain overrides, patch
    lists of literals (or references to directive-free literals) with plain single-segment keys, the automatic custom
    patch of the same form.  Everything else raises Unsupported.  Written from the property statement, not from the code."""
    if name.endswith(".schema") and name in docs and isinstance(docs[name], dict):
        # the one schema shape this evaluator speaks about: directive-free, no `import_preset`, no custom patch — it compiles
        # to itself with `menu` = a copy of default:/menu (when there is one) and its own menu entries merged over it
        root = docs[name]
        if G.has_directive(root) or G.custom_of(name) in docs or "import_preset" in json.dumps(root) or not _plain_tree(root):
            raise Unsupported("schema shape")
        out = copy.deepcopy(root)
        d = docs.get("default")
        if d is None:
            return out
        if not isinstance(d, dict) or G.has_directive(d) or "default.custom" in docs or not _plain_tree(d):
            raise Unsupported("default shape")
        dm = d.get("menu")
        if dm is None:
            return out
        own = root.get("menu")
        if own is None and "menu" not in root:
            out["menu"] = copy.deepcopy(dm)
        elif isinstance(own, dict) and own:
            val = copy.deepcopy(dm)
            for k in sorted(own, key=G.bkey):
                val = edit(val, k, own[k], True)
            out["menu"] = val
        else:
            raise Unsupported("menu shape")
        return out
    if name.endswith(".schema") or name.endswith(".custom") or name not in docs or not isinstance(docs[name], dict):
        raise Unsupported("doc kind")

    depth = [0]
    doc_state = {name: "busy"}

    def target(cur, text):
        opt = text.endswith("?")
        if "?" in text[:-1]:
            raise Unsupported("odd ?")
        t = text[:-1] if opt else text
        doc = cur
        if ":" in t:
            d, t = t.split(":", 1)
            if d:
                doc = d[:-5] if d.endswith(".yaml") else d
                if doc.endswith(".yaml"):
                    raise Unsupported("resource named with the extension twice")
        keys = [k for k in t.split("/") if k != ""]
        if t.endswith("/") and keys:
            raise Unsupported("trailing slash")
        if not all(_plain_key(k) or k.startswith("@") for k in keys):
            raise Unsupported("ref keys")
        if doc not in docs:
            if opt:
                return None
            raise Unsupported("missing doc")
        root = docs[doc]
        if doc != cur:
            if not isinstance(root, dict) or (doc + ".custom") in docs or doc.endswith(".schema") or doc.endswith(".custom"):
                raise Unsupported("cross target doc kind")
            if not _plain_tree(root) and ("__include" in root or "__patch" in root or not keys):
                raise Unsupported("cross target doc root not plain")
            # a directive ANYWHERE in the other document is resolved when its root is entered: if one of them is outside this
            # evaluator (a missing target, say) the whole compilation may fail or go best-effort — nothing is claimed then
            if G.has_directive(root):
                st_ = doc_state.get(doc)
                if st_ is None:
                    doc_state[doc] = "busy"
                    try:
                        ev(doc, root, True)
                        doc_state[doc] = "ok"
                    except Unsupported:
                        doc_state[doc] = "no"
                        raise
                elif st_ != "ok":
                    raise Unsupported("other document outside the fragment (or cyclic)")
        else:
            if not isinstance(root, dict) or "__include" in root or "__patch" in root or not keys:
                raise Unsupported("local root")
        node = root
        for i, k in enumerate(keys):
            if isinstance(node, dict):
                if k.startswith("@"):
                    raise Unsupported("list key on a map")
                if i > 0 and G.has_directive({x: y for x, y in node.items() if x in ("__include", "__patch")}):
                    # a node on the way that has an include / patch of its own: the reference goes through its COMPILED value
                    if depth[0] > 6:
                        raise Unsupported("reference chain too deep (or cyclic)")
                    depth[0] += 1
                    try:
                        node = ev(doc, node)
                    finally:
                        depth[0] -= 1
                    if not isinstance(node, dict):
                        raise Unsupported("path through non-map")
                if k not in node or node[k] is None:
                    if opt:
                        return None
                    raise Unsupported("missing target")
                node = node[k]
            elif isinstance(node, list) and k.startswith("@"):
                # every spelling of a list position names the same element: @N, @last, @before N, @after N
                j = G.resolve_idx(k, len(node))
                if j >= len(node) or node[j] is None:
                    if opt:
                        return None
                    raise Unsupported("missing target")
                node = node[j]
            else:
                raise Unsupported("path through a scalar or a plain key on a list")
        if _plain_tree(node):
            return copy.deepcopy(node)
        # the slot receives the *compiled* referenced node
        if depth[0] > 6:
            raise Unsupported("reference chain too deep (or cyclic)")
        depth[0] += 1
        try:
            return ev(doc, node)
        finally:
            depth[0] -= 1

    def literal(cur, p):
        if isinstance(p, str):
            p = target(cur, p)
            if p is None:
                return {}
        if not isinstance(p, dict) or G.has_directive(p):
            raise Unsupported("patch shape")
        return p

    def ev(cur, t, is_root=False):
        if isinstance(t, list):
            return [ev(cur, x) for x in t]
        if not isinstance(t, dict):
            return t
        data = {}
        for k, v in t.items():
            if k in ("__include", "__patch"):
                continue
            data[k] = ev(cur, v)
        val = data
        inc = None
        if "__include" in t:
            if not isinstance(t["__include"], str):
                raise Unsupported("include shape")
            inc = target(cur, t["__include"])
            if inc is not None:
                val = inc
                for k in sorted(data, key=G.bkey):
                    val = edit(val, k, data[k], True)
        if inc is None and not all(_lit_key(k) for k in data):
            raise Unsupported("operator key")
        patches = []
        if "__patch" in t:
            pv = t["__patch"]
            patches = [literal(cur, x) for x in pv] if isinstance(pv, list) else [literal(cur, pv)]
        elif is_root and (cur + ".custom") in docs:
            cd = docs[cur + ".custom"]
            if not isinstance(cd, dict) or G.has_directive(cd):
                raise Unsupported("custom shape")
            if cd.get("patch") is not None:
                patches = [literal(cur + ".custom", cd["patch"])]
        for lit in patches:
            for k in sorted(lit, key=G.bkey):
                val = edit(val, k, lit[k], False)
        return val
    return ev(name, docs[name], True)


_PURE_REF = re.compile(r"^([A-Za-z0-9_.]+):/([A-Za-z0-9_]+)$")
_PLUGIN_KEYS = ("menu", "key_binder", "punctuator", "recognizer")


def pure_include_mismatch(docs, name, memt):
    """include = copy, in its barest form and for every kind of document (schemas included): an entry that is nothing but
    `{__include: other:/key}` of a directive-free node in a directive-free document without custom patch compiles to that node as
    written — whatever else the compilation (other entries, the link-time plugins) does with further copies of it.
    -> (key, reference text, expected, compiled) of the first mismatch, or None"""
    root = docs.get(name)
    if not isinstance(root, dict) or not isinstance(memt, dict) or "__include" in root or "__patch" in root or G.custom_of(name) in docs:
        return None
    for k in sorted(root, key=G.bkey):
        v = root[k]
        if not (isinstance(v, dict) and list(v) == ["__include"] and isinstance(v["__include"], str)):
            continue
        if name.endswith(".schema") and k in _PLUGIN_KEYS:
            continue                                  # the plugins legitimately extend the schema's own copy
        m = _PURE_REF.match(v["__include"])
        if not m or m.group(1) == name or m.group(1).endswith((".schema", ".custom", ".yaml")) or not _plain_key(k):
            continue
        d = docs.get(m.group(1))
        if not isinstance(d, dict) or G.has_directive(d) or G.custom_of(m.group(1)) in docs:
            continue
        node = d.get(m.group(2))
        if node is None or not _plain_tree(node):
            continue
        if memt.get(k) != node:
            return (k, v["__include"], node, memt.get(k))
    return None


def gen_simple(rng, idx):
    """document sets inside the fragment `simple_expect` evaluates (so O has real coverage on every run)"""
    g = G.Gen(rng, "acyclic")
    g.risk = 0

    def plain(depth, want=None):
        t = g.data(depth, want)
        return t if t != "" else "x"
    b = {k: plain(2) for k in rng.sample(G.KEYS, rng.randint(2, 4))}
    b["m"] = {k: plain(1) for k in rng.sample(G.KEYS, 3)}
    a = {"d": {k: plain(2) for k in rng.sample(G.KEYS, rng.randint(1, 3))}, "lit": {k: plain(1) for k in rng.sample(G.KEYS, 2)}}
    for i in range(rng.randint(1, 3)):
        n = {}
        tgt = rng.choice(["b:/m", "b:/", "/d", "d", "b:/nope?", ":/d", "b.yaml:/m", "a:/d"])
        if rng.random() < 0.8:
            n["__include"] = tgt
        for k in rng.sample(G.KEYS, rng.randint(0, 2)):
            n[k] = plain(1, rng.choice(["s", "l"])) if rng.random() < 0.7 else {kk: plain(0) for kk in rng.sample(G.KEYS, 2)}
        if rng.random() < 0.7:
            lits = [rng.choice([{k: plain(1) for k in rng.sample(G.KEYS, rng.randint(1, 2))}, "/lit", "b:/m"]) for _ in range(rng.randint(1, 3))]
            n["__patch"] = lits if (len(lits) > 1 or rng.random() < 0.5) else lits[0]
        a["x%d" % i] = n
    docs = {"a": a, "b": b}
    if rng.random() < 0.5:
        docs["a.custom"] = {"patch": {k: plain(1) for k in rng.sample(G.KEYS + ["d", "x0"], rng.randint(1, 2))}}
    ops = [("compile", n) for n in rng.sample(["a", "b"], 2)]
    if rng.random() < 0.3:
        ops.append(("compile", "b"))
    return {"id": "si%d" % idx, "docs": docs, "ops": ops, "mode": "simple", "risk": 0, "features": ["simple-fragment"]}


def gen_listref(rng, idx):
    """directed family inside the fragment: references to list elements through every spelling of the position (@N, @last,
    @before N, @after N), to elements that carry their own __include / __patch, from keys parsed before (forward reference: the
    element is still pending) and after the list, from the same document and from another one"""
    g = G.Gen(rng, "acyclic")
    g.risk = 0

    def plain(depth, want=None):
        t = g.data(depth, want)
        return t if t != "" else "x"

    def pmap(n):
        return {k: plain(1, "s") for k in rng.sample(G.KEYS, n)}
    base = pmap(rng.randint(2, 3))
    n = rng.randint(1, 4)
    lst = []
    for j in range(n):
        u = rng.random()
        if u < 0.25:
            el = pmap(rng.randint(1, 2))
        elif u < 0.32:
            el = rng.choice(G.WORDS)
        else:
            el = {"__include": rng.choice(["/base", "base", "c:/m", "a:/base"])}
            if rng.random() < 0.6:
                el[rng.choice(G.KEYS)] = plain(1, "s")
            if rng.random() < 0.6:
                lits = [pmap(rng.randint(1, 2)) for _ in range(rng.randint(1, 2))]
                el["__patch"] = lits if len(lits) > 1 else lits[0]
        lst.append(el)
    a = {"base": base, "lst": lst}
    feats = {"listref"}

    def ref_to(i, prefix):
        alias = rng.choice(G.idx_aliases(i, n)) if rng.random() < 0.75 else "@%d" % i
        if not alias[1:].isdigit():
            feats.add("listref-alias")
        return prefix + alias
    for t in range(rng.randint(1, 3)):
        i = rng.randrange(n)
        fwd = rng.random() < 0.6
        name = ("c%d" if fwd else "z%d") % t        # ConfigMap parses keys in sorted order: c* before lst, z* after
        feats.add("listref-forward" if fwd else "listref-backward")
        node = {"__include": ref_to(i, rng.choice(["lst/", "/lst/", ":/lst/", "a:/lst/"]))}
        if isinstance(lst[i], dict):
            if rng.random() < 0.4:
                node[rng.choice(G.KEYS)] = plain(1, "s")
            if rng.random() < 0.3:
                node["__patch"] = pmap(1)
        a[name] = node
    c = {"m": pmap(rng.randint(1, 3))}
    b = {"m": pmap(2), "q": {"__include": ref_to(rng.randrange(n), "a:/lst/")}}
    docs = {"a": a, "b": b, "c": c}
    if rng.random() < 0.3:
        docs["b.custom"] = {"patch": pmap(1)}
    ops = [("compile", x) for x in rng.sample(["a", "b"], 2)]
    return {"id": "lr%d" % idx, "docs": docs, "ops": ops, "mode": "simple", "risk": 0, "features": sorted(feats)}


def gen_prefixsib(rng, idx):
    """directed family inside the fragment: sibling keys one of which is a STRING prefix of the other (k / k_x / k1 / kx,
    list / list2) — paths that are prefixes as text but not ancestors — with references from the longer to the shorter
    while the shorter still has a directive of its own pending (an earlier key pulls the longer one in first)"""
    g = G.Gen(rng, "acyclic")
    g.risk = 0

    def pmap(n):
        out = {}
        for k in rng.sample(G.KEYS, n):
            t = g.data(1, "s")
            out[k] = t if t != "" else "x"
        return out
    short = rng.choice(["k", "kb", "list", "m", "zz"])
    long_ = short + rng.choice(["_x", "1", "x", "_extra", "0", "b"])
    a = {"base": pmap(rng.randint(2, 3))}
    a[short] = {"__include": rng.choice(["/base", "base", "c:/m"])}      # (b refers to a: a must not refer to b)
    if rng.random() < 0.6:
        a[short][rng.choice(G.KEYS)] = "x"
    if rng.random() < 0.4:
        a[short]["__patch"] = pmap(1)
    a[long_] = {"__include": rng.choice(["/", "", ":/", "a:/"]) + short}
    if rng.random() < 0.4:
        a[long_]["__patch"] = pmap(1)
    feats = {"prefix-siblings"}
    if rng.random() < 0.75:
        # a key parsed before both pulls the longer one in first
        first = rng.choice(["a0", "b0", "aa"])
        a[first] = {"__include": "/" + long_}
        feats.add("prefix-siblings:pulled-first")
    if rng.random() < 0.3:
        a["zzz"] = {"__include": "/" + short, "__patch": pmap(1)}
    b = {"m": pmap(2), "q": {"__include": "a:/" + rng.choice([short, long_])}}
    docs = {"a": a, "b": b, "c": {"m": pmap(2)}}
    ops = [("compile", x) for x in rng.sample(["a", "b"], 2)]
    return {"id": "ps%d" % idx, "docs": docs, "ops": ops, "mode": "simple", "risk": 0, "features": sorted(feats)}


def gen_viamid(rng, idx):
    """directed family inside the fragment: a reference whose path goes THROUGH a node that has an include / patch of its own
    and a further directive below it, from keys parsed before and after that node and from another document — the reference
    must see the node's compiled value (its own include applied first)"""
    g = G.Gen(rng, "acyclic")
    g.risk = 0

    def pmap(n):
        out = {}
        for k in rng.sample(G.KEYS, n):
            t = g.data(1, "s")
            out[k] = t if t != "" else "x"
        return out
    base = {"x": pmap(2), "y": rng.choice(G.WORDS) or "w"}
    other = pmap(2)
    mid = {"__include": rng.choice(["/base", "base", "c:/m"]), "sub": {"__include": "/other"}}
    if rng.random() < 0.5:
        mid["__patch"] = {"y": "patched"}
    if rng.random() < 0.4:
        mid["x"] = {"extra": "1"}          # merged over the included x
    a = {"base": base, "other": other, "mid": mid}
    feats = {"via-mid"}
    for t in range(rng.randint(1, 2)):
        fwd = rng.random() < 0.6
        feats.add("via-mid:forward" if fwd else "via-mid:backward")
        a[("a%d" if fwd else "z%d") % t] = {"__include": rng.choice(["/mid/x", "mid/x", "/mid/sub", "/mid/y", ":/mid/x"])}
    c = {"m": {"x": pmap(2), "y": "cy"}}
    b = {"q": {"__include": "a:/mid/" + rng.choice(["x", "sub", "y"])}, "m": pmap(1)}
    docs = {"a": a, "b": b, "c": c}
    if rng.random() < 0.3:
        docs["a.custom"] = {"patch": {"zz": "c"}}
    ops = [("compile", x) for x in rng.sample(["a", "b"], 2)]
    return {"id": "vm%d" % idx, "docs": docs, "ops": ops, "mode": "simple", "risk": 0, "features": sorted(feats)}


def gen_manypatch(rng, idx):
    """directed family inside the fragment: MANY patches on one node (17 to 26 list entries, or several nested directive
    sections plus a long list: more dependencies than a small-array sort keeps stable), each overwriting the same keys — the
    last one must win, in list order; and sibling keys that contain '/' beside an __include (merged as KEYS, not as paths)"""
    g = G.Gen(rng, "acyclic")
    g.risk = 0
    base = {"v": "base", "style": {"color": "aqua", "font": "serif"}, "menu": {"ps": "5"}}
    n = rng.randint(17, 26)
    lits = {"l%02d" % i: {"v": "q%02d" % i} for i in range(4)}
    plist = []
    for i in range(n):
        if rng.random() < 0.15:
            plist.append("/lits/l%02d" % rng.randrange(4))
        else:
            plist.append({"v": "p%02d" % i, "w%d" % (i % 3): "p%02d" % i})
    many = {"__include": "/base", "__patch": plist}
    mixed = {"__include": "/base", "__patch": [{"v": "m%02d" % i} for i in range(rng.randint(9, 12))]}
    for j in range(rng.randint(6, 9)):
        mixed["s%d" % j] = {"__include": "/lits/l%02d" % (j % 4), "on": "1"}
    slash = {"__include": "/base", "style/font": "mono", "menu/ps": "9", "style/extra": {"depth": "2"}}
    a = {"base": base, "lits": lits, "many": many, "mixed": mixed, "slash": slash}
    docs = {"a": a, "b": {"q": {"__include": "a:/" + rng.choice(["many", "mixed", "slash"])}}}
    ops = [("compile", x) for x in rng.sample(["a", "b"], 2)]
    return {"id": "mp%d" % idx, "docs": docs, "ops": ops, "mode": "simple", "risk": 0, "features": ["many-patches", "slash-keys-beside-include"]}


def gen_rootinc(rng, idx):
    """directed family inside the fragment: a document whose root includes (a map of) another document and that has a
    <name>.custom.yaml — the automatic patch must still be applied"""
    g = G.Gen(rng, "acyclic")
    g.risk = 0

    def pmap(n, depth=1):
        out = {}
        for k in rng.sample(G.KEYS, n):
            t = g.data(depth, rng.choice(["s", "s", "m"]) if depth > 1 else "s")
            out[k] = t if t != "" else "x"
        return out
    b = {"m": pmap(rng.randint(1, 3), 2), "k": rng.choice(G.WORDS), "d": pmap(2)}
    a = pmap(rng.randint(0, 2))
    a["__include"] = rng.choice(["b:/", "b:/m", "b:/d", "b.yaml:/"])
    if rng.random() < 0.3:
        a["x0"] = {"__include": "b:/d", "__patch": pmap(1)}
    docs = {"a": a, "b": b}
    feats = {"rootinc"}
    if rng.random() < 0.8:
        docs["a.custom"] = {"patch": pmap(rng.randint(1, 2))}
        feats.add("rootinc+custom")
    if rng.random() < 0.2:
        a["__patch"] = pmap(1)          # an explicit root patch suppresses the automatic one
        feats.add("rootinc+explicit-patch")
    ops = [("compile", x) for x in rng.sample(["a", "b"], 2)]
    return {"id": "ri%d" % idx, "docs": docs, "ops": ops, "mode": "simple", "risk": 0, "features": sorted(feats)}


# ---------------------------------------------------------------- verdict for one case
def tree_of(text):
    return None if text in ("none", "unloadable") else G.untok(text)


def judge(case, impl, model):
    """-> (findings, stats).  finding = dict(kind, sig, what, detail[, input_violation])"""
    F, st = [], {"compiles": 0, "clean_equal": 0, "failed_equal": 0, "best_effort": 0, "o_simple": 0, "o_plain": 0, "o_custom": 0}
    docs = case["docs"]
    comp = [op[1] for op in case["ops"] if op[0] == "compile"]
    # the documents as they are on disk at each compile (CustomSettings sessions rewrite the custom documents)
    docs_at, cust_ops, now = [], [], docs
    for op in case["ops"]:
        if op[0] == "compile":
            docs_at.append(now)
        elif op[0] == "customize":
            exp = py_customize(now, op[1], op[2])
            cust_ops.append((op, now, exp))
            if exp is None:
                now = dict(now)
                now[G.custom_of(op[1])] = ["\0unknown"]       # not a map: every evaluator declines
            elif exp != "\0none":
                now = dict(now)
                now[G.custom_of(op[1])] = exp
    if impl is None:
        impl = {"res": [], "again": {}, "src": None, "abort": "no output"}
    if impl["abort"] and impl["abort"].startswith("not run"):
        return F, st
    if impl["abort"]:
        kind = "timeout" if impl["abort"] == "timeout" else "sanitizer-or-crash"
        where = re.search(r"/src/rime/([\w/]+\.(?:cc|h)):\d+", impl["abort"])
        F.append({"kind": kind, "sig": "C14:" + ("termination" if kind == "timeout" else "sanitizer" + (":" + os.path.basename(where.group(1)) if where else "")),
                  "input_violation": True,
                  "what": ("the compiler did not terminate within the watchdog" if kind == "timeout"
                           else "sanitizer abort / crash inside the real compiler") + " on document set " + case["id"],
                  "detail": impl["abort"]})
        return F, st
    icust = impl.get("cust", [])
    if len(impl["res"]) != len(comp) or (model is not None and len(model) != len(comp)) or len(icust) != len(cust_ops) \
            or (model is not None and cust_ops and len(getattr(model, "cust", [])) != len(cust_ops)):
        F.append({"kind": "protocol", "sig": "C14:protocol", "what": "harness/driver output incomplete for " + case["id"],
                  "detail": {"impl": len(impl["res"]), "model": None if model is None else len(model), "ops": len(comp)}})
        return F, st
    # ---- O: the custom documents written by the real CustomSettings
    for j, ((op, before, exp), (cname, cfl, cfile)) in enumerate(zip(cust_ops, icust)):
        st["o_custom"] = st.get("o_custom", 0) + 1
        want_saved = "1" if op[2] else "0"
        got = None if cfile in ("none", "unloadable") else G.untok(cfile)
        bad = None
        if cfl.get("saved") != want_saved or cfl.get("modified") != want_saved:
            bad = "Save()/modified() say %s/%s after %d Customize calls" % (cfl.get("saved"), cfl.get("modified"), len(op[2]))
        elif cfile == "unloadable":
            bad = "the custom document written cannot be loaded"
        elif exp is not None and exp != "\0none" and got != exp:
            bad = "the custom document written is not the old one with the customized keys set in `patch` and the signature block"
        elif exp == "\0none" and cfile != "none":
            bad = "a custom document appeared although nothing was customized"
        elif op[2] and exp is not None and cfl.get("first_after") != "0":
            bad = "IsFirstRun() is still true after a signed save"
        elif cfl.get("first") != ("0" if isinstance(before.get(G.custom_of(op[1])), dict)
                                  and isinstance(before[G.custom_of(op[1])].get("customization"), dict) else "1"):
            bad = "IsFirstRun() before the session does not tell whether a signed custom document exists"
        if bad:
            F.append({"kind": "custom", "sig": "C14:custom-settings:file", "input_violation": True,
                      "what": "CustomSettings on %r: %s" % (op[1], bad),
                      "detail": {"doc": op[1], "customized": op[2], "flags": cfl, "file": cfile,
                                 "expected": None if exp in (None, "\0none") else G.tok(exp)}})
        if model is not None:
            mname, mfl, mfile = model.cust[j]
            if mfl != cfl or mfile != cfile:
                F.append({"kind": "custom-corr", "sig": "C14:correspondence:custom-settings",
                          "what": "CustomSettings session on %r differs from the reference" % op[1],
                          "detail": {"doc": op[1], "customized": op[2], "impl": [cfl, cfile], "model": [mfl, mfile]}})
    # ---- O: what CustomSettings shows of the deployed config = the staging file the last compile of that document wrote
    for j, ((op, before, exp), (nres, pr)) in enumerate(zip(cust_ops, impl.get("custprobe", []))):
        last = [r for r in impl["res"][:nres] if G.norm_id(r[0]) == op[1]]
        dep = tree_of(last[-1][3]) if last and last[-1][1] and last[-1][3] not in ("none", "unloadable") else None
        dep = dep if isinstance(dep, dict) else {}
        want = {"k": G.hx(dep["k"]) if isinstance(dep.get("k"), str) else "none",
                "l": G.hx(G.tok(dep["l"])) if isinstance(dep.get("l"), list) else G.hx("n"),
                "m": G.hx(G.tok(dep["m"])) if isinstance(dep.get("m"), dict) else G.hx("n")}
        if pr != want:
            F.append({"kind": "custom", "sig": "C14:custom-settings:deployed-view", "input_violation": True,
                      "what": "CustomSettings(%r).GetValue/GetList/GetMap do not show the deployed (staging) config" % op[1],
                      "detail": {"doc": op[1], "shown": pr, "deployed": want}})
    # ---- O: monitors on the implementation's own outputs
    seen = {}
    for i, (rawname, ok, mem, saved) in enumerate(impl["res"]):
        name = G.norm_id(rawname)
        docs = docs_at[i]
        st["compiles"] += 1
        if saved == "unloadable":
            F.append({"kind": "saved-unloadable", "sig": "C14:saved:unloadable", "input_violation": True,
                      "what": "the staging file written for %r cannot be loaded again" % name, "detail": {"doc": name}})
        if name in seen and seen[name][0] is docs and seen[name][1:] != (ok, mem, saved):
            F.append({"kind": "purity", "sig": "C14:purity:recompile-differs", "input_violation": True,
                      "what": "compiling %r again (after other documents were compiled) gives a different result" % name,
                      "detail": {"doc": name, "first": seen[name][1], "again": mem}})
        if name not in seen or seen[name][0] is not docs:
            seen[name] = (docs, ok, mem, saved)
        if name in docs and isinstance(docs[name], dict) and not G.has_directive(docs[name]) and not name.endswith(".schema") \
                and (name.endswith(".custom") or (name + ".custom") not in docs):
            st["o_plain"] += 1
            if not ok or tree_of(mem) != docs[name] or tree_of(saved) != G.emit_proj(docs[name]):
                F.append({"kind": "plain", "sig": "C14:plain:not-identity", "input_violation": True,
                          "what": "directive-free document %r does not compile to itself" % name,
                          "detail": {"doc": name, "impl_mem": mem, "impl_saved": saved}})
        pure = pure_include_mismatch(docs, name, tree_of(mem)) if ok else None
        if pure:
            F.append({"kind": "alias", "sig": "C14:alias:include-not-a-copy", "input_violation": True,
                      "what": "in %r the entry %r is nothing but an __include of %s, yet it does not compile to that node as written "
                              "(something wrote through the shared node)" % (name, pure[0], pure[1]),
                      "detail": {"doc": name, "key": pure[0], "included": pure[1], "expected": G.tok(pure[2]), "compiled": G.tok(pure[3])}})
        try:
            exp = simple_expect(docs, name)
        except Unsupported:
            exp = None
        except Exception as e:  # a bug in the fragment evaluator must not pass silently
            exp = None
            F.append({"kind": "oracle-bug", "sig": "C14:oracle", "what": "simple_expect raised %r" % e, "detail": {"doc": name}})
        if exp is not None:
            st["o_simple"] += 1
            if not ok or tree_of(mem) != exp or tree_of(saved) != G.emit_proj(exp):
                F.append({"kind": "simple", "sig": "C14:simple-fragment:" + clause_of(docs, name), "input_violation": True,
                          "what": "compiled %r differs from include-copy / ordered-patch semantics (fragment evaluator)" % name,
                          "detail": {"doc": name, "expected": G.tok(exp), "impl_mem": mem, "impl_saved": saved}})
    for name, text in impl["again"].items():
        last = [r for r in impl["res"] if G.norm_id(r[0]) == name][-1]
        if text != last[2]:
            F.append({"kind": "alias", "sig": "C14:alias:result-mutated-later", "input_violation": True,
                      "what": "the in-memory result of %r changed after later compilations" % name,
                      "detail": {"doc": name, "at_compile": last[2], "at_end": text}})
    if impl["src"] != "ok":
        F.append({"kind": "source", "sig": "C14:source-file-modified", "input_violation": True,
                  "what": "a source document was modified on disk by compiling", "detail": {"src": impl["src"]}})
    # ---- K: correspondence with the reference
    if model is None:
        return F, st
    for i, ((name, ok, mem, saved), (mname, fl, mmem, msaved)) in enumerate(zip(impl["res"], model)):
        if fl["fuel"]:
            F.append({"kind": "model-fuel", "sig": "C14:model:fuel", "what": "the reference ran out of fuel on %r" % name,
                      "detail": {"doc": name}})
            continue
        if fl["dirty"] or fl["crash"]:
            st["best_effort"] += 1
            continue
        if not fl["ok"] or not fl["loaded"]:
            if ok:
                F.append({"kind": "ok-flag", "sig": "C14:correspondence:success-flag",
                          "what": "the reference fails on %r, the compiler saved a result" % name,
                          "detail": {"doc": name, "op": i, "impl_mem": mem, "model_mem": mmem}})
            else:
                st["failed_equal"] += 1
            continue
        if not ok or mem != mmem or saved != msaved:
            which = "success-flag" if not ok else "memory" if mem != mmem else "saved"
            F.append({"kind": "result", "sig": "C14:correspondence:" + which,
                      "what": "compiled %r differs from the reference (%s)" % (name, which),
                      "detail": {"doc": name, "op": i, "impl_ok": ok, "impl_mem": mem, "model_mem": mmem,
                                 "impl_saved": saved, "model_saved": msaved}})
        else:
            st["clean_equal"] += 1
    return F, st


def clause_of(docs, name):
    t = json.dumps(docs.get(name))
    c = []
    if name.endswith(".schema"):
        c.append("schema-default-menu")
    if "__include" in t:
        c.append("include-copy")
    if "__patch" in t:
        c.append("patch-order")
    if (name + ".custom") in docs:
        c.append("auto-patch")
    return "+".join(c) or "plain"


# ---------------------------------------------------------------- the check
def strip_case(k):
    return {"id": k["id"], "docs": k["docs"], "ops": [list(o) for o in k["ops"]], "mode": k.get("mode", "corpus")}


def load_case(j):
    return {"id": j["id"], "docs": j["docs"], "ops": [tuple(o) for o in j["ops"]], "mode": j.get("mode", "corpus")}


def one_shot(R, k, with_model=True):
    impl = R.impl([k]).get(k["id"])
    model = None
    if with_model:
        try:
            model = R.model([k]).get(k["id"])
        except Exception:
            model = None
    return judge(k, impl, model)[0]


def _ref_texts(t, out):
    if isinstance(t, list):
        for x in t:
            _ref_texts(x, out)
    elif isinstance(t, dict):
        for k, v in t.items():
            if k == "__include" and isinstance(v, str):
                out.append(v)
            elif k == "__patch":
                for x in (v if isinstance(v, list) else [v]):
                    if isinstance(x, str):
                        out.append(x)
            _ref_texts(v, out)


def independence_monitor(R, case):
    """O (model-free, used to classify a minimal disagreement): a top-level section that no reference text names is
    only a *reader* of the others, so deleting it must not change what the other sections compile to.  If it does, the
    section wrote through an include / patch into the node it read (an include that is not a copy, a source altered)."""
    base = R.impl([dict(case, id="ind0")]).get("ind0")
    if not base or base["abort"]:
        return None
    for name, root in sorted(case["docs"].items()):
        if not isinstance(root, dict) or "__patch" in root or "__include" in root or name.endswith(".schema"):
            continue
        if name.endswith(".custom") or (name + ".custom") in case["docs"]:
            continue
        full = [tree_of(r[2]) for r in base["res"] if r[0] == name]
        if not full or not isinstance(full[0], dict):
            continue
        for sec in sorted(root):
            rest = {k: v for k, v in root.items() if k != sec}
            segs, reads_root = set(), False
            for n2, t2 in case["docs"].items():
                texts = []
                _ref_texts(rest if n2 == name else t2, texts)
                for t in texts:
                    t = t.split("?")[0]
                    d, _, pth = t.rpartition(":") if ":" in t else ("", "", t)
                    d = d[:-5] if d.endswith(".yaml") else d
                    if (d or n2) != name:
                        continue
                    if pth.strip("/") == "":
                        reads_root = True
                    segs.update(pth.split("/"))
            if sec in segs or reads_root:
                continue  # somebody may read `sec` (or the whole root of this document): not a pure reader
            small = dict(case, id="ind1", docs=dict(case["docs"], **{name: rest}), ops=[("compile", name)])
            got = R.impl([small]).get("ind1")
            if not got or got["abort"] or not got["res"]:
                continue
            red = tree_of(got["res"][0][2])
            if not isinstance(red, dict):
                continue
            for k in rest:
                if k in full[0] and k in red and full[0][k] != red[k]:
                    return {"kind": "alias", "sig": "C14:alias:reader-changes-source", "input_violation": True,
                            "what": ("in %r the section %r, which nothing refers to, changes what section %r compiles to: "
                                     "an include/patch wrote into the node it read" % (name, sec, k)),
                            "detail": {"doc": name, "reader": sec, "changed": k, "with_reader": G.tok(full[0][k]),
                                       "without_reader": G.tok(red[k])}}
    return None


def corpus_cases(R):
    out = []
    files = [os.path.join(vlib.REPO, "data", "test", n + ".yaml") for n in FIXTURES]
    fresh = R.translate([f for f in files if os.path.exists(f)])
    if fresh:
        out.append({"id": "repo_fixtures_now", "docs": fresh, "ops": [("compile", n) for n in FIXTURES if n in fresh], "mode": "corpus"})
    for f in sorted(glob.glob(os.path.join(vlib.CORPUS, "C14", "*.case"))):
        for k in G.parse_case_file(open(f).read()):
            k["id"] = "corpus_" + os.path.basename(f)[:-5].replace(" ", "_") + "_" + k["id"]
            k["mode"] = "corpus"
            out.append(k)
    return out


def run(c):
    quick = c.tier == "quick"
    # P
    audit = vlib.lean_audit("C14")
    if not quick and audit["ok"]:
        ok, log = vlib.leanchecker("RimeModel.Props.C14")
        if not ok:
            audit["ok"] = False
            audit["failures"].append(("RimeModel.Props.C14", "leanchecker: " + log))
    # B
    R = Runner(c)
    # K + O
    n_ac, n_ar, n_si = (700, 150, 200) if quick else (24000, 5000, 4000)
    cases = corpus_cases(R)
    n_corpus = len(cases)
    cases += [gen_simple(c.rng, i) for i in range(n_si)]
    n_dir = 150 if quick else 3000
    cases += [gen_listref(c.rng, i) for i in range(n_dir)] + [gen_rootinc(c.rng, i) for i in range(n_dir)]
    cases += [gen_prefixsib(c.rng, i) for i in range(n_dir)] + [gen_viamid(c.rng, i) for i in range(n_dir)]
    cases += [gen_manypatch(c.rng, i) for i in range(max(20, n_dir // 5))]
    # round-2 families (coverage review): see checks/c14_cov.py
    n_eg, n_cov = (900, 150) if quick else (12000, 2500)
    cases += [V.gen_editgrid(c.rng, i) for i in range(n_eg)] + [V.gen_oddref(c.rng, i) for i in range(n_cov)]
    cases += [V.gen_schema(c.rng, i) for i in range(n_cov * 2)] + [V.gen_deep(c.rng, i) for i in range(n_cov)]
    cases += [V.gen_names(c.rng, i) for i in range(n_cov // 2)] + [V.gen_custom(c.rng, i) for i in range(n_cov)]
    cases += [G.gen_case(c.rng, i, "acyclic") for i in range(n_ac)]
    arb = [G.gen_case(c.rng, i, "arbitrary") for i in range(n_ar)]
    stats = {"compiles": 0, "clean_equal": 0, "failed_equal": 0, "best_effort": 0, "o_simple": 0, "o_plain": 0, "o_custom": 0}
    findings, feats, nontrivial, model_skipped = [], {}, set(), 0
    batches = [cases[i:i + 1500] for i in range(0, len(cases), 1500)] + [arb[i:i + 500] for i in range(0, len(arb), 500)]
    samples = []
    for bi, batch in enumerate(batches):
        if R.gave_up:
            break
        impl = R.impl(batch)
        try:
            # cyclic sets can make the memo-less reference explode: bounded, and then only termination/monitors count
            text_timeout = 900 if batch[0].get("mode") != "arbitrary" else 120
            model = R.model(batch, timeout=text_timeout)
        except vlib.BuildError:
            raise
        except Exception as e:
            if batch[0].get("mode") != "arbitrary":
                raise vlib.BuildError("driver_c14 failed on generated cases: %r" % e)
            model = None
            model_skipped += len(batch)
        for k in batch:
            F, st = judge(k, impl.get(k["id"]), None if model is None else model.get(k["id"]))
            for key in stats:
                stats[key] += st[key]
            for f in k.get("features", []):
                feats[f] = feats.get(f, 0) + 1
            if st["clean_equal"] and any(G.has_directive(t) for t in k["docs"].values()):
                nontrivial.add(hash(G.case_text(dict(k, id="x"))))
            for f in F:
                findings.append((k, f))
            if len(samples) < 4 and k.get("mode") != "corpus" and st["clean_equal"] and bi % 2 == 0 and len(json.dumps(k["docs"])) < 900:
                samples.append({"docs": k["docs"], "ops": [list(o) for o in k["ops"]], "mode": k.get("mode")})
    # verdicts: one per signature, shrunk
    by_sig = {}
    for k, f in findings:
        by_sig.setdefault(f["sig"], (k, f))
    shrunk = 0
    for sig, (k, f) in sorted(by_sig.items(), key=lambda kv: (not kv[1][1].get("input_violation"), kv[0])):
        small, fs = k, [f]
        if shrunk < 5 and f["kind"] not in ("protocol", "model-fuel", "oracle-bug"):
            shrunk += 1
            with_model = not f.get("input_violation")
            small = S.shrink(strip_case(k) | {"ops": k["ops"]}, lambda x: any(g["sig"] == sig for g in one_shot(R, x, with_model)),
                             budget=120 if quick else 400)
            fs = [g for g in one_shot(R, small, True)] or [f]
        inputv = [g for g in fs if g.get("input_violation")]
        if not inputv and f["kind"] in ("result", "ok-flag"):
            ind = independence_monitor(R, small)
            if ind:
                fs.append(ind)
                inputv = [ind]
                sig = ind["sig"]
        main = next((g for g in fs if g["sig"] == sig), fs[0])
        if inputv:
            g = next((x for x in inputv if x["sig"] == sig), inputv[0])
            c.report(g["sig"], g["what"], {"kind": g["kind"], "case": strip_case(small), "detail": g["detail"],
                                           "other_findings": [x["sig"] for x in fs if x is not g],
                                           "found_in": k["id"], "shrink_calls": small.get("shrink_calls")})
        else:
            c.report(main["sig"], main["what"] + " — no clause of the property is violated on the minimal set by the monitors; "
                     "model/implementation correspondence broken",
                     {"kind": main["kind"], "case": strip_case(small), "detail": main["detail"], "found_in": k["id"],
                      "broken": "correspondence driver_c14 (RimeModel.C14.compileDoc) vs c14_harness (ConfigBuilder)",
                      "shrink_calls": small.get("shrink_calls")}, no_input=True)
    if not audit["ok"] and not any(f.get("input_violation") for _, f in findings):
        c.report("C14:proof", "proof obligation no longer checks: %s" % "; ".join("%s: %s" % x for x in audit["failures"])[:600],
                 {"kind": "proof", "broken_theorems": audit["failures"], "lean_log": audit["log"][-3000:]}, no_input=True)
    cov = vlib.proof_cov(audit, "lake build RimeModel.Props.C14 && #print axioms (all theorems) && forbidden-token scan"
                         + ("" if quick else " && leanchecker RimeModel.Props.C14"),
                         vlib.STD_TRUSTED + ["yaml-cpp on the flow-style documents the harness writes and on the staging files",
                                             "the C++ dependency-graph algorithm equals the reference: differential check only (partial)"])
    cov.update({
        "evaluations": stats["compiles"], "distinct_nontrivial": len(nontrivial),
        "rule": ("document sets: corpus (%d; repo fixtures re-translated from %s/data/test on this run + corpus/C14) + %d simple-fragment + 4x%d directed (list-element references in every index spelling, forward and backward; root include with custom patch; sibling keys that are string prefixes of one another; references through a node with directives of its own) + %d edit-grid (existing value x new value x key form x operator, in patches and beside includes) + %d each odd reference texts / deep pending children / 2x schema presets / names (.yaml spelling, missing, sub-directory) / CustomSettings sessions + %d "
                 "acyclic-grammar + %d arbitrary (cyclic) sets; every document of a set is compiled by the real ConfigBuilder (in-memory "
                 "tree + re-loaded staging YAML) and by the Lean reference; non-trivial = a set containing directives with at least one "
                 "compile on which the reference run is clean+successful and equal, distinct by set text" % (n_corpus, vlib.REPO, n_si, n_dir, n_eg, n_cov, n_ac, n_ar)),
        "samples": samples or [strip_case(cases[0])],
        "compiles": stats["compiles"], "clean_equal": stats["clean_equal"], "failed_flag_equal": stats["failed_equal"],
        "best_effort_not_compared": stats["best_effort"], "o_simple_fragment_evaluations": stats["o_simple"],
        "o_plain_evaluations": stats["o_plain"], "o_custom_settings_sessions": stats["o_custom"], "arbitrary_sets_terminated": len(arb), "model_skipped_sets": model_skipped,
        "sanitizer_aborts": len(R.san_reports), "findings": len(findings), "feature_counts": dict(sorted(feats.items())),
        "impl_seconds": round(R.impl_s, 1), "model_seconds": round(R.model_s, 1), "generator_version": G.GEN_VERSION,
        "source_hash": vlib.source_hash(SRC_FILES), "proof_failures": audit["failures"],
    })
    c.cov = cov
    c.assumptions = ["documents are YAML maps/lists/scalars whose keys are unique and contain no '/' outside patch literals",
                     "scalars come from a YAML-safe alphabet (the codec itself is C18)",
                     "equality is claimed for document sets on which the reference detects no circular dependency and swallows no failure"]


def replay(c, r):
    if "case" not in r:
        print("replay: this file names a broken obligation, no concrete input:", r.get("what"))
        return 1
    R = Runner(c)
    k = load_case(r["case"])
    fs = one_shot(R, k, True)
    ind = independence_monitor(R, k) if fs else None
    if ind:
        fs.append(ind)
    for f in fs:
        print("replay %s: %s" % (f["sig"], f["what"]))
        print("  detail:", json.dumps(f["detail"], default=str)[:1500])
    hit = [f for f in fs if f["sig"] == r.get("signature")]
    if not fs:
        print("replay: document set %s compiles as the reference says; all monitors pass" % k["id"])
    return 1 if hit or fs else 0
