"""C15 — maintenance excludes sessions and loses no task under any interleaving."""
import os, sys, json, re, glob, subprocess
import vlib

META = {
    "technique": ("Lean 4 inductive invariants over all schedules of a two-thread transition system of Deployer/Service "
                  "+ schedule-replay correspondence through yield hooks + ThreadSanitizer stress"),
    "level": "proof",
    "engine": "lean-model",
    "level_text": ("Theorems C15.excl / excl_step / excl_while_worker_runs / accepts_after_finish (session ops are refused "
                   "while a worker runs with the maintenance flag, accepted again afterwards), no_task_twice (FIFO, each task at "
                   "most once), no_lost_task (client between two calls and is_maintenance_mode false => queue empty and every "
                   "scheduled task has run; full strength for scripts of API maintenance calls, no_lost_task_idle for any script), "
                   "notes_grammar (notifications form a prefix of (start (success|failure)+)*, a full word whenever no worker "
                   "runs), excl_maintenance_thread (ANY script, StartWork(false) included: from its launch by a maintenance call to its "
                   "last queue check a work thread keeps maintenance_mode_ true), sent_grammar / heard_all (the grammar holds for what is SENT "
                   "whatever happens to the handler), refused_while_stopped / started_unless_finalized / finalize_waits (RimeFinalize / "
                   "RimeInitialize), run_sync_leaves_queue (RunTask on the client thread), refused_keeps_stale (a refused call does not "
                   "refresh a session's activity stamp), sync_drops_sessions_first, no_deadlock and startwork_join_is_short, all over Reach = the reflexive-transitive closure of the "
                   "two-thread step relation under ANY schedule (no preemption bound, any client script).  The model's atomic "
                   "steps are the code segments between the RIME_VERIF_YIELD points; the real Deployer/Service are steered "
                   "through those points by schedules enumerated from the model (all schedules with <= k preemptions over fixed "
                   "scripts + random scripts/schedules) and must produce the model's event trace exactly; the property clauses "
                   "are also evaluated directly on the implementation's traces."),
    "level_note": ("Data-race freedom is RUNTIME-ONLY: it is a property of the C++ memory model, not of the Lean model (whose "
                   "segments are atomic by construction); it is exhibited by free-running stress of the same client scripts under "
                   "ThreadSanitizer (reports whose accesses lie in librime are violations C15:race:<symbol>; glog/libc-internal "
                   "reports are counted, not blamed on librime).  Trusted: Lean kernel; the hand-written model is tied to the "
                   "code by trace equality on the replayed schedules only (bounded by the enumeration/generator); the yield "
                   "points cut the code between accesses to shared state, segments under mutex_ are taken as atomic; one client "
                   "thread (the property's reading); deployment tasks are replaced by logging dummies (what real tasks do inside "
                   "Run is outside C15); DestroySession/CleanupStaleSessions/CleanupAllSessions called by the CLIENT are not "
                   "guarded by disabled() and are outside the formal reading of 'session operation' (modelled and replayed, not judged; "
                   "a maintenance call that touches the sessions itself after launching its thread IS judged); a service stopped by "
                   "RimeFinalize is modelled, the monitors are silent about it; the stale sweep runs on a virtual clock (time() of the harness).  Without the hook patch in "
                   "the tree (hooks/C15.patch) only the proofs, the free-running monitors and the TSan stress run."),
    "design_ref": "DESIGN.md §3 C15",
}

SRC_FILES = ["src/rime/deployer.cc", "src/rime/deployer.h", "src/rime/service.cc", "src/rime/service.h",
             "src/rime_api_impl.h", "src/rime/verif_hooks.h"]

# client scripts whose schedules are enumerated exhaustively up to the preemption bound
ENUM_SCRIPTS = [
    "maint:111,is_maint,create,join,is_maint,create,find",
    "maint:111,sync:101,is_maint,join,is_maint,create",
    "create,sync:110,find,is_maint,sync:111,join,is_maint,find,create,ctx",
    "recover:1,create,maint:011,is_maint,set_handler,join,is_maint,sync:111,is_maint,join",
    # a session that was looked up successfully just before maintenance starts (start_maintenance keeps the sessions,
    # sync_user_data destroys them) and is used again while the thread runs
    "create,find,ctx,maint:111,ctx,find,is_maint,ctx,join,is_maint,ctx",
    # entry points beyond the property's own list (coverage round): start_maintenance(False) with a change detected, the
    # session-dropping calls (not guarded) during and right after maintenance, a second session under the first
    "create,create,maintq:101,destroy,find,cleanup_stale,ctx,cleanup_all,is_maint,create,join,is_maint,find,create,destroy,find",
    # session activity stamps (virtual clock): a session used just before / refused during / used after maintenance, then
    # the stale sweep at exactly kLifeSpan and one second later
    "create,tick:1,cleanup_stale,find,tick:2,create,maint:111,find,tick:0,cleanup_stale,is_maint,join,cleanup_stale,find,destroy,find",
    # finalize while the thread runs (blocks), a stopped service refuses, initialize accepts again; maintenance right after
    "create,maint:110,find,is_maint,finalize,is_maint,create,find,initialize,create,sync:111,is_maint,create,finalize,initialize,is_maint,create",
    # tasks run synchronously on the client thread while the work thread drains the queue; StartMaintenance() with an
    # empty queue and while working; the handler removed and installed again around the notifications
    "maint_noinst,start:1,sync:011,run_task:1,deploy_ws:1101,start:1,is_maint,clear_handler,run_unknown,set_handler,join,start:1,is_maint",
]
# short scripts enumerated one preemption deeper: a second batch scheduled in the window between the worker's last task and
# its last queue check, then StartWork(false) and a session operation while the thread works through that batch
ENUM_SCRIPTS_DEEP = [
    "maint:111,sync:111,start:0,create,is_maint,join,is_maint",
    "create,maintq:110,maint:011,start:0,find,is_maint",
]
ENUM_SCRIPTS_THOROUGH = ENUM_SCRIPTS + [
    "maint:111,sync:111,is_maint",
    "clear_handler,maintq:010,deploy_schema:1,set_handler,deploy_config:0,start:0,prebuild:1,recover:1,is_maint,join,initialize,create",
    "sync:000,create,maint:111,ctx,is_maint,recover:0,join,is_maint,find",
]
STRESS_SCRIPTS = ENUM_SCRIPTS + [
    "maint:111,set_handler,is_maint,set_handler,create,set_handler,is_maint,set_handler,join,is_maint,create",
    "sync:101,set_handler,sync:111,set_handler,maint:111,set_handler,is_maint,join,is_maint",
    "maintq:111,clear_handler,is_maint,set_handler,sync:110,clear_handler,create,set_handler,clear_handler,join,set_handler,is_maint",
    "create,maint:111,run_task:1,destroy,cleanup_stale,finalize,initialize,create,sync:101,cleanup_all,finalize,create,initialize,is_maint",
    "create,tick:2,create,maintq:110,find,cleanup_stale,ctx,join,find,tick:1,cleanup_stale,ctx,tick:0,cleanup_stale,find",
]
SESSION_OPS = ("create", "find", "ctx")


# ---------------------------------------------------------------- generators
def rand_script(rng):
    n = rng.randint(3, 9)
    ops = []
    wide = rng.random() < 0.6     # the wider alphabet of the coverage round
    for _ in range(n):
        r = rng.random()
        if wide and rng.random() < 0.4:
            q = rng.random()
            if q < 0.12:
                ops.append("maintq:%d%d%d" % tuple(rng.randint(0, 1) for _ in range(3)))
            elif q < 0.16:
                ops.append("maint_noinst")
            elif q < 0.30:
                ops.append(rng.choice(["run_task:%d", "deploy_schema:%d", "deploy_config:%d", "prebuild:%d"]) % rng.randint(0, 1))
            elif q < 0.34:
                ops.append("run_unknown")
            elif q < 0.40:
                ops.append("deploy_ws:%d%d%d%d" % tuple(rng.randint(0, 1) for _ in range(4)))
            elif q < 0.52:
                ops.append("start:%d" % (1 if rng.random() < 0.7 else 0))
            elif q < 0.64:
                ops.append("destroy")
            elif q < 0.70:
                ops.append("cleanup_all")
            elif q < 0.73:
                ops.append("tick:%d" % rng.choice([0, 1, 2, 2]))
            elif q < 0.76:
                ops.append("cleanup_stale")
            elif q < 0.84:
                ops.append("finalize")
            elif q < 0.92:
                ops.append("initialize")
            else:
                ops.append("clear_handler")
        elif r < 0.20:
            ops.append("maint:%d%d%d" % tuple(rng.randint(0, 1) for _ in range(3)))
        elif r < 0.38:
            ops.append("sync:%d%d%d" % tuple(rng.randint(0, 1) for _ in range(3)))
        elif r < 0.44:
            ops.append("recover:%d" % rng.randint(0, 1))
        elif r < 0.46:
            ops.append("maint_nochange")
        elif r < 0.62:
            ops.append("is_maint")
        elif r < 0.70:
            ops.append("join")
        elif r < 0.82:
            ops.append("create")
        elif r < 0.89:
            ops.append("find")
        elif r < 0.94:
            ops.append("ctx")
        else:
            ops.append("set_handler")
    if not any(o.startswith(("maint:", "sync:", "maintq:")) for o in ops):
        ops.insert(rng.randint(0, len(ops) - 1), "sync:%d%d%d" % tuple(rng.randint(0, 1) for _ in range(3)))
    ops.append("is_maint")
    return ",".join(ops)


def rand_sched(rng):
    out = []
    total = rng.randint(0, 70)
    t = rng.choice("cw")
    while len(out) < total:
        out.extend(t * rng.choice([1, 1, 1, 2, 2, 3, 4, 6, 10]))
        t = "w" if t == "c" else "c"
    return "".join(out[:total]) or "-"


# ---------------------------------------------------------------- model / implementation runs
def model_run(cases):
    """cases: list of (script, sched) -> list of (executed_sched, trace, monitors)"""
    text = "".join("%s %s\n" % cs for cs in cases)
    out = vlib.run_driver("driver_c15", text, args=["run"]).splitlines()
    res = []
    for line in out:
        p = line.split(" | ")
        res.append(tuple(p) if len(p) == 3 else (line, "", "bad-line"))
    return res


def model_enum(scripts, k):
    out = vlib.run_driver("driver_c15", "".join(s + "\n" for s in scripts), args=["enum", str(k)]).splitlines()
    cases, per_script = [], {}
    for line in out:
        if line.startswith("#"):
            continue
        p = line.split(" | ")
        if len(p) != 3:
            raise vlib.BuildError("driver_c15 enum: unexpected line %r" % line)
        script, sched = p[0].split(" ")
        cases.append((script, sched, p[1], p[2]))
        per_script[script] = per_script.get(script, 0) + 1
    return cases, per_script


def impl_run(c, exe, cases, tag):
    """Run (script, sched) cases on the real code.  A stuck schedule ends the harness process (exit 3);
    it is restarted on the remaining cases.  Returns list of dict(sched, trace, mon, stuck, raw)."""
    res = []
    i = 0
    rounds = 0
    while i < len(cases):
        rounds += 1
        ws = os.path.join(c.work, "ws_%s_%d" % (tag, rounds))
        os.makedirs(ws, exist_ok=True)
        text = "".join("%s %s\n" % cs for cs in cases[i:])
        env = dict(vlib.SAN_ENV)
        env["C15_WATCHDOG_MS"] = os.environ.get("C15_WATCHDOG_MS", "10000")
        rc, out = vlib.sh([exe, "sched", ws], env=env, input=text, timeout=7200)
        lines = [l for l in out.splitlines() if " | " in l]
        got = 0
        for line in lines:
            head, rest = line.split(" | ", 1)
            if " | STUCK" in rest:
                tr, why = rest.split(" | STUCK", 1)
                res.append({"sched": head, "trace": tr.strip(), "mon": [], "stuck": why.strip(), "raw": line})
            else:
                tr, _, mon = rest.partition("  #")
                res.append({"sched": head, "trace": tr.strip(), "mon": [m.strip() for m in ("#" + mon).split("#") if m.strip()] if mon else [],
                            "stuck": None, "raw": line})
            got += 1
        if got == 0:
            # the process died before printing anything for this case (sanitizer abort, crash)
            res.append({"sched": "?", "trace": "", "mon": [], "stuck": None, "crash": out[-3000:], "raw": ""})
            got = 1
        elif rc not in (0, 3) and got < len(cases) - i:
            res.append({"sched": "?", "trace": "", "mon": [], "stuck": None, "crash": out[-3000:], "raw": ""})
            got += 1
        i += got
        if sum(1 for r in res if r["stuck"] or r.get("crash")) >= 8:
            break  # every stuck schedule costs a watchdog period; eight of them are evidence enough
    return res


# ---------------------------------------------------------------- the property on the implementation's own trace
def events(trace):
    return [e for e in trace.split(" ") if e and e != "-" and not e.startswith("left:") and e != "not-quiescent"]


def left_of(trace):
    m = re.search(r"left:(\S+)", trace)
    return [] if not m or m.group(1) == "-" else m.group(1).split(",")


def monitor_trace(script, trace, mon, ordered=True):
    """Evaluate T, N, E, exactly-once on one observed trace.  Returns list of (signature, what)."""
    v = []
    evs = events(trace)
    has_recover = "recover" in script or "start:0" in script     # StartWork(false): work threads outside maintenance mode
    sched_ids, ran_ids, notes = [], [], []
    sw = [m.split(":", 1)[1] for m in mon if m.startswith("sw:")]
    sw_of, cur, swi = {}, [], 0
    lost_at = None
    for e in evs:
        p = e.split(":")
        if p[0] == "sched":
            sched_ids.append(p[1]); cur.append(p[1])
        elif p[0] == "run":
            ran_ids.append(p[1])
        elif p[0] == "note":
            notes.append({"start": "s", "success": "S", "failure": "F"}.get(p[1], "?"))
        elif p[0] == "ret":
            # calls that reached StartWork (UserDictionary::Load only when it scheduled its recovery task)
            if p[1] in ("maint", "sync", "maintq", "start") or (p[1] == "recover" and cur):
                for i in cur:
                    sw_of[i] = sw[swi] if swi < len(sw) else "?"
                swi += 1
                cur = []
            if ordered and p[1] == "is_maint" and p[2] == "0" and not has_recover and lost_at is None:
                miss = [i for i in sched_ids if i not in ran_ids]
                if miss:
                    lost_at = ("is_maintenance_mode returned false while task(s) %s handed to ScheduleTask have not run" % ",".join(miss), miss)
    left = left_of(trace)
    if lost_at is None and "not-quiescent" not in trace:
        miss = [i for i in sched_ids if i not in ran_ids] if ordered else []
        if left or miss:
            lost_at = ("client finished and no worker running, but task(s) %s are still queued / never ran" % ",".join(left or miss), left or miss)
    if lost_at and not ordered:
        v.append(("C15:lost-task:free-running", lost_at[0]))
    elif lost_at:
        w = sw_of.get(lost_at[1][0], "?")
        v.append(("C15:lost-task:%s+start_work.enter" % w, lost_at[0] + " (worker was at '%s' when StartWork made its working test)" % w))
    if len(set(ran_ids)) != len(ran_ids):
        v.append(("C15:task-twice", "a task ran more than once: " + ",".join(ran_ids)))
    for m in mon:
        if m.startswith("lib_tasks:") and ordered:
            _, b, e2 = m.split(":")
            if int(b) != len(ran_ids) or int(e2) != len(ran_ids):
                v.append(("C15:task-log", "Deployer::Run's task log (%s begun, %s ended) disagrees with the tasks' own log (%d)" % (b, e2, len(ran_ids))))
        if m.startswith("m:"):
            parts = m.split(":")
            parts += ["", "", "", "", "", "", "1", "-"][len(parts):]
            _, op, mb, acc, _hits, ma, started, truth = parts[:8]
            if mb != ma:
                continue  # free-running: the worker finished during the call, either answer is right
            if started == "0":
                continue  # a service stopped by RimeFinalize: outside the property (the correspondence covers it)
            if truth == "1" and acc == "1":
                # judged by what the harness knows itself (theorem excl_maintenance_thread): a thread launched by a maintenance
                # call has not made its last queue check yet — whatever is_maintenance_mode claims
                v.append(("C15:excl:%s:accepted-while-maintenance-thread-works" % op,
                          "%s was executed while the thread launched by a maintenance call was still working through its queue "
                          "(is_maintenance_mode said %s)" % (op, "true" if mb == "1" else "false")))
            elif mb == "1" and acc == "1":
                v.append(("C15:excl:%s:accepted-during-maintenance" % op, "%s was executed although is_maintenance_mode was true when it was issued" % op))
            if mb == "0" and acc == "0":
                v.append(("C15:excl:%s:refused-outside-maintenance" % op, "%s was refused although the service was not in maintenance mode" % op))
        if m.startswith("sd:"):
            _, op, a0, a1 = m.split(":")
            if op in ("maint", "sync", "maintq") and a0 != a1:
                v.append(("C15:excl:%s:sessions-touched-after-thread-start" % op,
                          "%s itself operated on the sessions after it had started the maintenance thread: %s session object(s) "
                          "existed when the thread was launched, %s when the call returned" % (op, a0, a1)))
        if m == "unplanned-task-creation":
            v.append(("C15:harness:unplanned-task", "an API call created a deployment task the harness did not expect"))
    # with the handler removed for a while the handler's view has gaps: the grammar clause is about an installed handler
    if "not-quiescent" not in trace and "clear_handler" not in script and not re.fullmatch(r"(s[SF]+)*", "".join(notes)):
        v.append(("C15:notes-grammar", "notification sequence %s is not in (start (success|failure)+)*" % "".join(notes)))
    return v


# ---------------------------------------------------------------- ThreadSanitizer reports
MEMBER_OF = [
    ({"rime::Service::SetNotificationHandler", "rime::Service::ClearNotificationHandler", "rime::Service::Notify"}, "Service::notification_handler_"),
    ({"rime::Deployer::StartWork", "rime::Deployer::NextTask", "rime::Deployer::ScheduleTask", "rime::Deployer::HasPendingTasks",
      "rime::Deployer::FinishWork", "rime::Deployer::Run"}, "Deployer::pending_tasks_/working_"),
    ({"rime::Deployer::IsMaintenanceMode", "rime::Deployer::StartWork"}, "Deployer::maintenance_mode_"),
]


def parse_tsan(out):
    """-> list of dict(kind, librime(bool), symbol, text)"""
    reps = []
    blocks = re.split(r"(?m)^WARNING: ThreadSanitizer: ", out)[1:]
    for b in blocks:
        b = b.split("\nSUMMARY:")[0]
        kind = b.split("\n", 1)[0].split(" (pid")[0].strip()
        stacks, cur = [], None
        for line in b.splitlines()[1:]:
            if re.match(r"^  (Write|Read|Previous|Atomic|Mutex|Location|Thread|Cycle)", line) or (line.startswith("  ") and not line.startswith("    ") and line.strip()):
                cur = {"head": line.strip(), "frames": []}
                stacks.append(cur)
            elif line.startswith("    #") and cur is not None:
                cur["frames"].append(line.strip())
        acc = [s for s in stacks if re.match(r"(Write|Read|Previous|Atomic)", s["head"])]
        if not acc:
            acc = stacks[:2]
        in_librime, fns = False, set()
        for s in acc:
            first = next((f for f in s["frames"] if "libtsan" not in f), "")
            if re.search(r"\(librime\.so", first) or "/src/rime" in first:
                in_librime = True
            elif re.search(r"\(c15_harness\+", first):
                in_librime = True  # the harness must be race-free as well: never hide it
            for f in s["frames"]:
                m = re.search(r"#\d+ (rime::[A-Za-z_]+::[A-Za-z_~]+)", f)
                if m:
                    fns.add(m.group(1))
                    break
        symbol = None
        for names, member in MEMBER_OF:
            if fns and fns <= names:
                symbol = member
                break
        if symbol is None:
            symbol = "+".join(sorted(f.replace("rime::", "") for f in fns)) or "unknown"
        reps.append({"kind": kind, "librime": in_librime, "symbol": symbol, "text": ("WARNING: ThreadSanitizer: " + b)[:6000]})
    return reps


def run_stress(c, exe, scripts, seed, iters, tag):
    ws = os.path.join(c.work, "ws_stress_" + tag)
    os.makedirs(ws, exist_ok=True)
    env = dict(vlib.SAN_ENV)
    env["C15_WATCHDOG_MS"] = os.environ.get("C15_WATCHDOG_MS", "10000")
    rc, out = vlib.sh([exe, "stress", ws, str(seed), str(iters)], env=env,
                      input="".join(s + "\n" for s in scripts), timeout=7200)
    runs = []
    for line in out.splitlines():
        p = line.split(" | ")
        if len(p) == 4 and p[3].startswith("left:"):
            tr, _, mon = p[3].partition("  #")
            runs.append({"script": p[0], "trace": p[1] + " " + p[2] + " " + tr.strip(),
                         "mon": [m.strip() for m in ("#" + mon).split("#") if m.strip()] if mon else []})
    return rc, out, runs


# ---------------------------------------------------------------- the check
def hooks_present():
    h = os.path.join(vlib.REPO, "src", "rime", "verif_hooks.h")
    try:
        d = open(os.path.join(vlib.REPO, "src", "rime", "deployer.cc")).read()
    except OSError:
        return False
    return os.path.exists(h) and "RIME_VERIF_YIELD(" in d


def corpus_cases():
    cases = []
    for f in sorted(glob.glob(os.path.join(vlib.CORPUS, "C15", "*.txt"))):
        for line in open(f):
            line = line.split("#")[0].strip()
            if line:
                p = line.split()
                if len(p) == 2:
                    cases.append((p[0], p[1]))
    return cases


def switches(s):
    return sum(1 for a, b in zip(s, s[1:]) if a != b)


def shrink_sched(c, exe, script, sched, sig):
    """shortest prefix of the schedule (the policy completes it) that still shows the same violation"""
    best = sched
    lo, hi = 0, len(sched)
    tries = 0
    while lo < hi and tries < 12:
        mid = (lo + hi) // 2
        cand = sched[:mid] or "-"
        r = impl_run(c, exe, [(script, cand)], "shrink%d" % tries)[0]
        tries += 1
        if any(s == sig for s, _ in evaluate_case(script, r)):
            best, hi = cand, mid
        else:
            lo = mid + 1
    return best


def evaluate_case(script, r):
    if r.get("crash"):
        return [("C15:sanitizer", "the harness process died (sanitizer abort / crash) while replaying a schedule")]
    if r["stuck"]:
        where = re.sub(r"[^A-Za-z_. ]", "", r["stuck"]).strip().replace(" ", "_")[:80]
        return [("C15:stuck:%s" % where, "a schedule made no progress within the watchdog time (deadlock or blocked thread): " + r["stuck"])]
    return monitor_trace(script, r["trace"], r["mon"], ordered=True)


def run(c):
    quick = c.tier == "quick"
    k = 3 if quick else 5
    n_random = 300 if quick else 6000
    stress_iters = 25 if quick else 150
    have_hooks = hooks_present()
    # G: the API surface ("every session operation") regenerated from the working tree ----------------
    rc, out = vlib.sh([sys.executable, os.path.join(vlib.ROOT, "gen", "c15_session_api.py"), vlib.REPO,
                       os.path.join(vlib.LEAN, "RimeModel", "Gen", "SessionApi.lean")])
    if rc != 0:
        raise vlib.BuildError("translator c15_session_api failed: " + out[-2000:])
    gen = json.loads(out[out.index("{"):])
    # P ------------------------------------------------------------------------------------------
    audit = vlib.lean_audit("C15")
    if not quick and audit["ok"]:
        ok, log = vlib.leanchecker("RimeModel.Props.C15")
        if not ok:
            audit["ok"] = False
            audit["failures"].append(("RimeModel.Props.C15", "leanchecker: " + log))
    rcd, outd = vlib.lake_build(["driver_c15"])
    if rcd != 0:
        raise vlib.BuildError("driver_c15 does not build: " + outd[-3000:])
    # model side: enumeration, random cases, the model's own monitors -----------------------------
    scripts = ENUM_SCRIPTS if quick else ENUM_SCRIPTS_THOROUGH
    enum_cases, per_script = model_enum(scripts, k)
    deep_cases, deep_per = model_enum(ENUM_SCRIPTS_DEEP, k + 1 if quick else k)   # thorough: k = 5 is already deeper than the window needs
    enum_cases += deep_cases
    per_script.update(deep_per)
    rnd = [(rand_script(c.rng), rand_sched(c.rng)) for _ in range(n_random)]
    corpus = corpus_cases()
    rnd_model = model_run(corpus + rnd)
    cases = [(s, d) for s, d in corpus + rnd]           # raw schedules; both sides apply the same lenient policy
    expect = [(m[0], m[1], m[2]) for m in rnd_model]     # executed schedule, trace, model monitors
    for s, d, tr, mv in enum_cases:
        cases.append((s, d))
        expect.append((d, tr, mv))
    model_viol = [(cs, e[2]) for cs, e in zip(cases, expect) if e[2] != "-"]
    # B + K + O: schedule replay on the real code -------------------------------------------------
    stats = {"replayed": 0, "mismatches": 0, "stuck": 0, "nontrivial": set(), "samples": [], "impl_monitor_violations": 0}
    first_mismatch = None
    if have_hooks:
        exe, bdir = vlib.build_harness("c15_harness", "san", ["c15_harness.cc"])
        rc, out = vlib.sh([exe, "hooks"], env=vlib.SAN_ENV)
        if "hooks:1" not in out:
            raise vlib.BuildError("hook header found in the tree but the harness was built without it: " + out[-500:])
        results = impl_run(c, exe, cases, "k")
        for idx, ((script, sched), (esched, etrace, emon)) in enumerate(zip(cases, expect)):
            if idx >= len(results):
                break
            r = results[idx]
            stats["replayed"] += 1
            if switches(r["sched"]) >= 3:
                stats["nontrivial"].add((script, r["sched"]))
            if idx % max(1, len(cases) // 6) == 0 and len(stats["samples"]) < 6:
                stats["samples"].append({"script": script, "schedule": r["sched"], "impl_trace": r["trace"], "model_trace": etrace})
            viol = evaluate_case(script, r)
            if r["stuck"]:
                stats["stuck"] += 1
            for sig, what in viol:
                stats["impl_monitor_violations"] += 1
                if any(x[0] == sig for x in c.violations) or sig in c.known_hits:
                    continue
                ssched = sched if (r["stuck"] or r.get("crash")) else shrink_sched(c, exe, script, r["sched"], sig)
                c.report(sig, what, {"kind": "schedule", "script": script, "sched": ssched, "found_with_sched": sched,
                                     "impl_trace": r["trace"], "model_trace": etrace, "impl_executed_sched": r["sched"],
                                     "source_hash": vlib.source_hash(SRC_FILES)})
            if not viol and (r["sched"] != esched or r["trace"] != etrace):
                stats["mismatches"] += 1
                if first_mismatch is None:
                    first_mismatch = {"script": script, "sched": sched, "impl_executed_sched": r["sched"], "model_executed_sched": esched,
                                      "impl_trace": r["trace"], "model_trace": etrace}
        if len(results) < len(cases) and not c.violations:
            c.report("C15:harness:incomplete", "the schedule harness answered %d of %d cases" % (len(results), len(cases)),
                     {"kind": "harness", "broken": "c15_harness sched"}, no_input=True)
    # free-running stress: monitors (san, only when unhooked — the hooked san run above covers more) + TSan ---------------
    stress_scripts = STRESS_SCRIPTS + [rand_script(c.rng) for _ in range(4 if quick else 30)]
    exe_t, bdir_t = vlib.build_harness("c15_harness", "tsan", ["c15_harness.cc"])
    rc_t, out_t, runs_t = run_stress(c, exe_t, stress_scripts, c.seed, stress_iters, "tsan")
    reps = parse_tsan(out_t)
    ext = [r for r in reps if not r["librime"]]
    for r in reps:
        if not r["librime"]:
            continue
        sig = "C15:race:%s" % r["symbol"] if r["kind"] == "data race" else "C15:tsan:%s:%s" % (re.sub(r"[^a-z-]", "-", r["kind"].lower())[:40], r["symbol"])
        c.report(sig, "ThreadSanitizer: %s on %s under free-running client calls" % (r["kind"], r["symbol"]),
                 {"kind": "tsan", "scripts": stress_scripts, "seed": c.seed, "iters": stress_iters, "report": r["text"],
                  "source_hash": vlib.source_hash(SRC_FILES)})
    mstuck = re.search(r"(?m)^STRESS-STUCK (\S+) (.*)$", out_t)
    if mstuck:
        c.report("C15:stuck:free-running", "free-running client calls and work thread blocked each other: script %s, %s" % (mstuck.group(1), mstuck.group(2)),
                 {"kind": "stress", "script": mstuck.group(1), "scripts": [mstuck.group(1)], "seed": c.seed, "iters": stress_iters})
    elif rc_t not in (0, 97) or (not runs_t):
        c.report("C15:stress:crash", "the TSan stress harness exited with code %d after %d runs" % (rc_t, len(runs_t)),
                 {"kind": "tsan", "scripts": stress_scripts, "seed": c.seed, "iters": stress_iters, "log": out_t[-3000:]})
    stress_viol = 0
    for r in runs_t:
        for sig, what in monitor_trace(r["script"], r["trace"], r["mon"], ordered=False):
            stress_viol += 1
            c.report(sig, what + " (free-running stress run)", {"kind": "stress", "script": r["script"], "impl_trace": r["trace"],
                                                                "scripts": [r["script"]], "seed": c.seed, "iters": stress_iters})
    # verdicts that need no failing input -----------------------------------------------------------------------
    if first_mismatch and not c.violations:
        c.report("C15:correspondence", "model and implementation traces differ on %d of %d replayed schedules" %
                 (stats["mismatches"], stats["replayed"]),
                 {"kind": "schedule", "broken": "correspondence driver_c15 vs c15_harness (trace equality per schedule)",
                  "script": first_mismatch["script"], "sched": first_mismatch["sched"], "first": first_mismatch}, no_input=True)
    if model_viol and not c.violations:
        (s, d), mv = model_viol[0]
        c.report("C15:model-monitor", "the MODEL violates %s on schedule %s of script %s although the theorems build" % (mv, d, s),
                 {"kind": "schedule", "script": s, "sched": d, "broken": "driver monitors vs Props/C15 theorems"}, no_input=True)
    if gen["unguarded"]:
        # a concrete input exists in principle (call that function during maintenance); the harness does not drive it
        c.report("C15:api-guard:%s" % gen["unguarded"][0],
                 "API function(s) %s reach a session without Service::GetSession/CreateSession, i.e. without the disabled() guard"
                 % ",".join(gen["unguarded"]), {"kind": "proof", "broken_theorems": ["C15.api_session_ops_guarded"], "functions": gen["unguarded"]},
                 no_input=True)
    if not audit["ok"] and not c.violations:
        c.report("C15:proof", "proof obligation no longer checks: %s" % "; ".join("%s: %s" % f for f in audit["failures"])[:600],
                 {"kind": "proof", "broken_theorems": audit["failures"], "lean_log": audit["log"][-3000:]}, no_input=True)
    # evidence ---------------------------------------------------------------------------------------------------
    cov = vlib.proof_cov(audit, "lake build RimeModel.Props.C15 && #print axioms (all theorems) && forbidden-token scan"
                         + ("" if quick else " && leanchecker RimeModel.Props.C15"),
                         vlib.STD_TRUSTED + ["translator gen/c15_session_api.py (fails closed; count cross-checked)",
                                             "hooks/C15.patch yield points cut the code between shared accesses; mutex_-protected segments atomic",
                                             "ThreadSanitizer (gcc 12 libtsan) for the runtime-only data-race clause"])
    cov.update({
        "hooks_present": have_hooks,
        "schedule_replay_correspondence": ("run" if have_hooks else
                                           "NOT RUN: the tree has no RIME_VERIF yield hooks (apply /verif/hooks/C15.patch); proofs, free-running monitors and TSan stress ran"),
        "evaluations": stats["replayed"] + len(runs_t),
        "schedules_replayed": stats["replayed"], "preemption_bound": k, "enumerated_per_script": per_script,
        "random_cases": len(rnd), "corpus_cases": len(corpus),
        "distinct_nontrivial": len(stats["nontrivial"]) if have_hooks else len({(r["script"], r["trace"]) for r in runs_t}),
        "rule": ("all complete schedules with <= %d preemptions of %d fixed client scripts (enumerated by the Lean driver from the model) "
                 "+ %d random (script, schedule) pairs under the shared lenient policy + corpus; non-trivial = the executed schedule "
                 "switches between client and worker at least 3 times; distinct by (script, executed schedule).  Free-running stress: "
                 "%d scripts x %d iterations under TSan; distinct by (script, observed trace) when the replay cannot run" %
                 (k, len(scripts), len(rnd), len(stress_scripts), stress_iters)),
        "samples": stats["samples"] or [{"script": r["script"], "impl_trace": r["trace"]} for r in runs_t[:: max(1, len(runs_t) // 5)][:5]],
        "model_impl_trace_mismatches": stats["mismatches"], "stuck_schedules": stats["stuck"],
        "impl_monitor_violations": stats["impl_monitor_violations"] + stress_viol,
        "model_monitor_violations": len(model_viol),
        "stress_runs_tsan": len(runs_t), "tsan_reports_librime": len([r for r in reps if r["librime"]]),
        "tsan_reports_external": len(ext), "tsan_external_symbols": sorted({r["symbol"] for r in ext}),
        "tsan_external_first": ext[0]["text"][:1200] if ext else "",
        "session_api_functions": gen["functions"], "session_api_independent_count": gen["independent_count"],
        "session_api_drops_only": gen["drops"], "session_api_unguarded": gen["unguarded"],
        "source_hash": vlib.source_hash(SRC_FILES), "proof_failures": audit["failures"],
    })
    c.cov = cov
    c.assumptions = ["one client thread issues the API calls (the property's formal reading); the worker is the std::async thread of StartWork",
                     "the grammar clause is evaluated on the handler's view only for scripts that keep a handler installed (theorem notes_grammar); sent_grammar covers the rest on the model",
                     "scripts with a StartWork(false) path (UserDictionary::Load recovery, direct Deployer::StartWork()) are covered by no_lost_task_idle / excl / excl_maintenance_thread, not by excl_while_worker_runs",
                     "deployment tasks are logging dummies registered over the real task names; a task failing by a non-std exception is outside the model"]
    if not have_hooks:
        print("NOTE property=C15 the tree %s has no RIME_VERIF yield hooks: schedule-replay correspondence NOT RUN "
              "(apply /verif/hooks/C15.patch); proofs, free-running monitors and TSan stress ran" % vlib.REPO)


def replay(c, r):
    kind = r.get("kind")
    if kind == "schedule" and r.get("script") and r.get("sched") is not None:
        if not hooks_present():
            print("replay: the tree has no yield hooks (apply /verif/hooks/C15.patch); cannot steer the schedule")
            return 1
        rcd, outd = vlib.lake_build(["driver_c15"])
        exe, _ = vlib.build_harness("c15_harness", "san", ["c15_harness.cc"])
        m = model_run([(r["script"], r["sched"])])[0]
        i = impl_run(c, exe, [(r["script"], r["sched"])], "replay")[0]
        viol = evaluate_case(r["script"], i)
        print("replay script=%s sched=%s" % (r["script"], r["sched"]))
        print("  model: %s | %s | %s" % m)
        print("  impl : %s | %s%s" % (i["sched"], i["trace"], (" | STUCK " + i["stuck"]) if i["stuck"] else ""))
        for sig, what in viol:
            print("  violation %s: %s" % (sig, what))
        same = (m[0] == i["sched"] and m[1] == i["trace"])
        if not viol:
            print("  traces %s" % ("equal" if same else "DIFFER"))
        return 1 if (viol or not same) else 0
    if kind in ("tsan", "stress") and r.get("scripts"):
        exe_t, _ = vlib.build_harness("c15_harness", "tsan", ["c15_harness.cc"])
        rc, out, runs = run_stress(c, exe_t, r["scripts"], r.get("seed", 1), max(int(r.get("iters", 25)), 25), "replay")
        reps = [x for x in parse_tsan(out) if x["librime"]]
        bad = 0
        for l in out.splitlines():
            if l.startswith("STRESS-STUCK"):
                print("replay:", l)
                bad += 1
        for x in reps:
            print("replay: ThreadSanitizer %s on %s" % (x["kind"], x["symbol"]))
            bad += 1
        for run_ in runs:
            for sig, what in monitor_trace(run_["script"], run_["trace"], run_["mon"], ordered=False):
                print("replay: %s %s" % (sig, what))
                bad += 1
        print("replay: %d stress runs, %d findings" % (len(runs), bad))
        return 1 if bad else 0
    print("replay: this file names a broken obligation, no concrete input:", r.get("what"))
    return 1
