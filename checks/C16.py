"""C16 — sessions are isolated from one another and replay deterministically."""
import shutil, os, sys, json
import vlib
from checks import session_common as sc

META = {
    "technique": "Lean 4 theorems on an id-keyed service model (frame, isolation, observation = f(own calls), id discipline) + solo/interleaved/replayed transcript comparison",
    "level": "proof",
    "level_text": ("Theorems C16.frame, state_function_of_own_events, isolation, obs_function_of_own_calls, created_then_calls_is_solo, "
                   "dead_id_rejected_until_reissued, ids_distinct about the service model (generic in the session core; instantiated with the "
                   "M-session model in the driver), for all traces and interleavings. Per-session observation transcripts of the real "
                   "service are compared solo vs interleaved vs replayed in a new process, and with the model's."),
    "level_note": ("PARTIAL: in a pure model isolation is structural; what could break it in C++ (component caches, shared ConfigData, static "
                   "buffers, the notification path) is invisible to the theorems and exhibited only by the transcript comparison, whose reach "
                   "is bounded by the generator. Learning disabled (synthetic schemas have no user dictionary); switcher menu not exercised; "
                   "the staleness sweep (Service::CleanupStaleSessions) is exercised with the wall clock supplied by the harness: the service model of the driver keeps each session's last-active time and sweeps on `cleanup_stale`, directed gaps on both sides of the 300 s bound; swept ids are then probed like destroyed ones."),
    "design_ref": "DESIGN.md §3 C16",
}


# Service::CleanupStaleSessions: a session goes when it was last active more than Session::kLifeSpan (300 s) before the sweep.
# The harness supplies time() (it stands still except for `advance`), so a block `advance a; one call on some sessions;
# advance b; cleanup_stale` decides exactly who is stale: the sessions called in between iff b > 300, the others iff
# a + b > 300 (every live session is active "now" when a block starts: time moves inside blocks only and the sweep op looks
# all survivors up).  The gaps sit on both sides of the bound.
STALE_GAPS = [(0, 300), (0, 301), (1, 300), (300, 1), (150, 150), (150, 151), (301, 0), (200, 100), (299, 1), (400, 400), (0, 0)]


def stale_block(events, live, own_ops, a, b):
    """appends the block; own_ops: {k: op} for the sessions called between the two advances; returns the sessions swept"""
    events.append(("advance", a))
    for k in sorted(own_ops):
        events.append(("op", k, own_ops[k]))
    events.append(("advance", b))
    gone = [k for k in live if (b > 300 if k in own_ops else a + b > 300)]
    events.append(("cleanup_stale", tuple(gone)))
    return gone


def directed_stale():
    """every gap pair on three sessions (one called between the advances, one not, one created before and never used),
    followed by calls on all three and a new session (its id may be the address of a swept one)"""
    out = []
    for (a, b) in STALE_GAPS:
        # the clock has moved before the first session exists: a session that was never looked up is as old as its creation,
        # not as old as the epoch
        ev = [("advance", 1000), ("new", 0, "vs_script"), ("new", 1, "vs_fluid"), ("new", 2, "vs_script"), ("op", 0, "key 97 0"), ("op", 1, "key 98 0")]
        gone = stale_block(ev, [0, 1, 2], {1: "key 97 0"}, a, b)
        for k in (0, 1, 2):
            ev += [("op", k, "key 98 0"), ("op", k, "key 32 0"), ("op", k, "read_commit")]
        ev += [("ids",), ("new", 3, "vs_script"), ("op", 3, "key 97 0")]
        # a second sweep right away: nobody else goes (the survivors were looked up by the first one)
        g2 = stale_block(ev, [k for k in (0, 1, 2, 3) if k not in gone], {}, 0, 300)
        ev += [("op", 3, "key 32 0"), ("op", 3, "read_commit"), ("op", 0, "commit")]
        ev += [("destroy", k) for k in (0, 1, 2, 3) if k not in gone]
        out.append(ev)
    return out


def directed_fresh_sweep():
    """a sweep that lands between create_session and the FIRST call on the new id (`newq`: the harness makes no read after the
    creation), with the clock moved before the creation and / or between creation and sweep: the new session is as old as its
    creation, the older one as its last call"""
    out = []
    for (a, b) in [(0, 0), (0, 300), (400, 0), (200, 100), (301, 300), (0, 301), (150, 151)]:
        ev = [("new", 0, "vs_script"), ("op", 0, "key 97 0"), ("advance", a), ("newq", 1), ("advance", b)]
        gone = ([0] if a + b > 300 else []) + ([1] if b > 300 else [])
        ev.append(("cleanup_stale", tuple(gone)))
        ev += [("op", 1, "schema vs_fluid"), ("op", 1, "key 98 0"), ("op", 1, "key 32 0"), ("op", 1, "read_commit"), ("op", 0, "key 98 0"),
               ("op", 0, "key 32 0"), ("op", 0, "read_commit"), ("ids",)]
        # a second fresh session, swept at once with nothing in between
        ev += [("newq", 2), ("cleanup_stale", ()), ("op", 2, "key 97 0"), ("op", 2, "commit"), ("op", 2, "read_commit")]
        ev += [("destroy", k) for k in (0, 1, 2) if k not in gone]
        out.append(ev)
    return out


def gen_multi(c, n_sessions, n_ops):
    """returns list of events: ('new',k,sid) | ('op',k,text) | ('destroy',k) | ('ids',)"""
    rng = c.rng
    sids = [rng.choice(list(sc.SCHEMAS)) for _ in range(n_sessions)]
    scripts = [sc.gen_history(rng, sids[k], sc.SCHEMAS[sids[k]], n_ops, "commit") for k in range(n_sessions)]
    events, pos, alive, created = [], [0] * n_sessions, set(), 0
    dead_probe = {}
    # creation order is 0..n-1 (indices are harness-side), interleaved with ops
    while created < n_sessions or any(pos[k] < len(scripts[k]) for k in alive):
        choices = []
        if created < n_sessions:
            choices.append("new")
        live_with_ops = [k for k in alive if pos[k] < len(scripts[k])]
        choices += ["op"] * (4 if live_with_ops else 0)
        if alive and rng.random() < 0.04:
            choices.append("destroy")
        if rng.random() < 0.03:
            choices.append("ids")
        if alive and rng.random() < 0.012:
            choices.append("cleanup_all")
        if alive and rng.random() < 0.03:
            choices.append("stale")
        ch = rng.choice(choices) if choices else "new"
        if ch == "new":
            events.append(("new", created, sids[created]))
            alive.add(created)
            created += 1
            dead_probe.clear()          # an id may be re-issued now: stop probing destroyed sessions
        elif ch == "op" and live_with_ops:
            k = rng.choice(live_with_ops)
            events.append(("op", k, scripts[k][pos[k]]))
            pos[k] += 1
        elif ch == "destroy" and alive:
            k = rng.choice(sorted(alive))
            events.append(("destroy", k))
            alive.discard(k)
            pos[k] = len(scripts[k])
            dead_probe[k] = 3
        elif ch == "ids":
            events.append(("ids",))
        elif ch == "stale" and alive:
            keep = [k for k in sorted(alive) if pos[k] < len(scripts[k]) and rng.random() < 0.5]
            own = {}
            for k in keep:
                own[k] = scripts[k][pos[k]]
                pos[k] += 1
            gone = stale_block(events, sorted(alive), own, *rng.choice(STALE_GAPS))
            for k in gone:
                alive.discard(k)
                pos[k] = len(scripts[k])
                dead_probe[k] = 3
        elif ch == "cleanup_all" and alive:
            # bulk destruction (Service::CleanupAllSessions); the most recently used session is probed first
            events.append(("cleanup_all",))
            last_used = next((e[1] for e in reversed(events) if e[0] == "op"), None)
            for k in sorted(alive, key=lambda x: x != last_used):
                pos[k] = len(scripts[k])
                dead_probe[k] = 3
            alive.clear()
        # calls on a destroyed id, before any new session could re-use the address
        for k in list(dead_probe):
            if dead_probe[k] > 0 and rng.random() < 0.5:
                events.append(("op", k, rng.choice(["key 97 0", "select 0", "commit", "read_commit", "input 61", "caret 1", "page +"])))
                dead_probe[k] -= 1
    for k in sorted(alive):
        events.append(("destroy", k))
    return events


PUNCT = [ord(x) for x in "\"'.,<>/;:[]\\!?$"]


def gen_stock_ops(rng, n):
    """keys for the stock-like schema: pinyin letters, punctuation (paired quotes!), confirmation, ascii toggles"""
    ops = []
    for _ in range(n):
        r = rng.random()
        if r < 0.40:
            ops.append("key %d 0" % ord(rng.choice("nihaomzgxa")))
        elif r < 0.65:
            ops.append("key %d 0" % rng.choice(PUNCT))
        elif r < 0.80:
            ops.append("key %d 0" % rng.choice([sc.XK["space"], sc.XK["Return"], sc.XK["BackSpace"], sc.XK["Escape"], sc.XK["Down"], sc.XK["Next"]]))
        elif r < 0.84:
            ops.append("option %s %d" % (rng.choice(["ascii_mode", "full_shape", "ascii_punct", "zh_simp"]), rng.randrange(2)))
        elif r < 0.86:
            # key_binder hotkeys: Control+Shift+2..5 = option toggles, Control+Shift+1 = `select: .next`.  The latter applies
            # the second entry of the switcher's schema list; the workspace sets switcher/fix_schema_list_order so that this
            # entry is a function of the session's own schema (in the default recency order two sessions pressing it
            # alternately see each other's choices on the unchanged tree: shared by design, the switcher is outside the property)
            ops.append("key %d 5" % ord(rng.choice("112345")))
        elif r < 0.90:
            # input the recognizer tags `pinyin` / `cangjie` (set through the API: the prefixes are upper case): the second script
            # translator answers and reverse_lookup_filter@cangjie_lookup writes the comments from the reverse db, one object
            # shared by all sessions of the process; and the reverse lookup translator behind the grave accent
            ops.append("input %s" % sc.hx(rng.choice(["P:ni", "P:hao;", "P:nihao", "P:zhongguo", "P:a", "C:a", "C:ab;", "`a", "`dd'"])))
        elif r < 0.95:
            ops.append("read_commit")
        else:
            ops.append(rng.choice(["commit", "clear", "select_page 1", "page +"]))
    return ops


def _write(c, tag, text):
    p = os.path.join(c.work, tag + ".script")
    with open(p, "w") as f:
        f.write(text)
    return p


def to_script(rows, events):
    lines = sc.header_lines(rows)
    index, cur = [], None
    for e in events:
        if e[0] == "new":
            lines += ["new", "schema " + e[2]]
            index += [(e[1], "new"), (e[1], "schema " + e[2])]
            cur = e[1]
        elif e[0] == "op":
            if cur != e[1]:
                lines.append("use %d" % e[1])
                index.append((None, "use"))
                cur = e[1]
            lines.append(e[2])
            index.append((e[1], e[2]))
        elif e[0] == "destroy":
            lines.append("destroy %d" % e[1])
            index.append((None, "destroy %d" % e[1]))   # prints the view of `cur`, not part of a transcript
        elif e[0] == "snap":
            lines.append("snapuser " + e[1])         # no output line
        elif e[0] == "cleanup_all":
            lines.append("cleanup_all")
            index.append((None, "cleanup_all"))
        elif e[0] == "advance":
            lines.append("advance %d" % e[1])            # no output line
        elif e[0] == "newq":
            lines.append("newq")                         # create_session with no read after it: no output line
            cur = e[1]
        elif e[0] == "cleanup_stale":
            lines.append("cleanup_stale")
            index.append((None, "cleanup_stale " + ",".join(str(k) for k in e[1])))
        else:
            lines.append("ids")
            index.append((None, "ids"))
    return "\n".join(lines) + "\n", index


def transcripts(index, out_lines):
    t = {}
    for (k, op), l in zip(index, out_lines):
        if k is not None:
            t.setdefault(k, []).append((op, l))
    return t


def solo_events(events, k):
    """session k alone, with the same index k: earlier indices are created and destroyed at once"""
    ev = []
    for j in range(k):
        ev += [("new", j, "vs_script"), ("destroy", j)]
    out = []
    for e in events:
        if e[0] in ("new", "newq", "op", "destroy") and e[1] == k:
            out.append(e)
        elif e[0] in ("cleanup_all", "advance", "cleanup_stale"):
            out.append(e)                 # the environment: bulk destruction, the wall clock, the staleness sweep
    return ev + out


def run(c):
    quick = c.tier == "quick"
    groups, n_sessions, n_ops = (12, 4, 80) if quick else (60, 5, 250)
    audit = vlib.lean_audit("C16")
    if not quick and audit["ok"]:
        ok, log = vlib.leanchecker("RimeModel.Props.C16")
        if not ok:
            audit["ok"] = False
            audit["failures"].append(("RimeModel.Props.C16", "leanchecker: " + log))
    exe = sc.build()
    ws = sc.make_workspace(os.path.join(c.work, "ws"), list(sc.SCHEMAS))
    st = {"groups": 0, "events": 0, "sessions": 0, "dead_calls": 0, "ids_checks": 0, "nontrivial": set(), "samples": []}
    stale_dir = directed_stale()
    if quick:
        stale_dir = c.rng.sample(stale_dir, 5)
    stale_dir = directed_fresh_sweep() + stale_dir
    st["stale_sweeps"] = st["swept_sessions"] = 0
    for g in range(len(stale_dir) + groups):
        rows = sc.gen_table(c.rng, "abcd")
        events = stale_dir[g] if g < len(stale_dir) else gen_multi(c, n_sessions, n_ops)
        st["stale_sweeps"] += sum(1 for e in events if e[0] == "cleanup_stale")
        st["swept_sessions"] += sum(len(e[1]) for e in events if e[0] == "cleanup_stale")
        script, index = to_script(rows, events)
        rc, out, impl, model = sc.run_both(c, exe, ws, script, "m%d" % g)
        rc2, out2, impl2, _m = sc.run_both(c, exe, ws, script, "r%d" % g)     # replay in a new process
        st["groups"] += 1
        st["events"] += len(index)
        case = {"kind": "impl-violation", "table": rows, "events": events}
        if rc != 0 or rc2 != 0:
            c.report("C16:crash", "multi-session script crashes", dict(case, log=(out if rc else out2)[-2000:]))
            continue
        if impl != impl2:
            d = next(i for i, (a, b) in enumerate(zip(impl, impl2)) if a != b)
            c.report("C16:replay:%s" % sc.op_kind(index[d][1]), "replaying the same calls in a new process gives a different observation",
                     dict(case, first=impl[d], second=impl2[d], at=d))
        for (k, op), l in zip(index, impl):
            if op == "ids":
                st["ids_checks"] += 1
                if "distinct=1" not in l:
                    c.report("C16:ids", "live session ids are not pairwise distinct / not found", dict(case, line=l))
        ti = transcripts(index, impl)
        tm = transcripts(index, model)
        dead = set()
        for e in events:
            if e[0] == "destroy":
                dead.add(e[1])
            elif e[0] == "cleanup_all":
                dead |= set(range(64))
            elif e[0] == "cleanup_stale":
                dead |= set(e[1])
            elif e[0] == "op" and e[1] in dead:
                st["dead_calls"] += 1
        for k in sorted(ti):
            st["sessions"] += 1
            # dead-id discipline: every call after destroy is refused
            seen_destroy = False
            for (op, l) in ti[k]:
                if "composing=1" in l:
                    st["nontrivial"].add(l)
            # solo run of the same session
            sscript, sindex = to_script(rows, solo_events(events, k))
            rc3, out3, simpl, smodel = sc.run_both(c, exe, ws, sscript, "s%d_%d" % (g, k))
            ts = transcripts(sindex, simpl).get(k, [])
            if [x[1] for x in ts] != [x[1] for x in ti[k]]:
                d = next((i for i, (a, b) in enumerate(zip(ts, ti[k])) if a[1] != b[1]), min(len(ts), len(ti[k])))
                c.report("C16:isolation:%s" % sc.op_kind(ti[k][d][0] if d < len(ti[k]) else "?"),
                         "a session observes something different when other sessions are interleaved",
                         dict(case, session=k, op=ti[k][d][0] if d < len(ti[k]) else None,
                              interleaved=ti[k][d][1] if d < len(ti[k]) else None, solo=ts[d][1] if d < len(ts) else None))
            if [x[1] for x in tm.get(k, [])] != [x[1] for x in ti[k]] and not c.violations:
                d = next((i for i, (a, b) in enumerate(zip(tm.get(k, []), ti[k])) if a[1] != b[1]), 0)
                c.report("C16:correspondence:%s" % sc.op_kind(ti[k][d][0]), "service model and implementation disagree",
                         dict(case, session=k, op=ti[k][d][0], impl=ti[k][d][1], model=tm[k][d][1] if d < len(tm.get(k, [])) else None,
                              broken="correspondence driver_session (C16 service model) vs session_harness"), no_input=True)
        # dead ids: model says refused; check on the implementation's lines directly
        dead = set()
        for (k, op), l in zip(index, impl):
            if op.startswith("destroy "):
                dead.add(int(op.split()[1]))
            elif op == "cleanup_all":
                dead |= set(range(64))
            elif op.startswith("cleanup_stale"):
                dead |= set(int(x) for x in op.split(" ")[1].split(",")) if " " in op and op.split(" ")[1] else set()
            elif k is not None and op == "new":
                dead.clear()
            elif k in dead and "nocontext" not in l:
                c.report("C16:dead-id:%s" % sc.op_kind(op), "a call on a destroyed session id was not refused", dict(case, op=op, line=l))
        # live ids: the converse — a session that was created and neither destroyed nor due for the sweep (its last call, or its
        # creation, no more than the life span ago on the supplied clock: the lists the generator computed) accepts every call
        ended = set()
        for (k, op), l in zip(index, impl):
            if op.startswith("destroy "):
                ended.add(int(op.split()[1]))
            elif op == "cleanup_all":
                ended |= set(range(64))
            elif op.startswith("cleanup_stale"):
                ended |= set(int(x) for x in op.split(" ")[1].split(",")) if " " in op and op.split(" ")[1] else set()
            elif k is not None and k not in ended and "nocontext" in l:
                c.report("C16:live-id-refused:%s" % sc.op_kind(op), "a call on a live session id (created, not destroyed, not stale at any sweep) was refused",
                         dict(case, session=k, op=op, line=l))
                break
        if len(st["samples"]) < 2:
            st["samples"].append({"events": [list(e) for e in events[:25]], "first_lines": impl[:3]})
    # ---- stock components (punctuator, ascii_composer, recognizer, key_binder, script/table translators without
    # learning): no model, transcripts solo vs interleaved vs replayed only
    from checks import c01_common as c1
    tpl = c1.make_full_workspace(os.path.join(c.work, "fws_tpl"), user_dict=False, second_prism=True, packs=True)
    sc.run_impl(exe, tpl, _write(c, "warm", "new\nschema vs_full\nnew\nschema vs_full2\n"))    # deploy once
    shutil.rmtree(os.path.join(tpl, "log"), ignore_errors=True)
    fresh_n = [0]

    class Fresh(str):
        pass

    # the same deployment with the switcher's schema list in its default (most recently used first) order: there the persisted
    # recency decides what `.next`, `.default` and the switcher menu mean, and every schema change of any session updates it;
    # used only for directed groups that touch none of those
    tpl_mru = c1.make_full_workspace(os.path.join(c.work, "fws_tpl_mru"), user_dict=False, second_prism=True, fix_order=False, packs=True)
    sc.run_impl(exe, tpl_mru, _write(c, "warm2", "new\nschema vs_full\nnew\nschema vs_full2\n"))
    shutil.rmtree(os.path.join(tpl_mru, "log"), ignore_errors=True)
    cur_tpl = [tpl]

    def fresh():
        # every run starts from the same persisted settings (user.yaml of the template): hotkeys and schema changes save options
        fresh_n[0] += 1
        d = os.path.join(c.work, "fws%d" % fresh_n[0])
        shutil.copytree(cur_tpl[0], d)
        return d
    st["stock_groups"] = 0
    # directed: session 0 changes an option the switcher saves (through the API or the key binder's toggle) and changes schema
    # through the hotkey; session 1, created before, then changes schema through the hotkey too and is probed with
    # punctuation and a word — what 0 saved must not show up in 1
    probe = ["key 44 0", "read_commit", "key 46 0", "read_commit", "key 110 0", "key 105 0", "key 32 0", "read_commit",
             "key 34 0", "read_commit", "key 47 0", "key 32 0", "read_commit", "input %s" % sc.hx("P:nihao"), "key 32 0", "read_commit",
             "input %s" % sc.hx("`a"), "clear"]
    directed = []
    for setter in (["option ascii_punct 1"], ["option full_shape 1"], ["key 51 5"], ["option ascii_punct 1", "option full_shape 1"],
                   ["option zh_simp 1", "key 52 5"]):
        for hops, switch in ((1, "key 49 5"), (2, "key 49 5"), (1, "schema vs_full2"), (2, "schema vs_script")):
            ev = [("new", 0, "vs_full"), ("new", 1, "vs_full"), ("new", 2, "vs_full2")]
            ev += [("op", 0, x) for x in setter] + [("op", 0, switch)]
            ev += [("op", 1, "key 49 5")] * hops + [("op", 1, x) for x in probe]
            ev += [("op", 2, "key 49 5")] + [("op", 2, x) for x in probe] + [("op", 0, x) for x in probe]
            directed.append(ev)
    # directed: a session created AFTER another one changed a saved option without persisting it (set_option / key binder
    # toggle: nothing is written to user.yaml) must start from the persisted settings; and a session on a sibling schema
    # (same dictionary, other prism) is destroyed while the first one goes on typing
    for setter in (["option full_shape 1"], ["option ascii_punct 1"], ["key 51 5"], ["key 52 5"], ["option full_shape 1", "option ascii_punct 1"]):
        ev = [("new", 0, "vs_full"), ("new", 1, "vs_full")] + [("op", 0, x) for x in setter] + [("op", 0, "key 110 0"), ("op", 0, "key 65307 0")]
        ev += [("snap", os.path.join(c.work, "snap_d%d.yaml" % len(directed))), ("new", 2, "vs_full")]
        ev += [("op", 2, x) for x in probe] + [("op", 1, x) for x in probe] + [("op", 0, x) for x in probe]
        directed.append(ev)
    for first, second in (("vs_full", "vs_full2"), ("vs_full2", "vs_full"), ("vs_full", "vs_full")):
        for warm in ([], ["key 110 0", "key 105 0", "key 32 0", "read_commit"]):
            ev = [("new", 0, first), ("new", 1, second)] + [("op", 0, x) for x in warm] + [("op", 1, x) for x in warm]
            ev += [("destroy", 1)] + [("op", 0, x) for x in probe] + [("op", 0, x) for x in ["key 104 0", "key 97 0", "key 111 0", "key 32 0", "read_commit"]]
            directed.append(ev)
    # directed: objects the component caches hand to every session on the same dictionary (primary table, the pack's table, prism,
    # reverse db, opencc): another session on the same dictionary / on its sibling schema switches schema away and back or is
    # destroyed BETWEEN two reads of the surviving session (which has read once already, so everything is loaded)
    read = ["key 110 0", "key 105 0", "key 32 0", "read_commit", "key 104 0", "key 97 0", "key 111 0", "key 32 0", "read_commit", "key 97 0",
            "key 65307 0", "option zh_simp 1", "key 109 0", "key 97 0", "key 32 0", "read_commit", "option zh_simp 0"]
    for other_schema in ("vs_full", "vs_full2"):
        for away in (["schema vs_script"], ["schema vs_script", "schema %s" % other_schema], None):
            ev = [("new", 0, "vs_full"), ("new", 1, other_schema)] + [("op", 0, x) for x in read] + [("op", 1, x) for x in read[:4]]
            ev += [("op", 1, x) for x in away] if away else [("destroy", 1)]
            ev += [("op", 0, x) for x in read] + [("new", 2, other_schema)] + [("op", 2, x) for x in read[:4]] + [("destroy", 2)] + [("op", 0, x) for x in read]
            directed.append(ev)
    # directed: a saved option (default.yaml: switcher/save_options) is written to user.yaml by ANOTHER session, through its
    # switcher menu (F4, the folded options line, the option's line: the switcher saves what is toggled there), AFTER the
    # observed session was created; the observed session then changes schema itself (API / the key binder's `select:` hotkey)
    # and is probed: what it may depend on is what was persisted when it was created
    F4 = "key 65473 0"
    for toggle in ([F4, "select_page 1", "select_page 2"],                        # full_shape
                   [F4, "select_page 1", "key 65366 0", "select_page 2"],         # ascii_punct (second page of the unfolded menu)
                   [F4, "select_page 1", "select_page 2", F4, "select_page 1", "key 65366 0", "select_page 2"]):
        for switch in (["schema vs_full2"], ["key 49 5"], ["schema vs_full"], ["schema vs_script", "schema vs_full"]):
            ev = [("new", 0, "vs_full"), ("new", 1, "vs_full"), ("op", 1, "key 110 0"), ("op", 1, "key 65307 0")]
            ev += [("op", 0, x) for x in toggle] + [("op", 1, x) for x in switch] + [("op", 1, x) for x in probe]
            ev += [("op", 0, x) for x in probe[:8]]
            directed.append(ev)
    # directed, on the deployment whose schema list is in most-recently-used order: a session asks for a schema that is not
    # installed (or was removed) after ANOTHER session changed its schema — what it gets must not depend on that
    mru_from = len(directed)
    word = ["key 110 0", "key 105 0", "key 32 0", "read_commit", "key 97 0", "key 32 0", "read_commit", "key 44 0", "read_commit"]
    for other in ("vs_script", "vs_full", "vs_full2"):
        for wanted in ("nosuch", "vs_removed", "luna_pinyin"):
            ev = [("new", 0, "vs_full"), ("new", 1, "vs_full"), ("op", 0, "schema %s" % other), ("op", 0, "key 97 0"), ("op", 0, "key 32 0"),
                  ("op", 1, "schema %s" % wanted)] + [("op", 1, x) for x in word] + [("op", 0, x) for x in word]
            ev += [("op", 0, "schema vs_full"), ("op", 1, "schema %s" % wanted)] + [("op", 1, x) for x in word]
            directed.append(ev)
    n_groups = max(2, groups // 3)
    for g in range(len(directed) + n_groups):
        n_s = 3
        cur_tpl[0] = tpl_mru if mru_from <= g < len(directed) else tpl
        if g < len(directed):
            events = directed[g]
        else:
            scripts = [gen_stock_ops(c.rng, n_ops) for _ in range(n_s)]
            # all sessions exist before the first call (what is persisted at creation is the template's for each of them)
            events = [("new", k, c.rng.choice(["vs_full", "vs_full", "vs_full2"])) for k in range(n_s)]
            pos = [0] * n_s
            total = sum(len(x) for x in scripts)
            # one session is destroyed on the way (its remaining calls are dropped) and one more is created later, after the
            # others have made calls: what it may depend on is the user settings PERSISTED at that moment (copied aside by the
            # harness), not what other live sessions hold in memory
            kill_at, kill_k = c.rng.randrange(total // 4, total // 2), c.rng.randrange(n_s)
            late_at, late = c.rng.randrange(total // 3, 2 * total // 3), None
            late_script = gen_stock_ops(c.rng, n_ops // 2)
            done = 0
            dead_k = set()
            while any(pos[k] < len(scripts[k]) for k in range(n_s) if k not in dead_k) or (late is not None and pos[late] < len(scripts[late])):
                if done == kill_at:
                    events.append(("destroy", kill_k))
                    dead_k.add(kill_k)
                if done == late_at and late is None:
                    late = n_s
                    scripts.append(late_script)
                    pos.append(0)
                    events.append(("snap", os.path.join(c.work, "snap_g%d.yaml" % g)))
                    events.append(("new", late, c.rng.choice(["vs_full", "vs_full2"])))
                live_k = [k for k in range(len(scripts)) if k not in dead_k and pos[k] < len(scripts[k])]
                done += 1
                if not live_k:
                    if late is None and done <= late_at:
                        continue
                    break
                k = c.rng.choice(live_k)
                events.append(("op", k, scripts[k][pos[k]]))
                pos[k] += 1
        script, index = to_script([], events)
        d1, d2 = fresh(), fresh()
        rc, out = sc.run_impl(exe, d1, _write(c, "fs%d" % g, script))
        impl = [l for l in out.splitlines() if l.startswith("ret=") or l.startswith("ids ")]
        rc2, out2 = sc.run_impl(exe, d2, _write(c, "fs%d" % g, script))
        shutil.rmtree(d1, ignore_errors=True)
        shutil.rmtree(d2, ignore_errors=True)
        impl2 = [l for l in out2.splitlines() if l.startswith("ret=") or l.startswith("ids ")]
        st["stock_groups"] += 1
        st["events"] += len(index)
        case = {"kind": "impl-violation", "schema": "vs_full", "table": [], "events": events,
                "schema_list_in_mru_order": cur_tpl[0] is tpl_mru}
        if rc or rc2:
            c.report("C16:crash", "multi-session script crashes", dict(case, log=(out if rc else out2)[-2000:]))
            continue
        if impl != impl2:
            c.report("C16:replay:stock", "replaying the same calls in a new process gives a different observation", case)
        ti = transcripts(index, impl)
        for k in sorted(ti):
            sscript, sindex = to_script([], solo_events(events, k))
            d3 = fresh()
            snap = next((e[1] for i, e in enumerate(events) if e[0] == "snap" and i + 1 < len(events) and events[i + 1][:2] == ("new", k)), None)
            if snap and os.path.exists(snap) and os.path.getsize(snap) > 0:
                shutil.copy(snap, os.path.join(d3, "user.yaml"))      # the settings persisted when this session was created
            rc3, out3 = sc.run_impl(exe, d3, _write(c, "fso%d_%d" % (g, k), sscript))
            shutil.rmtree(d3, ignore_errors=True)
            simpl = [l for l in out3.splitlines() if l.startswith("ret=") or l.startswith("ids ")]
            ts = transcripts(sindex, simpl).get(k, [])
            st["sessions"] += 1
            if [x[1] for x in ts] != [x[1] for x in ti[k]]:
                d = next((i for i, (a, b) in enumerate(zip(ts, ti[k])) if a[1] != b[1]), min(len(ts), len(ti[k])))
                # shrink: keep only the two sessions involved, then drop events while the difference persists
                c.report("C16:isolation:%s" % sc.op_kind(ti[k][d][0] if d < len(ti[k]) else "?"),
                         "a session on the stock-component schema observes something different when other sessions are interleaved",
                         dict(case, session=k, op=ti[k][d][0] if d < len(ti[k]) else None,
                              interleaved=ti[k][d][1] if d < len(ti[k]) else None, solo=ts[d][1] if d < len(ts) else None))
    if not audit["ok"] and not c.violations:
        c.report("C16:proof", "proof obligation no longer checks: %s" % "; ".join("%s: %s" % f for f in audit["failures"])[:600],
                 {"kind": "proof", "broken_theorems": audit["failures"], "lean_log": audit["log"][-3000:]}, no_input=True)
    cov = vlib.proof_cov(audit, "lake build RimeModel.Props.C16 && #print axioms (all theorems) && forbidden-token scan"
                         + ("" if quick else " && leanchecker"), vlib.STD_TRUSTED)
    cov.update({"evaluations": st["events"], "distinct_nontrivial": len(st["nontrivial"]),
                "rule": "groups of %d sessions on random synthetic schemas with interleaved call sequences, creations/destructions in between, calls on destroyed ids, `ids` probes, sessions created without any read after them (`newq`) and swept before their first call, staleness sweeps (the wall clock advanced by the harness to either side of the 300 s life span, some sessions called in between; directed: every gap pair on three sessions) with calls on the swept ids; each group is run interleaved, replayed in a new process, and every session re-run solo; non-trivial = observation in a composing state (distinct lines)" % n_sessions,
                "samples": st["samples"], "groups": st["groups"], "sessions_compared_solo_vs_interleaved": st["sessions"],
                "calls_on_dead_ids": st["dead_calls"], "ids_probes": st["ids_checks"], "proof_failures": audit["failures"],
                "staleness_sweeps": st.get("stale_sweeps", 0), "sessions_swept_as_stale": st.get("swept_sessions", 0)})
    c.cov = cov
    c.assumptions = ["learning disabled (no user dictionary in the synthetic schemas)", "outside the schema-switcher menu",
                     "one client thread"]


def replay(c, r):
    if "events" not in r:
        print("replay: no concrete trace in this file:", r.get("what"))
        return 1
    exe = sc.build()
    events = [tuple(e) for e in r["events"]]
    if r.get("schema") == "vs_full":
        # stock-component case: interleaved twice and the named session solo, each from a fresh copy of the deployed template
        from checks import c01_common as c1
        tpl = c1.make_full_workspace(os.path.join(c.work, "fws_tpl"), user_dict=False, second_prism=True,
                                     fix_order=not r.get("schema_list_in_mru_order"), packs=True)
        sc.run_impl(exe, tpl, _write(c, "warm", "new\nschema vs_full\nnew\nschema vs_full2\n"))
        runs = []
        events = [("snap", os.path.join(c.work, os.path.basename(e[1]))) if e[0] == "snap" else e for e in events]
        script, index = to_script([], events)
        ks = [r["session"]] if r.get("session") is not None else sorted({e[1] for e in events if e[0] == "new"})
        for tag, (sx, ix) in [("a", (script, index)), ("b", (script, index))] + [("s%d" % k, to_script([], solo_events(events, k))) for k in ks]:
            d = os.path.join(c.work, "rp_" + tag)
            shutil.copytree(tpl, d)
            if tag.startswith("s"):
                kk = int(tag[1:])
                snap = next((e[1] for i, e in enumerate(events) if e[0] == "snap" and i + 1 < len(events) and events[i + 1][:2] == ("new", kk)), None)
                if snap and os.path.exists(snap) and os.path.getsize(snap) > 0:
                    shutil.copy(snap, os.path.join(d, "user.yaml"))
            rc, out = sc.run_impl(exe, d, _write(c, "rp_" + tag, sx))
            runs.append((tag, rc, transcripts(ix, [l for l in out.splitlines() if l.startswith("ret=") or l.startswith("ids ")])))
        bad = any(rc for _, rc, _ in runs) or runs[0][2] != runs[1][2]
        for (tag, rc, t), k in zip(runs[2:], ks):
            if [x[1] for x in t.get(k, [])] != [x[1] for x in runs[0][2].get(k, [])]:
                bad = True
                print("session %d: solo and interleaved transcripts differ" % k)
        print("stock replay: rcs=%s replay_equal=%s" % ([rc for _, rc, _ in runs], runs[0][2] == runs[1][2]))
        return 1 if bad else 0
    ws = sc.make_workspace(os.path.join(c.work, "ws"), list(sc.SCHEMAS))
    script, index = to_script([tuple(x) for x in r["table"]], events)
    rc, out, impl, model = sc.run_both(c, exe, ws, script, "rp")
    bad = rc != 0 or impl != model
    print("rc=%d lines=%d model_agrees=%s" % (rc, len(impl), impl == model))
    return 1 if bad else 0
