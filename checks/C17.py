"""C17 — user dictionary sync merges without loss and snapshots round-trip."""
import os, sys, json, re, math, glob, shutil, time
import vlib

META = {
    "technique": ("Lean 4 theorems over an executable model of the user-db value codec, TSV snapshot codec, UserDbMerger, "
                  "UserDbImporter and the UserDictManager operations + differential correspondence on real LevelDB user dbs + "
                  "member-initialisation table regenerated from source, poisoned-construction probe and valgrind memcheck"),
    "level": "proof",
    "level_text": ("Theorems C17.unpack_pack, restore_backup, merge_keeps_keys, merge_abs_max, merge_abs_monotone, merge_tick_max, "
                   "merge_idempotent, import_rules: proved by induction for dictionaries of any size, for every lawful instance of "
                   "the abstract dee operations (any decay). The model is run op-for-op against the real UserDictManager / "
                   "UserDbHelper / UserDbMerger / UserDbImporter on LevelDB user dbs (keys, commits, ticks, metadata exactly; dee "
                   "numerically), and every clause of the property is also evaluated directly on the implementation's dumps. "
                   "'Reads no uninitialised state': the data members of UserDbMerger/UserDbImporter and how each gets its first "
                   "value are regenerated from user_db.h/.cc on every run (theorem C17Members.all_members_initialised over that "
                   "table), cross-checked at runtime by constructing the classes in poisoned storage, and the merge/export/import "
                   "paths are run under valgrind memcheck."),
    "level_note": ("Trusted: Lean kernel; the hand-written model is tied to the C++ only by differential runs (bounded by the "
                   "generator); the double-precision instance of the dee operations used by the driver is compared, not proved "
                   "lawful (a small exact instance is proved lawful for non-vacuity); glibc strtol/strtoul/strtod, boost split/trim, "
                   "LevelDB ordering and atomicity as modelled; regex translator gen/c17_members.py (fails closed, independent "
                   "member count); valgrind. UserDictManager::Synchronize's directory iteration order is not modelled (its Restore "
                   "and Backup steps are). abs(INT_MIN) and commits+1 at INT_MAX in the table parser are the code's own UB and are "
                   "outside the generated domain."),
    "design_ref": "DESIGN.md §2 M-kv, §3 C17",
}

SRC_FILES = ["src/rime/dict/user_db.cc", "src/rime/dict/user_db.h", "src/rime/dict/tsv.cc", "src/rime/dict/text_db.cc",
             "src/rime/dict/table_db.cc", "src/rime/dict/db_utils.cc", "src/rime/dict/level_db.cc",
             "src/rime/lever/user_dict_manager.cc", "src/rime/algo/dynamics.h"]
INT_MIN = -2 ** 31
U64 = 2 ** 64


def hx(b):
    if isinstance(b, str):
        b = b.encode()
    return b.hex() if b else "-"


def unhex(h):
    return b"" if h == "-" else bytes.fromhex(h)


# ------------------------------------------------------------------ comparing observation lines
def dee_val(tok):
    s = tok[2:]
    if s in ("nan", "-nan"):
        return float("nan")
    if s in ("inf", "-inf"):
        return float(s)
    if "x" in s:
        return float.fromhex(s)
    m = re.fullmatch(r"(-?)(\d+)p(-?\d+)", s)
    if not m:
        return None
    try:
        v = math.ldexp(int(m.group(2)), int(m.group(3)))
    except OverflowError:
        v = float("inf")
    return -v if m.group(1) else v


def same_dee(a, b):
    x, y = dee_val(a), dee_val(b)
    if x is None or y is None:
        return False, False
    if x != x or y != y:
        return (x != x and y != y), True
    if x == y:
        return True, True
    if math.isinf(x) or math.isinf(y):
        return False, False
    return abs(x - y) <= 1e-6 * max(abs(x), abs(y)), False


def lines_agree(impl, model, stats=None):
    a = [t for t in impl.split(" ") if not t.startswith("h=")]
    b = model.split(" ")
    if len(a) != len(b):
        return False
    for s, t in zip(a, b):
        if s.startswith("d=") and t.startswith("d="):
            ok, exact = same_dee(s, t)
            if not ok:
                return False
            if stats is not None:
                stats["dee_compared"] += 1
                stats["dee_inexact"] += 0 if exact else 1
        elif s != t:
            return False
    return True


# ------------------------------------------------------------------ parsing observations
def parse_dump(line):
    """-> None (no such db) | dict(meta={k:v}, data={key:(c,t,ok,dee_tok)}, raw=line, hash=...)"""
    if not line.startswith("db"):
        return None
    toks = line.split(" ")[1:]
    meta, data, h = {}, {}, None
    i = 0
    while i < len(toks):
        t = toks[i]
        if t.startswith("m:"):
            _, k, v = t.split(":")
            meta[unhex(k)] = unhex(v)
        elif t.startswith("e:"):
            _, k, c, tk, ok = t.split(":")
            d = toks[i + 1] if i + 1 < len(toks) and toks[i + 1].startswith("d=") else "d=?"
            data[unhex(k)] = (int(c), int(tk), ok == "1", d)
            i += 1
        elif t.startswith("h="):
            h = t
        i += 1
    return {"meta": meta, "data": data, "hash": h}


def parse_cat(line):
    """-> None | list of lines, each a list of columns ('x', bytes) | ('v', c, t, ok, dee_tok)"""
    if not line.startswith("file"):
        return None
    rows, cur = [], None
    toks = line.split(" ")[1:]
    i = 0
    while i < len(toks):
        t = toks[i]
        if t == "|":
            cur = []
            rows.append(cur)
        elif t.startswith("x:"):
            cur.append(("x", unhex(t[2:])))
        elif t.startswith("v:"):
            _, c, tk, ok = t.split(":")
            cur.append(("v", int(c), int(tk), ok == "1"))
            i += 1
        i += 1
    return rows


def plain_u64(b):
    return int(b) if re.fullmatch(rb"[0-9]{1,19}", b or b"") else None


def wf_key(k):
    p = k.split(b"\t")
    return (len(p) == 2 and len(p[0]) >= 2 and p[0].endswith(b" ") and len(p[1]) > 0 and b"\n" not in k
            and p[0][0] >= 0x20 and not p[0].startswith(b"#") and p[1].strip(b" \t\r\v\f") == p[1]
            and b"\r" not in k)


def clean_snapshot(rows):
    """rows of `cat` -> (meta dict, [(key, c, t)]) when the file is a snapshot as UniformBackup writes it, else None"""
    if not rows or rows[0] != [("x", b"# Rime user dictionary")]:
        return None
    meta, data, seen = {}, [], set()
    for r in rows[1:]:
        if r and r[0][0] == "x" and r[0][1].startswith(b"#@"):
            if len(r) != 2 or r[1][0] != "x" or data:
                return None
            meta[r[0][1][2:]] = r[1][1]
            continue
        if len(r) != 3 or r[0][0] != "x" or r[1][0] != "x" or r[2][0] != "v" or not r[2][3]:
            return None
        key = r[0][1] + b"\t" + r[1][1]
        if not wf_key(key) or key in seen:
            return None
        seen.add(key)
        data.append((key, r[2][1], r[2][2]))
    return meta, data


def db_name_of(meta):
    n = meta.get(b"/db_name")
    if n is None:
        return None
    i = n.rfind(b".userdb")
    return (n[:i] if i >= 0 else n).decode("latin1")


# ------------------------------------------------------------------ O: the property on a transcript
def writes_file(op, f):
    t = op.split(" ")
    return (t[0] == "file" and t[1] == f) or (t[0] in ("backup", "export", "sync") and t[3] == f)


def writes_db(op, i, n):
    t = op.split(" ")
    if t[0] in ("put", "meta", "backup", "import") and t[1] == i and t[2] == n:
        return True
    if t[0] == "restore" and t[2] == i and t[3] == n:
        return True
    if t[0] in ("merge", "pmerge") and t[2] == i:
        return True
    if t[0] in ("upgrade", "syncall", "sync") and t[1] == i:
        return True
    return False


def latest(ops, outs, j, pred):
    for k in range(j - 1, -1, -1):
        if pred(ops[k].split(" ")):
            return k
    return None


def tick_of(meta):
    v = plain_u64(meta.get(b"/tick"))
    return v


WS = b" \t\n\v\f\r"


def reader_rows(rows):
    """the rows of `cat` as TsvReader hands them to the row parser: trailing white space trimmed, empty lines and comments
    skipped, split at tabs.  None when the file switches comments off or a statistics-like column stands where a key is."""
    out = []
    for r in rows:
        if any(col[0] == "v" for col in r[:2]):
            return None
        line = b"\t".join(col[1] if col[0] == "x" else b"c=?" for col in r).rstrip(WS)
        if not line:
            continue
        if line.startswith(b"#"):
            if line == b"# no comment":
                return None
            continue
        out.append(line.split(b"\t"))
    return out


def table_weight(col):
    """the weight column of a text row -> ('int', n) | ('zero',) absent / empty / not a number | ('unknown',) debatable"""
    if col is None or col == b"":
        return ("zero",)
    m = re.match(rb"^([ \t\n\v\f\r]*)([+-]?)([0-9]+)(.*)$", col, re.S)
    if not m:
        return ("zero",)
    if m.group(1) or m.group(2) == b"+" or m.group(4):
        return ("unknown",)
    v = int(m.group(2) + m.group(3))
    if not -2 ** 31 < v < 2 ** 31 - 1:
        return ("unknown",)
    return ("int", v)


def monitor(ops, outs):
    """Evaluate the clauses of C17 on the observations `outs` of transcript `ops`.
    Returns list of (clause, detail, index) failures and a dict of evaluation counts."""
    fails, n = [], {"merge": 0, "merge_clean": 0, "idempotent": 0, "restore": 0, "import": 0, "sync": 0, "sync_snapshots": 0, "bare_rows": 0}
    snapf = {}     # (installation, dictionary) -> (file holding a copy of its snapshot in the sync directory, op index)
    imports_seen = {}   # (rows as a multiset, dictionary before) -> (counts after, rows in file order, op index)
    for j, op in enumerate(ops[:len(outs)]):
        t = op.split(" ")
        if j > 0:
            u = ops[j - 1].split(" ")
            if u[0] in ("backup", "sync") and len(u) == 4 and outs[j - 1].startswith("ok"):
                snapf[(u[1], u[2])] = (u[3], j - 1)
            if u[0] == "plant" and len(u) == 4 and outs[j - 1] == "ok":
                snapf[(u[2], u[3])] = (u[1], j - 1)
        if j + 1 >= len(outs):
            break
        if t[0] in ("merge", "pmerge") and outs[j] == "ok" and 0 < j < len(ops) - 1:
            f, i = t[1], t[2]
            tb, ta = ops[j - 1].split(" "), ops[j + 1].split(" ")
            if not (tb[0] == "dump" and ta[0] == "dump" and tb[1:] == ta[1:] and tb[1] == i):
                continue
            nme = tb[2]
            before = parse_dump(outs[j - 1]) or {"meta": {}, "data": {}, "hash": None}
            after = parse_dump(outs[j + 1])
            if after is None:
                # (a snapshot that names another dictionary is merged there: the dictionary dumped here may not exist at all)
                if parse_dump(outs[j - 1]) is not None:
                    fails.append(("keys-kept", "target dictionary does not exist after the merge", j))
                continue
            n["merge"] += 1
            kc0 = latest(ops, outs, j, lambda u: u[0] == "cat" and u[1] == f)
            rows0 = parse_cat(outs[kc0]) if kc0 is not None and not any(writes_file(o, f) for o in ops[kc0:j]) else None
            inputs_ok = rows0 is not None and all(col[3] for r in rows0 for col in r if col[0] == "v") \
                and all(v[2] for v in before["data"].values())
            if inputs_ok:
                for k, (c2, t2, ok2, d2) in after["data"].items():
                    if not ok2:
                        fails.append(("value-readable", "entry %r: the merge wrote a value UserDbValue::Unpack rejects "
                                      "(reads back as commits %d, tick %d)" % (k, c2, t2), j))
            for k, (c, tk, ok, d) in before["data"].items():
                if k not in after["data"]:
                    fails.append(("keys-kept", "entry %r of the dictionary vanished in the merge" % k, j))
                elif ok and c != INT_MIN and abs(after["data"][k][0]) < abs(c):
                    fails.append(("abs-monotone", "entry %r: commits %d -> %d" % (k, c, after["data"][k][0]), j))
            # the snapshot as the reader saw it
            kc = latest(ops, outs, j, lambda u: u[0] == "cat" and u[1] == f)
            snap = None
            if kc is not None and not any(writes_file(o, f) for o in ops[kc:j]):
                rows = parse_cat(outs[kc])
                snap = clean_snapshot(rows) if rows is not None else None
            if snap and db_name_of(snap[0]) == nme and all(v[2] for v in before["data"].values()):
                meta, data = snap
                n["merge_clean"] += 1
                theirs = {k: c for k, c, tk in data}
                for k, c, tk in data:
                    if k not in after["data"]:
                        fails.append(("keys-kept", "entry %r of the snapshot is missing after the merge" % k, j))
                for k, (c2, t2, ok2, d2) in after["data"].items():
                    if k not in before["data"] and k not in theirs:
                        fails.append(("keys-kept", "entry %r appeared from nowhere" % k, j))
                        continue
                    co, ct = before["data"].get(k, (0,))[0], theirs.get(k, 0)
                    if INT_MIN in (co, ct):
                        continue
                    if abs(c2) != max(abs(co), abs(ct)):
                        fails.append(("abs-max", "entry %r: ours %d, theirs %d, merged %d" % (k, co, ct, c2), j))
                # tick
                ours_t = tick_of(before["meta"]) if b"/tick" in before["meta"] else 1
                their_t = tick_of(meta) if b"/tick" in meta else 0
                if ours_t is not None and their_t is not None:
                    if data:
                        want = max(ours_t, their_t)
                        got = tick_of(after["meta"])
                        if got != want:
                            fails.append(("tick-max", "tick ours %d, theirs %d, after the merge %r" %
                                          (ours_t, their_t, after["meta"].get(b"/tick")), j))
                    elif after["meta"].get(b"/tick") != before["meta"].get(b"/tick") and before["data"] is not None \
                            and parse_dump(outs[j - 1]) is not None:
                        fails.append(("tick-max", "tick changed by merging an empty snapshot", j))
            # rows of the snapshot that carry a key but no statistics column (a word added by hand, or an entry whose stored
            # value was empty): each counts as 0 commits whatever stands in the rows around it — the entry is there afterwards
            # with the magnitude the dictionary already had
            if kc is not None and not any(writes_file(o, f) for o in ops[kc:j]) and all(v[2] for v in before["data"].values()):
                rows = parse_cat(outs[kc]) or []
                if rows and rows[0] == [("x", b"# Rime user dictionary")]:
                    metab = {r[0][1][2:]: r[1][1] for r in rows[1:] if len(r) == 2 and r[0][0] == "x" and r[1][0] == "x" and r[0][1].startswith(b"#@")}
                    keys = [r[0][1] + b"\t" + r[1][1] for r in rows[1:] if len(r) >= 2 and r[0][0] == "x" and r[1][0] == "x"
                            and not r[0][1].startswith(b"#")]
                    if db_name_of(metab) == nme:
                        for r in rows[1:]:
                            if len(r) != 2 or r[0][0] != "x" or r[1][0] != "x" or r[0][1].startswith(b"#"):
                                continue
                            key = r[0][1] + b"\t" + r[1][1]
                            if not wf_key(key) or keys.count(key) != 1:
                                continue
                            n["bare_rows"] = n.get("bare_rows", 0) + 1
                            co = before["data"].get(key, (0,))[0]
                            if key not in after["data"]:
                                fails.append(("keys-kept", "entry %r (a snapshot row without statistics) is missing after the merge" % key, j))
                            elif co != INT_MIN and abs(after["data"][key][0]) != abs(co):
                                fails.append(("abs-max", "entry %r: ours %d, theirs a row without statistics (0 commits), merged %d" %
                                              (key, co, after["data"][key][0]), j))
            # idempotence: merge F I ; dump ; merge F I ; dump
            if j + 3 < len(outs):
                t2, t3 = ops[j + 2].split(" "), ops[j + 3].split(" ")
                if t2[0] in ("merge", "pmerge") and t2[1:3] == [f, i] and outs[j + 2] == "ok" and t3 == ta:
                    n["idempotent"] += 1
                    again = parse_dump(outs[j + 3])
                    if again is None or again["data"] != after["data"] or again["meta"] != after["meta"] \
                            or again["hash"] != after["hash"]:
                        diff = "?"
                        if again:
                            dk = [k for k in after["data"] if again["data"].get(k) != after["data"][k]]
                            diff = "entries %r" % dk[:3] if dk else "metadata %r -> %r" % (after["meta"], again["meta"])
                        fails.append(("idempotent", "merging the same snapshot again changed the dictionary: " + diff, j + 2))
        elif t[0] == "sync" and 0 < j < len(ops) - 1:
            i, nme = t[1], t[2]
            if ops[j - 1] != "dump %s %s" % (i, nme) or ops[j + 1] != ops[j - 1]:
                continue
            before = parse_dump(outs[j - 1]) or {"meta": {}, "data": {}}
            after = parse_dump(outs[j + 1]) or {"meta": {}, "data": {}}
            n["sync"] += 1
            for k, (c, tk, ok, d) in before["data"].items():
                if k not in after["data"]:
                    fails.append(("keys-kept", "entry %r vanished in Synchronize" % k, j))
                elif ok and c != INT_MIN and abs(after["data"][k][0]) < abs(c):
                    fails.append(("abs-monotone", "entry %r: commits %d -> %d in Synchronize" % (k, c, after["data"][k][0]), j))
            tb, ta2 = tick_of(before["meta"]), tick_of(after["meta"])
            if tb is not None and ta2 is not None and ta2 < tb:
                fails.append(("tick-max", "Synchronize lowered the tick %d -> %d" % (tb, ta2), j))
            # every snapshot of this dictionary in the sync directory (the peers' and the installation's own) is merged:
            # its entries are there afterwards, none with a smaller magnitude
            m = re.search(r"order=(\S+)", outs[j])
            peers = [] if not m or m.group(1) == "-" else m.group(1).split(",")
            if all(v[2] for v in before["data"].values()):      # (whatever Synchronize returns: a clean snapshot merges)
                for p in peers:
                    if (p, nme) not in snapf:
                        continue
                    f, kw = snapf[(p, nme)]
                    kc = latest(ops, outs, j, lambda u: u[0] == "cat" and u[1] == f)
                    if kc is None or kc < kw or any(writes_file(o, f) for o in ops[kw + 1:j]):
                        continue
                    rows = parse_cat(outs[kc])
                    snap = clean_snapshot(rows) if rows is not None else None
                    if not snap or db_name_of(snap[0]) != nme:
                        continue
                    n["sync_snapshots"] += 1
                    for k, c, tk in snap[1]:
                        if k not in after["data"]:
                            fails.append(("keys-kept", "entry %r of the snapshot of %s in the sync directory is missing after "
                                          "Synchronize" % (k, p), j))
                        elif after["data"][k][2] and c != INT_MIN and abs(after["data"][k][0]) < abs(c):
                            fails.append(("abs-monotone", "entry %r: the snapshot of %s has commits %d, after Synchronize %d" %
                                          (k, p, c, after["data"][k][0]), j))
        elif t[0] in ("upgrade", "syncall") and 0 < j < len(ops) - 1:
            # the dictionaries dumped right before and right after (same dump ops on both sides): a conversion of an old-format
            # dictionary and a synchronization of all dictionaries are merges — nothing vanishes, no magnitude goes down, no
            # tick goes back; the entries of a clean old-format file are there afterwards
            i = t[1]
            kb = j
            while kb > 0 and ops[kb - 1].startswith("dump %s " % i):
                kb -= 1
            pre = ops[kb:j]
            post = ops[j + 1:j + 1 + len(pre)]
            if not pre or pre != post or j + len(pre) >= len(outs):
                continue
            n["upgrade" if t[0] == "upgrade" else "syncall"] = n.get("upgrade" if t[0] == "upgrade" else "syncall", 0) + 1
            for q, dop in enumerate(pre):
                nme = dop.split(" ")[2]
                before = parse_dump(outs[kb + q]) or {"meta": {}, "data": {}}
                after = parse_dump(outs[j + 1 + q]) or {"meta": {}, "data": {}}
                for k, (c, tk, ok, d) in before["data"].items():
                    if k not in after["data"]:
                        fails.append(("keys-kept", "entry %r of %s vanished in %s" % (k, nme, t[0]), j))
                    elif ok and c != INT_MIN and abs(after["data"][k][0]) < abs(c):
                        fails.append(("abs-monotone", "entry %r of %s: commits %d -> %d in %s" % (k, nme, c, after["data"][k][0], t[0]), j))
                tb, ta2 = tick_of(before["meta"]), tick_of(after["meta"])
                if tb is not None and ta2 is not None and ta2 < tb and b"/tick" in before["meta"] and b"/tick" in after["meta"]:
                    fails.append(("tick-max", "%s lowered the tick of %s %d -> %d" % (t[0], nme, tb, ta2), j))
                if t[0] == "upgrade" and nme == t[2] and outs[j] == "ok" and all(v[2] for v in before["data"].values()):
                    kc = latest(ops, outs, j, lambda u: u[0] == "lcat" and u[1] == i and u[2] == nme)
                    if kc is None or any(o.startswith(("legacy ", "upgrade ")) for o in ops[kc + 1:j]):
                        continue
                    rows = parse_cat(outs[kc])
                    snap = clean_snapshot(rows) if rows is not None else None
                    if not snap or db_name_of(snap[0]) != nme:
                        continue
                    n["upgrade_clean"] = n.get("upgrade_clean", 0) + 1
                    for k, c, tk in snap[1]:
                        if k not in after["data"]:
                            fails.append(("keys-kept", "entry %r of the old-format dictionary is missing after the upgrade" % k, j))
                        elif after["data"][k][2] and c != INT_MIN and abs(after["data"][k][0]) != max(abs(c), abs(before["data"].get(k, (0,))[0])) \
                                and before["data"].get(k, (0,))[0] != INT_MIN:
                            fails.append(("abs-max", "entry %r: ours %d, old-format file %d, after the upgrade %d" %
                                          (k, before["data"].get(k, (0,))[0], c, after["data"][k][0]), j))
        elif t[0] == "restore" and outs[j] == "ok" and 0 < j < len(ops) - 1:
            f, i, nme = t[1], t[2], t[3]
            if ops[j - 1] != "dump %s %s" % (i, nme) or ops[j + 1] != ops[j - 1] or outs[j - 1] != "none":
                continue
            kb = latest(ops, outs, j, lambda u: u[0] == "backup" and u[3] == f)
            if kb is None or outs[kb] != "ok" or any(writes_file(o, f) for o in ops[kb + 1:j]) or kb == 0:
                continue
            tb = ops[kb].split(" ")
            if ops[kb - 1] != "dump %s %s" % (tb[1], tb[2]):
                continue
            src, dst = parse_dump(outs[kb - 1]), parse_dump(outs[j + 1])
            if src is None or not all(wf_key(k) for k in src["data"]) or not all(v[2] for v in src["data"].values()):
                continue
            n["restore"] += 1
            a = {k: v[0] for k, v in src["data"].items()}
            b = {k: v[0] for k, v in dst["data"].items()} if dst else None
            if a != b:
                missing = [k for k in a if b is None or k not in b]
                wrong = [k for k in a if b and k in b and a[k] != b[k]]
                extra = [k for k in (b or {}) if k not in a]
                fails.append(("restore-reproduces", "backup then restore into an empty dictionary: missing %r, wrong count %r, "
                              "extra %r" % (missing[:3], wrong[:3], extra[:3]), j))
        elif t[0] == "import" and outs[j].startswith("ok") and 0 < j < len(ops) - 1:
            i, nme, f = t[1], t[2], t[3]
            if ops[j - 1] != "dump %s %s" % (i, nme) or ops[j + 1] != ops[j - 1]:
                continue
            before = parse_dump(outs[j - 1]) or {"meta": {}, "data": {}}
            after = parse_dump(outs[j + 1])
            n["import"] += 1
            if after is None:
                fails.append(("import-keeps-keys", "dictionary missing after import", j))
                continue
            for k, (c, tk, ok, d) in before["data"].items():
                if k not in after["data"]:
                    fails.append(("import-keeps-keys", "entry %r vanished in the import" % k, j))
            kc = latest(ops, outs, j, lambda u: u[0] == "cat" and u[1] == f)
            if kc is None or any(writes_file(o, f) for o in ops[kc:j]):
                continue
            rows = parse_cat(outs[kc])
            if rows is None or not all(v[2] for v in before["data"].values()):
                continue
            # every row is judged by its own columns (text, code, weight), in file order: a positive weight raises the count
            # to at least that, a negative one marks the entry deleted, a row without a weight / with an empty one / with one
            # that does not start with a number counts as 0 — it keeps the count the entry has (an entry not yet there is
            # created with 0 commits, or left out) — whatever stands in the rows around it.  Weights whose reading is
            # a matter of taste (leading blanks, '+', trailing junk, beyond int) take their key out of the comparison.
            rrows = reader_rows(rows)
            if rrows is None or any(v[0] == INT_MIN for v in before["data"].values()):
                continue
            exp = {k: v[0] for k, v in before["data"].items()}
            created0, unknown, kinds_seen = set(), set(), set()
            for row in rrows:
                if len(row) < 2 or not row[0] or not row[1]:
                    continue
                code = row[1].strip(WS)
                if not code:
                    unknown = None
                    break
                key = code + b" \t" + row[0]
                w = table_weight(row[2] if len(row) >= 3 else None)
                kinds_seen.add(w[0])
                if w[0] == "unknown":
                    unknown.add(key)
                    continue
                if key in unknown:
                    continue
                c = w[1] if w[0] == "int" else 0
                o = exp.get(key)
                if o is None:
                    created0.add(key)
                    o = 0
                exp[key] = max(o, c) if c > 0 else (min(c, -abs(o)) if c < 0 else o)
            if unknown is None:
                continue
            n["import_rows_judged"] = n.get("import_rows_judged", 0) + len(rrows)
            if "zero" in kinds_seen and "int" in kinds_seen:
                n["import_mixed_files"] = n.get("import_mixed_files", 0) + 1
            got = {k: v[0] for k, v in after["data"].items()}
            bad = []
            for k in sorted(set(exp) | set(got)):
                if k in unknown:
                    continue
                e, g = exp.get(k), got.get(k)
                if e != g and not (g is None and k in created0 and e == 0):
                    bad.append(k)
            if bad:
                fails.append(("import-rules", "entries %r: by their own rows expected %r, got %r" %
                              (bad[:3], [exp.get(k) for k in bad[:3]], [got.get(k) for k in bad[:3]]), j))
            # the same rows (distinct keys) imported in another order into an equal dictionary give the same counts
            keys = [r[1].strip(WS) + b" \t" + r[0] for r in rrows if len(r) >= 2 and r[0] and r[1]]
            if len(set(keys)) == len(keys):
                sig = (tuple(sorted(tuple(r) for r in rrows)), tuple(sorted((k, v[0]) for k, v in before["data"].items())))
                res = tuple(sorted(got.items()))
                prev = imports_seen.get(sig)
                if prev is None:
                    imports_seen[sig] = (res, tuple(tuple(r) for r in rrows), j)
                elif prev[1] != tuple(tuple(r) for r in rrows):
                    n["import_order_pairs"] = n.get("import_order_pairs", 0) + 1
                    if prev[0] != res:
                        d = [k for k in set(dict(res)) | set(dict(prev[0])) if dict(res).get(k) != dict(prev[0]).get(k)]
                        fails.append(("import-order", "the same rows imported in another order (op %d) gave other counts for %r: %r vs %r" %
                                      (prev[2], d[:3], [dict(prev[0]).get(k) for k in d[:3]], [dict(res).get(k) for k in d[:3]]), j))
    return fails, n


# ------------------------------------------------------------------ generator
CODES = ["a", "ni", "hao", "zhong", "guo", "x", "lv"]
TEXTS = ["你好", "中国", "a", "テスト", "x y", "ñ", "𠀀", "b#", "日本語のテキスト"]
COUNTS = [0, 0, 1, 1, 2, 3, 5, 7, 100, 65535, 2 ** 31 - 1, -1, -1, -2, -5, -100, -(2 ** 31) + 1]
DEES = ["0", "0.5", "1.25", "0.123457", "1e-05", "3.14159e-07", "9999.99", "10000", "12345.6", "2", "1e-300", "7.5e-10"]


def gen_key(rng):
    code = " ".join(rng.choice(CODES) for _ in range(rng.choice([1, 1, 2, 2, 3, 5])))
    return (code + " \t" + rng.choice(TEXTS)).encode()


def gen_tick(rng, base):
    r = rng.random()
    if r < 0.55:
        return rng.randrange(0, base + 1)
    if r < 0.75:
        return rng.randrange(0, 1000)
    if r < 0.85:
        return max(0, base - rng.randrange(141000, 150000))
    if r < 0.93:
        return rng.randrange(0, 10 ** 7)
    return rng.choice([U64 - 1, 2 ** 63, 2 ** 53 + 1, 2 ** 32])


def gen_value(rng, base, cmax=2 ** 31 - 1):
    """cmax = 2^31-2 in scenarios that reach Import: rime_table_entry_parser computes commits + 1 in int (UB at INT_MAX)"""
    c = rng.choice(COUNTS) if rng.random() < 0.8 else rng.randrange(-2 ** 31 + 1, 2 ** 31)
    c = min(c, cmax)
    d = rng.choice(DEES) if rng.random() < 0.6 else "%g" % (rng.random() * 10 ** rng.randrange(-8, 4))
    return ("c=%d d=%s t=%d" % (c, d, gen_tick(rng, base))).encode()


def gen_db(rng, inst, name, keys, ops, tick=None, cmax=2 ** 31 - 1):
    base = rng.choice([1, 5, 100, 1000, 150000, 10 ** 6]) if tick is None else tick
    for k in keys:
        ops.append("put %s %s %s %s" % (inst, name, hx(k), hx(gen_value(rng, base, cmax))))
    r = rng.random()
    if r < 0.8:
        ops.append("meta %s %s %s %s" % (inst, name, hx("/tick"), hx(str(base + rng.randrange(0, 50)))))
    elif r < 0.87:
        ops.append("meta %s %s %s %s" % (inst, name, hx("/tick"), hx(rng.choice(["", "abc", " 12", "+5", "-1", "7x",
                                                                                  "99999999999999999999", str(U64 - 1)]))))


def scenario_pair(rng, sid):
    """two installations with overlapping/disjoint dictionaries: backup, plain restore, merge twice, cross-merge, export/import"""
    A, B, E, C = ("%sA" % sid, "%sB" % sid, "%sE" % sid, "%sC" % sid)
    nme = rng.choice(["d", "luna_pinyin", "x.y"])
    pool = list({gen_key(rng) for _ in range(rng.choice([2, 4, 8, 14]))})
    ka = [k for k in pool if rng.random() < rng.choice([0.3, 0.7, 1.0])]
    kb = [k for k in pool if rng.random() < rng.choice([0.0, 0.3, 0.7, 1.0])]
    ops = []
    with_text = rng.random() < 0.7
    cmax = 2 ** 31 - 2 if with_text else 2 ** 31 - 1
    gen_db(rng, A, nme, ka or pool[:1], ops, cmax=cmax)
    if kb or rng.random() < 0.7:
        gen_db(rng, B, nme, kb, ops, cmax=cmax)
    sA, sB, xB = "%ssa" % sid, "%ssb" % sid, "%sxb" % sid
    ops += ["dump %s %s" % (A, nme), "backup %s %s %s" % (A, nme, sA), "cat %s" % sA,
            "dump %s %s" % (E, nme), "restore %s %s %s" % (sA, E, nme), "dump %s %s" % (E, nme)]
    m1 = "merge %s %s" % (sA, B) if rng.random() < 0.6 else "pmerge %s %s %d" % (sA, B, rng.choice([0, 255, 165, 1, 128]))
    m2 = "merge %s %s" % (sA, B) if rng.random() < 0.6 else "pmerge %s %s %d" % (sA, B, rng.choice([0, 255, 90]))
    ops += ["dump %s %s" % (B, nme), m1, "dump %s %s" % (B, nme), m2, "dump %s %s" % (B, nme)]
    if rng.random() < 0.7:   # merge back
        ops += ["backup %s %s %s" % (B, nme, sB), "cat %s" % sB,
                "dump %s %s" % (A, nme), "merge %s %s" % (sB, A), "dump %s %s" % (A, nme),
                "merge %s %s" % (sB, A), "dump %s %s" % (A, nme)]
    if with_text:   # export B, import into C (maybe pre-populated) and into A
        ops += ["dump %s %s" % (B, nme), "export %s %s %s" % (B, nme, xB), "cat %s" % xB]
        if rng.random() < 0.5:
            gen_db(rng, C, nme, [k for k in pool if rng.random() < 0.5], ops, cmax=cmax)
        ops += ["dump %s %s" % (C, nme), "import %s %s %s" % (C, nme, xB), "dump %s %s" % (C, nme),
                "dump %s %s" % (A, nme), "import %s %s %s" % (A, nme, xB), "dump %s %s" % (A, nme)]
    # a SECOND backup of A after it was changed by merges / imports (which may leave its tick where it was), restored into
    # an empty dictionary: the snapshot must be the dictionary as it is now
    E2 = "%sF" % sid
    ops += ["dump %s %s" % (A, nme), "backup %s %s %s" % (A, nme, sA), "cat %s" % sA,
            "dump %s %s" % (E2, nme), "restore %s %s %s" % (sA, E2, nme), "dump %s %s" % (E2, nme)]
    return ops


def scenario_sync(rng, sid):
    """two or three installations sharing a sync directory, each running UserDictManager::Synchronize in turn"""
    insts = ["%s%s" % (sid, ch) for ch in "ABC"[:rng.choice([2, 2, 3])]]
    nme = rng.choice(["d", "luna_pinyin"])
    pool = list({gen_key(rng) for _ in range(rng.choice([3, 6, 10]))})
    ops = []
    for i in insts:
        if rng.random() < 0.85:
            gen_db(rng, i, nme, [k for k in pool if rng.random() < 0.6], ops)
    for r in range(rng.choice([2, 3, 4])):
        for i in (insts if rng.random() < 0.7 else rng.sample(insts, len(insts))):
            f = "%ssy%s%d" % (sid, i[-1], r)
            ops += ["dump %s %s" % (i, nme), "sync %s %s %s" % (i, nme, f), "dump %s %s" % (i, nme), "cat %s" % f]
            if rng.random() < 0.3:
                ops.append("put %s %s %s %s" % (i, nme, hx(rng.choice(pool)), hx(gen_value(rng, 2000))))
            elif rng.random() < 0.25:
                ops.append("drop %s %s" % (i, nme))     # the dictionary is lost; the next Synchronize finds the snapshots
    return ops


def scenario_lost(rng, sid):
    """an installation loses its dictionary after a Synchronize; the next Synchronize brings it back from the snapshots in the
    sync directory — its own, and a peer's when there is one"""
    a, b = sid + "A", sid + "B"
    nme = rng.choice(["d", "luna_pinyin"])
    pool = list({gen_key(rng) for _ in range(rng.choice([3, 5, 8]))})
    ops = []
    gen_db(rng, a, nme, pool[:max(1, len(pool) * 2 // 3)], ops)
    two = rng.random() < 0.5
    if two:
        gen_db(rng, b, nme, pool[len(pool) // 3:], ops)
    r = 0
    for i in ([a, b, a] if two else [a]):
        f = "%ssy%s%d" % (sid, i[-1], r)
        ops += ["dump %s %s" % (i, nme), "sync %s %s %s" % (i, nme, f), "dump %s %s" % (i, nme), "cat %s" % f]
        r += 1
    ops.append("drop %s %s" % (a, nme))
    for i in ([a, b] if two else [a, a]):
        f = "%ssy%s%d" % (sid, i[-1], r)
        ops += ["dump %s %s" % (i, nme), "sync %s %s %s" % (i, nme, f), "dump %s %s" % (i, nme), "cat %s" % f]
        r += 1
    return ops


def snapshot_text(rng, nme, keys, kind):
    """a snapshot file as another installation / version / accident may have left it"""
    lines = ["# Rime user dictionary"]
    if kind != "nometa":
        lines.append("#@/db_name\t" + (nme if kind != "othername" else "other") + rng.choice(["", ".userdb", ".userdb.kct"]))
        if kind != "notype":
            lines.append("#@/db_type\t" + ("userdb" if kind != "wrongtype" else "tabledb"))
        lines.append("#@/rime_version\t0.9.8")
        if rng.random() < 0.85:
            lines.append("#@/tick\t%d" % rng.choice([0, 7, 300, 5000, 10 ** 6]))
        lines.append("#@/user_id\t" + rng.choice(["peer-x", "unknown", ""]))
    if kind == "garbage":
        return "\x00\x01binary\tjunk\n\tc=1\n\n"
    for k in keys:
        code, text = k.decode().split("\t")
        v = gen_value(rng, 5000, 2 ** 31 - 2).decode()
        r = rng.random()
        if kind == "legacyrows" and r < 0.4:
            lines.append(rng.choice([code.rstrip(" ") + "\t" + text + "\t" + v, code + "\t" + text, code + "\t" + text + "\t",
                                     "# " + code, code + "\t" + text + "\t" + v + "\textra"]))
        else:
            lines.append(code + "\t" + text + "\t" + v)
    return "\n".join(lines) + "\n"


SNAP_KINDS = ["clean", "clean", "clean", "legacyrows", "notype", "wrongtype", "nometa", "othername", "garbage"]


def scenario_plant(rng, sid):
    """snapshots in the sync directory that no installation of this run wrote: other machines', old versions', damaged ones.
    Synchronize must merge every good one (whatever the bad ones are, wherever the iterator meets them) and back up;
    an interrupted earlier run may have left the scratch dictionary `.temp` behind"""
    sid = sid + "_"
    a, b = sid + "A", sid + "B"
    nme = rng.choice(["d", "luna_pinyin"])
    pool = list({gen_key(rng) for _ in range(rng.choice([3, 6, 9]))})
    ops = []
    gen_db(rng, a, nme, [k for k in pool if rng.random() < 0.6] or pool[:1], ops)
    if rng.random() < 0.5:
        gen_db(rng, b, nme, [k for k in pool if rng.random() < 0.5], ops)
        ops += ["dump %s %s" % (b, nme), "sync %s %s %ssb" % (b, nme, sid), "dump %s %s" % (b, nme), "cat %ssb" % sid]
    for q, peer in enumerate(rng.sample("CDEFGH", rng.choice([1, 2, 3]))):
        f = "%spf%d" % (sid, q)
        kind = rng.choice(SNAP_KINDS)
        ops += ["file %s %s" % (f, hx(snapshot_text(rng, nme, [k for k in pool if rng.random() < 0.6], kind))), "cat %s" % f,
                "plant %s %s%s %s" % (f, sid, peer, nme)]
    if rng.random() < 0.4:
        ops.append("put %s .temp %s %s" % (a, hx(gen_key(rng)), hx(gen_value(rng, 100))))
        if rng.random() < 0.5:
            ops.append("meta %s .temp %s %s" % (a, hx("/tick"), hx("999999")))
    for r in range(2):
        f = "%ssa%d" % (sid, r)
        ops += ["dump %s %s" % (a, nme), "sync %s %s %s" % (a, nme, f), "dump %s %s" % (a, nme), "cat %s" % f, "dump %s .temp" % a,
                "dump %s other" % a]
    # the same files merged one by one (with the stale scratch dictionary in the way)
    if rng.random() < 0.5:
        ops.append("put %s .temp %s %s" % (b, hx(gen_key(rng)), hx(gen_value(rng, 100))))
        ops += ["cat %spf0" % sid, "dump %s %s" % (b, nme), "merge %spf0 %s" % (sid, b), "dump %s %s" % (b, nme),
                "merge %spf0 %s" % (sid, b), "dump %s %s" % (b, nme), "dump %s .temp" % b]
    return ops


def scenario_upgrade(rng, sid):
    """an old-format (plain text) user dictionary found in the user data directory is converted: backed up in the uniform
    format, removed, and merged into the current dictionary of the name the file carries"""
    i = sid + "U"
    nme = rng.choice(["d", "luna_pinyin", "x.y"])
    pool = list({gen_key(rng) for _ in range(rng.choice([2, 5, 8]))})
    ops = []
    if rng.random() < 0.6:
        gen_db(rng, i, nme, [k for k in pool if rng.random() < 0.5], ops)
    kind = rng.choice(["clean", "clean", "clean", "legacyrows", "legacyrows", "notype", "wrongtype", "nometa", "othername"])
    f = sid + "lg"
    ops += ["file %s %s" % (f, hx(snapshot_text(rng, nme, [k for k in pool if rng.random() < 0.7], kind))),
            "legacy %s %s %s" % (f, i, nme), "lcat %s %s" % (i, nme)]
    if rng.random() < 0.3:
        ops.append("put %s .temp %s %s" % (i, hx(gen_key(rng)), hx(gen_value(rng, 100))))
    ops += ["dump %s %s" % (i, nme), "dump %s other" % i, "upgrade %s %s" % (i, nme), "dump %s %s" % (i, nme), "dump %s other" % i,
            "lcat %s %s" % (i, nme), "dump %s .temp" % i,
            "dump %s %s" % (i, nme), "dump %s other" % i, "upgrade %s %s" % (i, nme), "dump %s %s" % (i, nme), "dump %s other" % i,
            "upgrade %s nosuch" % i]
    return ops


def scenario_syncall(rng, sid):
    """installations with several user dictionaries synchronize all of them in one go"""
    sid = sid + "_"
    insts = [sid + ch for ch in "AB"]
    names = rng.sample(["d", "luna_pinyin", "q", "x.y"], rng.choice([2, 2, 3]))
    pool = list({gen_key(rng) for _ in range(rng.choice([4, 7]))})
    ops = []
    for i in insts:
        for nme in names:
            if rng.random() < 0.8:
                gen_db(rng, i, nme, [k for k in pool if rng.random() < 0.5], ops)
    if rng.random() < 0.4:
        f = sid + "pf"
        nme = rng.choice(names)
        ops += ["file %s %s" % (f, hx(snapshot_text(rng, nme, [k for k in pool if rng.random() < 0.6], rng.choice(SNAP_KINDS)))),
                "cat %s" % f, "plant %s %sC %s" % (f, sid, nme)]
    for r in range(rng.choice([2, 3])):
        for i in insts:
            dumps = ["dump %s %s" % (i, nme) for nme in names]
            ops += dumps + ["syncall %s" % i] + dumps
            if rng.random() < 0.3:
                ops.append("put %s %s %s %s" % (i, rng.choice(names), hx(rng.choice(pool)), hx(gen_value(rng, 2000))))
    return ops


def scenario_import_order(rng, sid):
    """text files whose rows mix, in every order, weights that count (positive, negative), rows without a weight column, with
    an empty one, with one that is no number, and zero: each row must be judged by its own columns, so the same rows in
    another order, imported into an equal dictionary, give the same counts"""
    nme = rng.choice(["d", "luna_pinyin"])
    keys = list({gen_key(rng) for _ in range(rng.choice([4, 6, 9]))})
    rows = []
    for k in keys:
        code, text = k.decode().split("\t")
        kind = rng.choice(["pos", "pos", "neg", "none", "none", "empty", "bad", "zero"])
        w = {"pos": str(rng.choice([1, 2, 5, 40, 65535, 2 ** 31 - 2])), "neg": str(-rng.choice([1, 3, 100])), "zero": "0",
             "bad": rng.choice(["abc", "-", "x1", "n/a", "c=5 d=1 t=2"])}.get(kind)
        rows.append("\t".join([text, code.strip()] + ([] if kind == "none" else ["" if kind == "empty" else w])))
    orders = [rows[:], rows[::-1]]
    sh = rows[:]
    rng.shuffle(sh)
    orders.append(sh)
    # weighted rows first / last
    heavy = sorted(rows, key=lambda r: 0 if re.search(r"\t-?[0-9]+$", r) else 1)
    orders += [heavy, heavy[::-1]]
    base = []
    gen_db(rng, "@@", nme, [k for k in keys if rng.random() < 0.4], base, cmax=2 ** 31 - 2)
    ops = []
    for q, order in enumerate(orders):
        i, f = "%sO%d" % (sid, q), "%sio%d" % (sid, q)
        ops += [o.replace(" @@ ", " %s " % i) for o in base]
        ops += ["file %s %s" % (f, hx("# Rime user dictionary export\n" + "\n".join(order) + "\n")), "cat %s" % f,
                "dump %s %s" % (i, nme), "import %s %s %s" % (i, nme, f), "dump %s %s" % (i, nme)]
    return ops


LENIENT_VALUES = ["", "c=5", "t=9", "c=abc d=1 t=2", "c=5x d=0.5y t=7z", "c=3 d= t=4", "c=1  d=2  t=3 ", "c=+4 d=+.5 t=+6",
                  "c=-0 d=-0 t=-1", "d=1e-320 c=2 t=3", "c=2 d=1e-320 t=3", "c=99999999999 d=1 t=1", "c=7 d=1e999 t=1",
                  "c=7 d=inf t=5", "c=7 d=nan t=5", "x=1 c=6", "c=6=7 d=1", "=5 c=1", "c= 5", "c=\r5 t=\v6", "t=18446744073709551615",
                  "t=18446744073709551616 c=1", "c=2147483646 d=20000 t=1", "c=1 c=2 c=-3", "c=5 d=0.1 t=3 garbage", "C=5 D=1 T=2",
                  "c=0x10 t=010", "c=5 d=1E2 t=1", "c=5 d=.e1 t=1", "c=5 d=5.e t=1"]


def scenario_lenient(rng, sid):
    """hand-made snapshot / text files exercising the leniency of the TSV reader, the row parsers and Unpack"""
    I, nme = "%sL" % sid, rng.choice(["d", "q"])
    ops, lines = [], ["# Rime user dictionary"]
    if rng.random() < 0.9:
        lines.append("#@/db_name\t" + nme + rng.choice(["", "", ".userdb", ".userdb.kct", ".userdb.txt"]))
    if rng.random() < 0.9:
        lines.append("#@/db_type\t" + rng.choice(["userdb"] * 8 + ["tabledb", ""]))
    if rng.random() < 0.8:
        lines.append("#@/tick\t" + rng.choice(["7", "120", "0", "abc", "-1", " 9", "5 5", str(U64 - 1), str(U64)]))
    if rng.random() < 0.5:
        lines.append("#@/user_id\t" + rng.choice(["peer", "x y", ""]))
    for _ in range(rng.randrange(0, 4)):
        lines.append(rng.choice(["#@novalue", "#@a\tb\tc", "# a comment", "#", "", "   ", "#@/tick\t33", "# no comment"]))
    for _ in range(rng.randrange(1, 9)):
        k = gen_key(rng).decode()
        code, text = k.split("\t")
        r = rng.random()
        if r < 0.15:
            code = code.rstrip(" ")
        elif r < 0.2:
            code = "#" + code
        v = rng.choice(LENIENT_VALUES) if rng.random() < 0.7 else gen_value(rng, 100, 2 ** 31 - 2).decode()
        row = rng.choice([[code, text, v]] * 6 + [[code, text], [code], [code, text, v, "extra"], ["", text, v], [code, "", v]])
        lines.append("\t".join(row) + rng.choice(["", "", "", " ", "\r", "\t"]))
        if rng.random() < 0.1:
            lines.append(rng.choice(["# no comment", "#late\tcomment\tc=1", ""]))
    content = "\n".join(lines) + rng.choice(["\n", "\n", ""])
    f = "%slf" % sid
    ops += ["file %s %s" % (f, hx(content)), "cat %s" % f]
    if rng.random() < 0.6:
        gen_db(rng, I, nme, [gen_key(rng) for _ in range(rng.randrange(0, 5))], ops, cmax=2 ** 31 - 2)
    for k in range(rng.randrange(0, 3)):   # stored values the merger has to Unpack leniently
        ops.append("put %s %s %s %s" % (I, nme, hx(gen_key(rng)), hx(rng.choice(LENIENT_VALUES))))
    ops += ["dump %s %s" % (I, nme), "merge %s %s" % (f, I), "dump %s %s" % (I, nme), "merge %s %s" % (f, I),
            "dump %s %s" % (I, nme), "dump %s r" % I, "restore %s %s r" % (f, I), "dump %s r" % I,
            "backup %s r %sb" % (I, sid), "cat %sb" % sid]
    # a text file for import
    tl = ["# Rime user dictionary export"]
    for _ in range(rng.randrange(1, 8)):
        k = gen_key(rng).decode()
        code, text = k.split("\t")
        w = rng.choice(["1", "5", "-3", "0", "", "abc", "+7", " 8", "2147483646", "-2147483647", "99999999999", "3.9", "-"])
        row = rng.choice([[text, code.strip(), w]] * 5 + [[text, code.strip()], [text, " " + code + " ", w], [text],
                                                        [text, " ", w], ["", code, w]])
        tl.append("\t".join(row))
    g = "%slt" % sid
    ops += ["file %s %s" % (g, hx("\n".join(tl) + "\n")), "cat %s" % g, "dump %s %s" % (I, nme),
            "import %s %s %s" % (I, nme, g), "dump %s %s" % (I, nme), "export %s %s %sx" % (I, nme, sid), "cat %sx" % sid,
            "export %s nosuch %sy" % (I, sid), "backup %s nosuch %sz" % (I, sid), "merge nosuchfile %s" % I]
    return ops


def scenario_random(rng, sid):
    """a random walk over all ops on three installations and a few files"""
    insts, nme = ["%sP" % sid, "%sQ" % sid, "%sR" % sid], "d"
    files = ["%sf%d" % (sid, k) for k in range(3)]
    pool = [gen_key(rng) for _ in range(6)]
    ops = []
    for i in insts[:2]:
        gen_db(rng, i, nme, [k for k in pool if rng.random() < 0.6], ops, cmax=2 ** 31 - 2)
    for _ in range(rng.randrange(8, 22)):
        i, f = rng.choice(insts), rng.choice(files)
        r = rng.random()
        if r < 0.2:
            ops.append("put %s %s %s %s" % (i, nme, hx(rng.choice(pool)), hx(gen_value(rng, 1000, 2 ** 31 - 2))))
        elif r < 0.27:
            ops.append("meta %s %s %s %s" % (i, nme, hx("/tick"), hx(str(rng.randrange(0, 3000)))))
        elif r < 0.45:
            ops += ["dump %s %s" % (i, nme), "backup %s %s %s" % (i, nme, f), "cat %s" % f]
        elif r < 0.75:
            m = "merge %s %s" % (f, i) if rng.random() < 0.7 else "pmerge %s %s %d" % (f, i, rng.choice([0, 255, 7]))
            ops += ["cat %s" % f, "dump %s %s" % (i, nme), m, "dump %s %s" % (i, nme), m, "dump %s %s" % (i, nme)]
        elif r < 0.85:
            ops += ["dump %s %s" % (i, nme), "export %s %s %s" % (i, nme, f), "cat %s" % f]
        else:
            ops += ["cat %s" % f, "dump %s %s" % (i, nme), "import %s %s %s" % (i, nme, f), "dump %s %s" % (i, nme)]
    return ops


def scenario_uninit(sid):
    """single-entry snapshot merged by a merger constructed over 0xFF bytes: an uninitialised counter reads -1"""
    A, B = "%sA" % sid, "%sB" % sid
    k = "ni hao \t你好"
    return ["put %s d %s %s" % (A, hx(k), hx("c=3 d=0.5 t=40")), "meta %s d %s %s" % (A, hx("/tick"), hx("50")),
            "put %s d %s %s" % (B, hx(k), hx("c=1 d=0.25 t=5")), "meta %s d %s %s" % (B, hx("/tick"), hx("9")),
            "dump %s d" % A, "backup %s d %ss" % (A, sid), "cat %ss" % sid,
            "dump %s d" % B, "pmerge %ss %s 255" % (sid, B), "dump %s d" % B]


# ------------------------------------------------------------------ running
def run_pair(c, exe, ops, tag, version, env=None, wrapper=None, timeout=3000):
    """run ops (with the version line first) on harness and driver -> (impl lines, model lines, rc, raw)"""
    ws = os.path.join(c.work, "ws_" + tag)
    shutil.rmtree(ws, ignore_errors=True)
    os.makedirs(ws)
    text = "version %s\n" % version + "".join(o + "\n" for o in ops)
    e = dict(vlib.SAN_ENV)
    if env:
        e.update(env)
    rc, out = vlib.sh((wrapper or []) + [exe, ws], env=e, input=text, timeout=timeout)
    shutil.rmtree(ws, ignore_errors=True)
    impl = out.splitlines()
    # `sync`: the order in which the directory iterator met the peers is the file system's; the driver is told
    mops = []
    for j, o in enumerate(ops):
        if o.startswith("sync "):
            m = re.search(r" order=(\S+)", impl[j + 1]) if j + 1 < len(impl) else None
            o = o + " " + (m.group(1) if m else "-")
        elif o.startswith("syncall "):
            m = re.search(r" names=(\S+) order=(\S+)", impl[j + 1]) if j + 1 < len(impl) else None
            o = o + " " + (m.group(1) if m else "-") + " " + (m.group(2) if m else "-")
        mops.append(o)
    mtext = "version %s\n" % version + "".join(o + "\n" for o in mops)
    model = vlib.run_driver("driver_c17", mtext).splitlines()
    return impl[1:len(ops) + 1], model[1:len(ops) + 1], rc, out


def first_disagreement(ops, impl, model, stats=None):
    for j, op in enumerate(ops):
        a = impl[j] if j < len(impl) else "<no output>"
        b = model[j] if j < len(model) else "<no output>"
        if not lines_agree(a, b, stats):
            return j, a, b
    return None


def evaluate(c, exe, ops, tag, version):
    """-> (set of failure kinds, details)"""
    impl, model, rc, raw = run_pair(c, exe, ops, tag, version)
    kinds, details = set(), {}
    if rc != 0 or len(impl) < len(ops):
        kinds.add("crash")
        details["crash"] = raw[-1500:]
        return kinds, details
    fails, _ = monitor(ops, impl)
    for cl, what, j in fails:
        kinds.add("O:" + cl)
        details.setdefault("O:" + cl, (what, j))
    d = first_disagreement(ops, impl, model)
    if d:
        kinds.add("K")
        details["K"] = d
    return kinds, details


def shrink(c, exe, ops, kind, version, budget=40):
    """greedy removal of ops while failure `kind` persists"""
    cur = list(ops)
    n = 0
    chunk = max(1, len(cur) // 4)
    while chunk >= 1 and n < budget:
        i, progress = 0, False
        while i < len(cur) and n < budget:
            cand = cur[:i] + cur[i + chunk:]
            n += 1
            try:
                kinds, _ = evaluate(c, exe, cand, "shr", version)
            except Exception:
                kinds = set()
            if kind in kinds:
                cur, progress = cand, True
            else:
                i += chunk
        if not progress:
            chunk //= 2
    return cur


def member_of_line(repo, path, line, members, n_uninit=0):
    """member named at a memcheck location; members[:n_uninit] are those the translator found uninitialised and win
    when the statement (the line and its neighbours) names them"""
    try:
        src = open(os.path.join(repo, path) if not os.path.isabs(path) else path, errors="replace").read().splitlines()
        txt = " ".join(src[max(0, line - 3):line + 1])
        for group in (members[:n_uninit], members[n_uninit:]):
            for m in group:
                if re.search(r"\b%s\b" % re.escape(m), src[line - 1]):
                    return m
            for m in group:
                if re.search(r"\b%s\b" % re.escape(m), txt):
                    return m
    except (OSError, IndexError):
        pass
    return None


RELEVANT = ("user_db.cc", "user_db.h", "user_dict_manager.cc", "tsv.cc", "db_utils.cc", "table_db.cc", "text_db.cc",
            "level_db.cc", "dynamics.h")


def valgrind_stage(c, version, members, n_uninit=0):
    """run merge / export / import on the plain build under memcheck; -> (list of findings, info)"""
    exe, bdir = vlib.build_harness("c17_harness", "plain", ["c17_harness.cc"])
    ops = []
    rng = c.rng.__class__(c.seed * 7919 + 17)
    ops += scenario_uninit("v0")
    for k in range(1 if c.tier == "quick" else 8):
        ops += scenario_pair(rng, "v1x%d" % k)
        ops += scenario_lenient(rng, "v2x%d" % k)
        ops += scenario_sync(rng, "v4x%d_" % k)
        if c.tier != "quick":
            ops += scenario_random(rng, "v3x%d" % k)
    ops = [o if not o.startswith("pmerge") else "merge " + " ".join(o.split(" ")[1:3]) for o in ops]
    log = os.path.join(c.work, "valgrind.log")
    t0 = time.time()
    impl, model, rc, raw = run_pair(c, exe, ops, "vg", version,
                                    wrapper=["valgrind", "--tool=memcheck", "--error-exitcode=77", "--track-origins=yes",
                                             "--undef-value-errors=yes", "--leak-check=no", "--num-callers=25", "-q",
                                             "--log-file=" + log], timeout=3000)
    txt = open(log, errors="replace").read() if os.path.exists(log) else ""
    info = {"ops": len(ops), "rc": rc, "wall_s": round(time.time() - t0, 1), "errors": 0, "irrelevant_errors": 0}
    finds = []
    blocks = re.split(r"\n==\d+== \n", "\n" + txt)
    for b in blocks:
        if not re.search(r"uninitialised|Uninitialised", b):
            continue
        frames = re.findall(r"(?:at|by) 0x[0-9A-F]+: (.+?) \((?:in )?([^():]+)(?::(\d+))?\)", b)
        head = b.strip().splitlines()[0] if b.strip() else ""
        hit = None
        for fn, f, ln in frames:
            if os.path.basename(f) in RELEVANT and ln:
                hit = (fn, f, int(ln))
                break
        if hit is None:
            info["irrelevant_errors"] += 1
            continue
        info["errors"] += 1
        rel = None
        for root in ("src/rime/dict", "src/rime/lever", "src/rime/algo"):
            if os.path.exists(os.path.join(vlib.REPO, root, os.path.basename(hit[1]))):
                rel = os.path.join(root, os.path.basename(hit[1]))
        m = member_of_line(vlib.REPO, rel, hit[2], members, n_uninit) if rel else None
        finds.append({"member": m, "function": hit[0], "file": rel or hit[1], "line": hit[2],
                      "valgrind": re.sub(r"==\d+== ", "", b.strip())[:1800], "head": re.sub(r"==\d+== ", "", head)})
    if rc not in (0, 77) or len(impl) < len(ops):
        info["crash"] = raw[-800:]
    return finds, info, ops


def run(c):
    quick = c.tier == "quick"
    n_pair, n_len, n_rand, n_sync = (90, 60, 40, 30) if quick else (2000, 1000, 800, 600)
    # G
    gen_lean = os.path.join(vlib.LEAN, "RimeModel", "Gen", "UserDbMembers.lean")
    gen_inc = os.path.join(vlib.ROOT, "harness", "gen", "c17_members.inc")
    rc, out = vlib.sh([sys.executable, os.path.join(vlib.ROOT, "gen", "c17_members.py"), vlib.REPO, gen_lean, gen_inc])
    if rc != 0:
        raise vlib.BuildError("translator c17_members failed: " + out[-2000:])
    gen = json.loads(out[out.index("{"):])
    uninit = [m for m in gen["members"] if not m["initialised"]]
    # members the translator found uninitialised first: a memcheck error on a line naming several members is theirs
    members = [m["name"] for m in uninit if not m["name"].startswith("<")] + \
              [m["name"] for m in gen["members"] if m["initialised"] and not m["name"].startswith("<")]
    # P
    audit = vlib.lean_audit("C17")
    audit_m = vlib.lean_audit("C17", mod="RimeModel.Props.C17Members")
    if not quick:
        for a, mod in ((audit, "RimeModel.Props.C17"), (audit_m, "RimeModel.Props.C17Members")):
            if a["ok"]:
                ok, log = vlib.leanchecker(mod)
                if not ok:
                    a["ok"] = False
                    a["failures"].append((mod, "leanchecker: " + log))
    rcd, outd = vlib.lake_build(["driver_c17"])
    if rcd != 0:
        raise vlib.BuildError("driver_c17 does not build: " + outd[-3000:])
    # B
    exe, bdir = vlib.build_harness("c17_harness", "san", ["c17_harness.cc"])
    rcv, ver = vlib.sh([exe, "--version"], env=vlib.SAN_ENV)
    version = ver.strip().splitlines()[-1] if rcv == 0 and ver.strip() else "-"
    # scenarios: corpus first, then the uninitialised-counter witness, then generated
    scen = []
    for p in sorted(glob.glob(os.path.join(vlib.CORPUS, "C17", "*.json"))):
        try:
            scen.append(("corpus:" + os.path.basename(p), json.load(open(p))["ops"]))
        except (OSError, ValueError, KeyError):
            pass
    scen.append(("uninit-witness", ["probe"] + scenario_uninit("u0")))
    for k in range(n_pair):
        scen.append(("pair%d" % k, scenario_pair(c.rng, "p%d" % k)))
    for k in range(n_len):
        scen.append(("lenient%d" % k, scenario_lenient(c.rng, "l%d" % k)))
    for k in range(n_rand):
        scen.append(("random%d" % k, scenario_random(c.rng, "r%d" % k)))
    for k in range(n_sync):
        scen.append(("sync%d" % k, scenario_sync(c.rng, "y%d_" % k)))
    for k in range(max(4, n_sync // 3)):
        scen.append(("lost%d" % k, scenario_lost(c.rng, "z%d_" % k)))
    for k in range(n_sync):
        scen.append(("plant%d" % k, scenario_plant(c.rng, "w%d" % k)))
        scen.append(("upgrade%d" % k, scenario_upgrade(c.rng, "g%d" % k)))
    for k in range(max(6, n_sync // 2)):
        scen.append(("syncall%d" % k, scenario_syncall(c.rng, "h%d" % k)))
    for k in range(n_sync):
        scen.append(("import-order%d" % k, scenario_import_order(c.rng, "i%d" % k)))
    # the scenarios are independent worlds: run them in parallel shards (the work is fsync-bound)
    from concurrent.futures import ThreadPoolExecutor
    K = 4 if quick else 6          # (the harness mostly waits for LevelDB's fsyncs: shards overlap the waiting)
    shards = [scen[i::K] for i in range(K)]

    def run_shard(idx):
        sops, spans = [], []
        for nm, ops in shards[idx]:
            spans.append((nm, len(sops), len(sops) + len(ops)))
            sops += ops
        impl, model, rc, raw = run_pair(c, exe, sops, "main%d" % idx, version)
        return sops, spans, impl, model, rc, raw

    t0 = time.time()
    with ThreadPoolExecutor(K) as ex:
        results = list(ex.map(run_shard, range(K)))
    t_run = time.time() - t0
    n_ops = sum(len(r[0]) for r in results)
    stats = {"dee_compared": 0, "dee_inexact": 0}
    counts = {"merge": 0, "merge_clean": 0, "idempotent": 0, "restore": 0, "import": 0, "sync": 0, "sync_snapshots": 0, "bare_rows": 0,
              "upgrade": 0, "upgrade_clean": 0, "syncall": 0,
              "import_rows_judged": 0, "import_mixed_files": 0, "import_order_pairs": 0}
    crashes, recs = [], []
    k_fail, o_fail, distinct, kinds = [], [], set(), {}
    for sops, spans, impl, model, rc, raw in results:
        if rc != 0 or len(impl) < len(sops):
            done = len(impl)
            nm, lo, hi = next(((a, b, d) for a, b, d in spans if b <= done < d), spans[-1])
            crashes.append((nm, sops[lo:hi], raw))
        for nm, lo, hi in spans:
            ops, im, mo = sops[lo:hi], impl[lo:hi], model[lo:hi]
            if len(im) < len(ops):
                break
            recs.append((nm, ops, im, mo))
    for nm, ops, im, mo in recs:
        fails, n = monitor(ops, im)
        for k in counts:
            counts[k] += n.get(k, 0)
        for cl, what, j in fails:
            o_fail.append((nm, cl, what, j, ops))
        d = first_disagreement(ops, im, mo, stats)
        if d:
            k_fail.append((nm, d, ops))
        for j, o in enumerate(ops):
            kd = o.split(" ")[0]
            kinds[kd] = kinds.get(kd, 0) + 1
            if kd in ("merge", "pmerge", "import", "restore", "sync") and j + 1 < len(ops) and im[j].startswith("ok"):
                distinct.add((kd, im[j - 1] if j else "", im[j + 1]))
    # model-side evaluation of the property (search on break)
    model_viol = []
    if (not audit["ok"]) or k_fail:
        for nm, ops, im, mo in recs:
            fails, _ = monitor(ops, mo)
            for cl, what, j in fails:
                model_viol.append({"scenario": nm, "clause": cl, "what": what})
    # ---- verdicts
    reported_uninit = set()
    seen_cl = set()
    for nm, cl, what, j, ops in o_fail:
        if cl in seen_cl:
            continue
        seen_cl.add(cl)
        small = shrink(c, exe, ops, "O:" + cl, version)
        kinds2, det = evaluate(c, exe, small, "fin", version)
        if "O:" + cl not in kinds2:
            small, det = ops, {"O:" + cl: (what, j)}
        what2 = det.get("O:" + cl, (what, j))[0]
        poisoned = [o for o in small if o.startswith("pmerge") and o.split(" ")[3] != "0"]
        if poisoned and uninit:
            # the clause fails only because a member the constructor leaves untouched keeps the poison
            unp = [o if not o.startswith("pmerge") else "pmerge %s %s 0" % tuple(o.split(" ")[1:3]) for o in small]
            k3, _ = evaluate(c, exe, unp, "unp", version)
            if "O:" + cl not in k3:
                for m in uninit:
                    reported_uninit.add(m["name"])
                    c.report("C17:uninit:%s" % m["name"],
                             "%s::%s is read before it is initialised (%s): with the object's storage pre-filled with 0x%02X the "
                             "merge breaks clause %s — %s" % (m["cls"], m["name"], ", ".join(m.get("read_in", [])) or "?",
                                                              int(poisoned[0].split(" ")[3]), cl, what2),
                             {"kind": "impl-violation", "clause": cl, "ops": small, "member": m, "detail": what2})
                continue
        c.report("C17:%s" % cl, "clause %s fails on the implementation: %s" % (cl, what2),
                 {"kind": "impl-violation", "clause": cl, "ops": small, "detail": what2, "scenario": nm})
    for nm, cops, raw in crashes[:1]:
        c.report("C17:sanitizer", "sanitizer abort / crash of the harness in scenario %s" % nm,
                 {"kind": "sanitizer", "ops": cops, "log": raw[-3000:]})
    # probe / translator agreement is part of K (the `probe` line); valgrind
    vg_finds, vg_info, vg_ops = ([], {"skipped": True}, [])
    try:
        vg_finds, vg_info, vg_ops = valgrind_stage(c, version, members, len([m for m in uninit if not m['name'].startswith('<')]))
    except FileNotFoundError:
        vg_info = {"skipped": "valgrind not installed"}
    for f in vg_finds:
        sig = "C17:uninit:%s" % (f["member"] or "%s:%d" % (os.path.basename(f["file"]), f["line"]))
        if f["member"] in reported_uninit:
            continue
        c.report(sig, "memcheck: %s in %s (%s:%d)%s" % (f["head"], f["function"], f["file"], f["line"],
                                                       " — member %s" % f["member"] if f["member"] else ""),
                 {"kind": "memcheck", "ops": vg_ops, "finding": f, "replay_mode": "valgrind"})
        reported_uninit.add(f["member"])
    if vg_info.get("crash"):
        c.report("C17:valgrind-run", "the harness did not complete under valgrind", {"kind": "memcheck", "log": vg_info["crash"],
                                                                                      "ops": vg_ops}, no_input=True)
    for m in uninit:
        if m["name"] not in reported_uninit and not m["name"].startswith("<"):
            c.report("C17:uninit:%s" % m["name"],
                     "%s::%s (%s) has no initialiser in the class, the constructor's init list or body (read in %s); no run "
                     "exhibited a wrong result" % (m["cls"], m["name"], m["type"], ", ".join(m.get("read_in", [])) or "?"),
                     {"kind": "translator", "member": m, "broken": "C17Members.all_members_initialised"}, no_input=True)
            reported_uninit.add(m["name"])
    if k_fail and not c.violations:
        nm, (j, a, b), ops = k_fail[0]
        small = shrink(c, exe, ops, "K", version)
        kinds2, det = evaluate(c, exe, small, "fin", version)
        if "K" in kinds2:
            j, a, b = det["K"]
        else:
            small = ops
        c.report("C17:correspondence:%s" % small[j].split(" ")[0],
                 "model and implementation disagree after `%s` (%d scenarios disagree)" % (small[j], len(k_fail)),
                 {"kind": "correspondence", "ops": small, "at": j, "impl": a, "model": b,
                  "broken": "correspondence driver_c17 vs c17_harness", "model_property_violations": model_viol[:5]},
                 no_input=True)
    for a, nm in ((audit, "C17:proof"), (audit_m, "C17:proof:members")):
        if not a["ok"] and not c.violations:
            c.report(nm, "proof obligation no longer checks: %s" % "; ".join("%s: %s" % f for f in a["failures"])[:600],
                     {"kind": "proof", "broken_theorems": a["failures"], "lean_log": a["log"][-3000:],
                      "model_property_violations": model_viol[:5]}, no_input=True)
    both = dict(audit)
    both["obligations"] = audit["obligations"] + audit_m["obligations"]
    both["discharged"] = audit["discharged"] + audit_m["discharged"]
    both["theorems"] = audit["theorems"] + audit_m["theorems"]
    both["axioms"] = dict(audit["axioms"], **audit_m["axioms"])
    cov = vlib.proof_cov(both, "lake build RimeModel.Props.C17 RimeModel.Props.C17Members && #print axioms (all theorems) && "
                         "forbidden-token scan" + ("" if quick else " && leanchecker"),
                         vlib.STD_TRUSTED + ["translator gen/c17_members.py", "valgrind 3.19 memcheck",
                                             "glibc strtol/strtoul/strtod, boost::split/trim, iostream formatting as modelled",
                                             "LevelDB (ordered iteration, Get/Put)"])
    sample_recs = [r for r in recs if r[0] in ("pair0", "lenient0", "sync0", "uninit-witness")][:4]
    cov.update({
        "evaluations": n_ops, "distinct_nontrivial": len(distinct),
        "rule": ("seeded scenarios over installations x named LevelDB user dictionaries: (pair) two dictionaries with overlapping / "
                 "disjoint keys, commits in {0, +-small, +-large, +-(2^31-1)}, arbitrary entry and db ticks (incl. 2^64-1 and gaps "
                 "that underflow dee), multi-syllable codes, UTF-8 texts: backup, plain restore into an empty dictionary, merge "
                 "twice (real UserDictManager::Restore or the same steps with the merger constructed in poisoned storage), merge "
                 "back, export, import; (lenient) hand-made snapshot and text files exercising reader / parser / Unpack leniency; "
                 "(random) random walks over all ops. evaluations = ops executed on both sides; non-trivial = a successful "
                 "merge / restore / import / synchronize; distinct by (op kind, dictionary before, dictionary after)"),
        "samples": [{"scenario": nm, "ops": ops[:14], "observations": [x[:400] for x in im[:14]]}
                    for nm, ops, im, mo in sample_recs],
        "scenarios": len(scen), "op_kind_distribution": kinds, "property_clause_evaluations": counts,
        "correspondence_mismatches": len(k_fail), "impl_monitor_failures": len(o_fail),
        "model_monitor_failures": len(model_viol), "dee_values_compared": stats["dee_compared"],
        "dee_values_not_bit_identical": stats["dee_inexact"], "harness_wall_s": round(t_run, 1),
        "generated_members": gen["members"], "independent_member_count": gen["independent_count"],
        "memcheck": vg_info, "memcheck_findings": [dict(f, valgrind=f["valgrind"][:400]) for f in vg_finds],
        "source_hash": vlib.source_hash(SRC_FILES), "proof_failures": audit["failures"] + audit_m["failures"],
    })
    c.cov = cov
    c.assumptions = ["keys are code<space><Tab>text with no tab/newline inside, code not starting with '#' or a control byte "
                     "(snapshot round-trip clause)",
                     "commit counts in (-2^31, 2^31): abs(INT_MIN) is the code's own UB",
                     "stored values are what UserDbValue::Pack writes (non-empty, no trailing blank) for the round-trip clause",
                     "dee operations form a lawful instance (strict total order, text output stable under output-input-output, "
                     "decay does not exceed the 10000 cap) — holds for finite non-NaN doubles",
                     "the snapshot and the target dictionary are not modified concurrently"]


def replay(c, r):
    ops = r.get("ops")
    if not ops:
        print("replay: this file names a broken obligation, no concrete input:", r.get("what"))
        return 1
    vlib.sh([sys.executable, os.path.join(vlib.ROOT, "gen", "c17_members.py"), vlib.REPO,
             os.path.join(vlib.LEAN, "RimeModel", "Gen", "UserDbMembers.lean"),
             os.path.join(vlib.ROOT, "harness", "gen", "c17_members.inc")])
    rcd, outd = vlib.lake_build(["driver_c17"])
    if rcd != 0:
        raise vlib.BuildError("driver_c17 does not build: " + outd[-3000:])
    if r.get("replay_mode") == "valgrind":
        gen_members, n_un = [], 0
        rc, out = vlib.sh([sys.executable, os.path.join(vlib.ROOT, "gen", "c17_members.py"), vlib.REPO,
                           os.path.join(vlib.LEAN, "RimeModel", "Gen", "UserDbMembers.lean")])
        if rc == 0:
            ms = json.loads(out[out.index("{"):])["members"]
            gen_members = [m["name"] for m in ms if not m["initialised"]] + [m["name"] for m in ms if m["initialised"]]
            n_un = len([m for m in ms if not m["initialised"]])
        exe, _ = vlib.build_harness("c17_harness", "plain", ["c17_harness.cc"])
        rcv, ver = vlib.sh([exe, "--version"])
        finds, info, _ = valgrind_stage(c, ver.strip().splitlines()[-1], gen_members, n_un)
        for f in finds:
            print("replay(valgrind): %s in %s (%s:%d) member=%s" % (f["head"], f["function"], f["file"], f["line"], f["member"]))
        print("replay(valgrind): %d uninitialised-value errors on the merge/export/import paths" % len(finds))
        return 1 if finds else 0
    exe, _ = vlib.build_harness("c17_harness", "san", ["c17_harness.cc"])
    rcv, ver = vlib.sh([exe, "--version"], env=vlib.SAN_ENV)
    version = ver.strip().splitlines()[-1]
    impl, model, rc, raw = run_pair(c, exe, ops, "replay", version)
    for o, a in zip(ops, impl):
        print("  %s\n    -> %s" % (o[:160], a[:300]))
    bad = 0
    if rc != 0 or len(impl) < len(ops):
        print("replay: harness aborted:\n" + raw[-1500:])
        bad = 1
    fails, _ = monitor(ops, impl)
    for cl, what, j in fails:
        print("replay: clause %s FAILS at op %d (%s): %s" % (cl, j, ops[j], what))
        bad = 1
    d = first_disagreement(ops, impl, model)
    if d:
        print("replay: model/implementation disagree at op %d (%s)\n  impl : %s\n  model: %s" % (d[0], ops[d[0]], d[1][:400], d[2][:400]))
        if r.get("kind") == "correspondence":
            bad = 1
    print("replay: %s" % ("reproduced" if bad else "not reproduced (passes now)"))
    return 1 if bad else 0
