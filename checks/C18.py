"""C18 — config trees survive save and load; getters read back what setters wrote."""
import os, sys, json, re, glob, struct, ctypes, itertools
import vlib

META = {
    "technique": ("Lean 4 theorems over a hand-written model of the config tree, key-path resolution, typed "
                  "getters/setters and of the YAML text SaveToStream writes / LoadFromStream reads (scalar-style "
                  "policy and flow depth regenerated from config_data.cc on every run) + byte-exact differential run "
                  "of the real rime::Config / C API config_* against the model under ASan/UBSan + direct save/load, "
                  "get-after-set, frame, conversion and aliasing monitors on the implementation"),
    "level": "proof",
    "level_text": ("Theorems in RimeModel/Props/C18.lean, for ALL trees / paths / values (structural and size induction, no "
                   "bounds): parse_emit — for every tree over the scalar domain (any shape and depth: block layout, flow layout "
                   "with yaml-cpp's indentation padding, null entries anywhere, all three scalar styles) loading the saved "
                   "document gives the tree with its null-valued entries removed; current_policy_total — under the EmitScalar of "
                   "the working tree the scalar domain is ALL text (no exclusion for line structure, control characters, leading "
                   "spaces, CR, or a root '...'); scalar_roundtrip_plain/dq/literal and unescape_escape; get_set (after a "
                   "successful Set at any key path, incl. @N/@next/@last/@before/@after and lenient spellings, reading the "
                   "location that was written returns the value), get_set_string/int/bool/double, set_frame (every diverging "
                   "location unchanged), insert_shift, set_fails_clean, set_preserves_wf, getInt_setInt for every 32-bit int, the "
                   "conversion table (getString∘setInt, getInt∘setString = lenient stoi, getBool case folding, failures leave the "
                   "out-parameter alone), and old_*_counterexample: the four defects of the pinned tree reproduced by the model "
                   "under the legacy policy.  The policy the theorems are instantiated with and the flow depth are re-extracted "
                   "from the working tree on every run; an unknown shape of EmitScalar/EmitYaml/SaveToStream fails closed."),
    "level_note": ("Round 2 (tied by the differential run and by direct monitors, theorems ref_get_set / ref_viv_read / is_flags_onehot / "
                   "iter_list_keys / iter_list_paths): Config::Is*, the C API iterators, config_update_signature, SetItem of a shared "
                   "sub-tree followed by a write below it, ConfigItemRef navigation (operator[] auto-vivifies its parent) with "
                   "To*/Is*/size/HasKey/assign/Append/Clear, ConfigList / ConfigMap methods on a node, Customizer::UpdateConfigFile = "
                   "SetItem of every patch entry + stamps + save; Save / modified / auto-save of the user-config component and "
                   "LoadFromFile of missing / broken / empty files on the implementation only.  "
                   "Outside the theorem: yaml-cpp 0.7 (emitter style decisions, escaping, literal blocks, block/flow layout and "
                   "indentation padding, ScanScalar's reading of literal blocks, Exp::Escape) is MODELLED from observed behaviour, "
                   "not verified; the tie is the byte-exact comparison of the model's document with SaveToStream and of the "
                   "model's parse with LoadFromStream on generated trees (all scalar classes x all layout positions, every string "
                   "over a 6-letter alphabet of the characters the block reader is sensitive to up to length 4/6), and of every "
                   "Set/Get through rime::Config and the C API.  'Equal tree' = equal after removing entries with null values "
                   "from maps AND lists (EmitYaml emits nothing for a null list element, so list indices shift on save).  Keys "
                   "longer than 1024 bytes or written in literal style (yaml-cpp's '? key' form) are covered on the "
                   "implementation only; keys > 1024 bytes are outside the formal reading (YAML's implicit-key limit; inside a "
                   "flow map yaml-cpp writes them unreadably).  'Text' = UTF-8 of Unicode scalar values other than non-characters "
                   "(yaml-cpp rewrites U+FDD0..FDEF and U+xxFFFE/F to U+FFFD in every style); multi-line text = ends in exactly "
                   "one LF with a non-empty body, CR LF pairs excluded; a lone CR is content.  libstdc++ stoi/strtoul/to_string "
                   "as modelled; std::stod / %f are parameters.  A behaviour-preserving rewrite of EmitScalar/EmitYaml itself is "
                   "reported (shape recognition fails closed).  Memory safety: sanitizers only."),
    "design_ref": "DESIGN.md §3 C18",
}

SRC_FILES = ["src/rime/config/config_data.cc", "src/rime/config/config_types.cc", "src/rime/config/config_component.cc",
             "src/rime/config/config_cow_ref.h", "src/rime/config/config_types.h", "src/rime_api_impl.h", "src/rime/signature.cc",
             "src/rime/lever/customizer.cc"]
GEN_OUT = os.path.join(vlib.LEAN, "RimeModel", "Gen", "C18Emit.lean")
GENERATOR_VERSION = 2
LF, CR = 10, 13


def hx(b):
    return b.hex() if b else "-"


def unhx(h):
    return b"" if h == "-" else bytes.fromhex(h)


# ----------------------------------------------------------------------------- trees
def tdump(t):
    if t is None:
        return "N"
    if isinstance(t, bytes):
        return "S" + hx(t) + ";"
    if isinstance(t, list):
        return "L[" + ",".join(tdump(x) for x in t) + "]"
    return "M{" + ",".join(hx(k) + "=" + tdump(v) for k, v in sorted(t.items())) + "}"


def tundump(s):
    def go(i):
        c = s[i]
        if c == "N":
            return None, i + 1
        if c == "S":
            e = s.index(";", i)
            return unhx(s[i + 1:e]), e + 1
        if c == "L":
            assert s[i + 1] == "["
            i += 2
            out = []
            if s[i] == "]":
                return out, i + 1
            while True:
                x, i = go(i)
                out.append(x)
                if s[i] == "]":
                    return out, i + 1
                assert s[i] == ","
                i += 1
        if c == "M":
            assert s[i + 1] == "{"
            i += 2
            out = {}
            if s[i] == "}":
                return out, i + 1
            while True:
                e = s.index("=", i)
                k = unhx(s[i:e])
                x, i = go(e + 1)
                out[k] = x
                if s[i] == "}":
                    return out, i + 1
                assert s[i] == ","
                i += 1
        raise ValueError("bad dump at %d" % i)
    t, i = go(0)
    assert i == len(s)
    return t


def norm(t):
    """the comparison of the property: entries with null values aside (EmitYaml skips them in maps and lists)"""
    if isinstance(t, list):
        return [norm(x) for x in t if x is not None]
    if isinstance(t, dict):
        return {k: norm(v) for k, v in t.items() if v is not None}
    return t


def scalars_of(t, keys=True):
    if isinstance(t, bytes):
        yield t
    elif isinstance(t, list):
        for x in t:
            yield from scalars_of(x, keys)
    elif isinstance(t, dict):
        for k, v in t.items():
            if keys:
                yield k
            yield from scalars_of(v, keys)


def tree_size(t):
    if isinstance(t, bytes):
        return 1 + len(t)
    if isinstance(t, list):
        return 1 + sum(tree_size(x) for x in t)
    if isinstance(t, dict):
        return 1 + sum(1 + len(k) + tree_size(v) for k, v in t.items())
    return 1


def depth_of(t):
    if isinstance(t, list):
        return 1 + max([depth_of(x) for x in t] + [0])
    if isinstance(t, dict):
        return 1 + max([depth_of(x) for x in t.values()] + [0])
    return 0


# ----------------------------------------------------------------------------- the property's scalar domain
def is_nonchar(cp):
    return (cp & 0xFFFE) == 0xFFFE or 0xFDD0 <= cp <= 0xFDEF


def is_text(b):
    try:
        u = b.decode("utf-8")
    except UnicodeDecodeError:
        return False
    return not any(is_nonchar(ord(ch)) for ch in u)


def in_domain(b):
    """DESIGN §3 C18 formal reading: text; multi-line only as body+LF (body non-empty, not ending in LF); no CR LF pair"""
    if not is_text(b):
        return False
    if b"\r\n" in b:
        return False
    if b"\n" in b:
        return len(b) >= 2 and b[-1] == LF and b[-2] != LF
    return True


def keys_of(t):
    if isinstance(t, list):
        for x in t:
            yield from keys_of(x)
    elif isinstance(t, dict):
        for k, v in t.items():
            yield k
            yield from keys_of(v)


def tree_in_domain(t):
    """scalars and keys are in-domain text; keys are at most 1024 bytes (YAML's limit for an implicit key: beyond it
    yaml-cpp switches to the '? key' form, which it writes unreadably inside flow maps — observed, outside the reading)"""
    return all(in_domain(s) for s in scalars_of(t)) and all(len(k) <= 1024 for k in keys_of(t))


def first_nonempty_line(b):
    for l in b.split(b"\n"):
        if l:
            return l
    return b""


def defect_class(s, at_root):
    """canonical clause for the signature, from the minimal failing scalar"""
    if b"\r" in s:
        return "literal-block-cr"
    if b"\n" in s and (0 in s or 4 in s):
        return "literal-block-control-char"
    if b"\n" in s and first_nonempty_line(s).startswith(b" "):
        return "literal-block-leading-space"
    if at_root and s == b"...":
        return "root-plain-document-end-marker"
    return "other"


# ----------------------------------------------------------------------------- generators
WORDS = [b"~", b"null", b"Null", b"NULL", b"nuLL", b"true", b"True", b"false", b"no", b"yes", b"on", b"off", b"1e3", b"0x1f",
         b"0o17", b"017", b"123", b"-1", b"+5", b"1.5", b".5", b".inf", b".nan", b"...", b"....", b".", b"---", b"--", b"_",
         b"a.b_c", b"2024-01-01", b"12:30:00", b"<<", b"=", b"y", b"n", b"0", b"00", b"1_000"]
LEADS = [b"-", b"?", b":", b"#", b"&", b"*", b"!", b"|", b">", b"'", b'"', b"%", b"@", b"`", b",", b"[", b"]", b"{", b"}",
         b" ", b"\t"]
UNI = ["\u00e9", "\u00a0", "\u0085", "\u0080", "\u009f", "\u00a1", "\u07ff", "\u0800", "\u2028", "\u2029", "\ufeff", "\ufffd",
       "\u4e2d", "\u6587", "\ud7ff", "\ue000", "\ufdcf", "\ufdf0", "\uffdc", "\U00010000", "\U0001f600", "\U0010fffd",
       "\U0002a6d6"]
NONCHARS = ["\ufdd0", "\ufdef", "\ufffe", "\uffff", "\U0001fffe", "\U0010ffff"]


def rand_word(rng, n=None):
    n = rng.randrange(1, 9) if n is None else n
    return bytes(rng.choice(b"abcdefghijklmnopqrstuvwxyzABCXYZ0123456789_.") for _ in range(n))


def rand_line(rng):
    """one line of text without line breaks"""
    r = rng.random()
    if r < 0.25:
        return rand_word(rng)
    if r < 0.4:
        return b" ".join(rand_word(rng) for _ in range(rng.randrange(1, 4)))
    if r < 0.5:
        return rng.choice(LEADS) + rng.choice([b"", b" ", b"x", b" x"])
    if r < 0.58:
        return rand_word(rng) + rng.choice([b": ", b" #", b":", b"#", b" : ", b", ", b"- ", b": x", b" #x"]) + rng.choice([b"", rand_word(rng)])
    if r < 0.66:
        return rng.choice([b" ", b"  ", b"\t", b" \t"]) + rand_word(rng)
    if r < 0.72:
        return rand_word(rng) + rng.choice([b" ", b"  ", b"\t"])
    if r < 0.8:
        return b"".join(rng.choice([rand_word(rng, 2), b'"', b"'", b"\\", b"\\n", b'\\"', b"\\x41", b"''"]) for _ in range(rng.randrange(1, 5)))
    if r < 0.9:
        return b"".join(rng.choice([rand_word(rng, 2), rng.choice(UNI).encode("utf-8")]) for _ in range(rng.randrange(1, 5)))
    if r < 0.96:
        return b"".join(rng.choice([rand_word(rng, 1), bytes([rng.choice([0, 1, 4, 7, 8, 9, 11, 12, 14, 27, 31, 127])])])
                        for _ in range(rng.randrange(1, 4)))
    return rng.choice(WORDS)


def rand_scalar(rng):
    """-> (bytes, class name)"""
    r = rng.random()
    if r < 0.04:
        return b"", "empty"
    if r < 0.14:
        return rng.choice(WORDS), "special-word"
    if r < 0.22:
        return rng.choice(LEADS) + rng.choice([b"", b" ", b"x", b" x", rand_word(rng)]), "leading-indicator"
    if r < 0.50:
        return rand_line(rng), "single-line"
    if r < 0.56:
        return rng.choice(UNI).encode("utf-8") * rng.randrange(1, 3) + rng.choice([b"", rand_word(rng)]), "unicode"
    if r < 0.60:
        return bytes([rng.randrange(0, 32)]) + rng.choice([b"", rand_word(rng, 2)]), "control"
    if r < 0.80:
        # multi-line text ending in exactly one LF (in the domain)
        n = rng.randrange(1, 5)
        lines = []
        for i in range(n):
            q = rng.random()
            if q < 0.15 and i < n - 1:
                lines.append(b"")
            elif q < 0.25 and i < n - 1:
                lines.append(b" " * rng.randrange(1, 4))
            else:
                lines.append(rand_line(rng))
        while lines and lines[-1] == b"":
            lines.pop()
        if not lines:
            lines = [b"x"]
        return b"\n".join(lines) + b"\n", "multi-line"
    if r < 0.84:
        # lone CR as content
        return rng.choice([b"\r", b"a\rb", b"\ra", b"a\r", b"a\rb\nc\n", b" \r"]) if rng.random() < 0.5 else \
            rand_word(rng, 2) + b"\r" + rand_word(rng, 2), "lone-cr"
    if r < 0.90:
        # outside the domain: other line-break shapes (correspondence only)
        return rng.choice([b"a\nb", b"a\n\n", b"\n", b"\n\n", b"a\r\nb\n", b"a\r\n", b"\r\n", b"a\nb\n\n", b"\na", b" a\nb",
                           rand_word(rng) + b"\n" + rand_word(rng)]), "out-linebreaks"
    if r < 0.94:
        # outside the domain: not text
        return rng.choice([b"\xff", b"\xc0\x80", b"\xe4\xb8", b"a\x80b", b"\xed\xa0\x80", b"\xf4\x90\x80\x80", b"\xc2\n\x80\n",
                           rng.choice(NONCHARS).encode("utf-8", "surrogatepass"), b"\xf8\x88\x80\x80\x80",
                           bytes(rng.randrange(128, 256) for _ in range(rng.randrange(1, 4)))]), "out-not-text"
    if r < 0.97:
        return rand_word(rng, rng.choice([30, 80, 200, 1030])), "long"
    return bytes(rng.randrange(0, 128) for _ in range(rng.randrange(1, 6))), "random-ascii"


def rand_key(rng):
    """-> (bytes, modelled-by-the-layout-model?)"""
    r = rng.random()
    if r < 0.6:
        return rand_word(rng, rng.randrange(1, 5)), True
    if r < 0.7:
        return rng.choice(WORDS + [b""]), True
    if r < 0.8:
        return rng.choice(LEADS) + rng.choice([b"", b"k", b" k"]), True
    if r < 0.9:
        k = rand_line(rng)
        return k, True
    if r < 0.93:
        return rng.choice([b"@1", b"@next", b"a/b", b"/", b"@last", b"@x"]), True
    if r < 0.96:
        return rng.choice(UNI).encode("utf-8") + rand_word(rng, 1), True
    if r < 0.98:
        return rand_word(rng, 2) + b"\n" + rand_word(rng, 2) + b"\n", False      # literal key: '? |' form
    return rand_word(rng, rng.choice([1024, 1025, 1100])), False                     # long key: '? key' form


def rand_tree(rng, depth, allow_exotic_keys=False):
    r = rng.random()
    if depth <= 0 or r < 0.35:
        if rng.random() < 0.06:
            return None
        return rand_scalar(rng)[0]
    if r < 0.68:
        return [rand_tree(rng, depth - 1, allow_exotic_keys) for _ in range(rng.choice([0, 1, 1, 2, 2, 3, 4]))]
    out = {}
    for _ in range(rng.choice([0, 1, 1, 2, 2, 3, 4])):
        k, modelled = rand_key(rng)
        if not modelled and not allow_exotic_keys:
            k = rand_word(rng, 2)
        out[k] = rand_tree(rng, depth - 1, allow_exotic_keys)
    return out


# systematic part: every scalar class in every context, so that a defect class is found at every seed
SYSTEMATIC_SCALARS = (
    [b"", b"a", b"abc", b"a b", b" a", b"a ", b"a: b", b"a #b", b"#a", b"- a", b"-", b"?", b":", b"a:", b":a", b"'", b'"', b"\\",
     b"\t", b"a\tb", b"\x00", b"\x01", b"\x04", b"\x07", b"\x08", b"\x0b", b"\x0c", b"\x1b", b"\x1f", b"\x7f", b"a\x00b",
     b"a\x04b", b"\\n", b'a"b', b"a'b", b"a\\b", b"{a}", b"[a]", b"a,b", b"a, b", b"&a", b"*a", b"!a", b"|", b">", b"%a", b"@a",
     b"`a", b"null", b"Null", b"NULL", b"~", b"true", b"no", b"1e3", b"0x1f", b"...", b"....", b"..", b".", b"---",
     b"... a", b"... ", b"...\ta", b"--- a", b"--- ", b"...a", b"---a", b"a ...", b"a ---",    # document markers followed by a blank
     b"a  b", b"a b c", b"- a b", b"? a", b": a", b"a :", b"a #", b"a b: c", b"a b #c",
     "\u00e9".encode(), "\u0080".encode(), "\u0085".encode(), "\u00a0".encode(), "\u00a1".encode(), "\u2028".encode(),
     "\u2029".encode(), "\ufeff".encode(), "a\ufeffb".encode(), "\ufffd".encode(), "\u4e2d\u6587".encode(),
     "\U0001f600".encode(), "\U0010fffd".encode(), "\ud7ff".encode(), "\ue000".encode(),
     # multi-line, in the domain
     b"a\n", b"a\nb\n", b"a\n\nb\n", b"\na\n", b"\n\na\n", b"a\n b\n", b"a\n  \nb\n", b"a \nb\n", b"a\n\tb\n", b"\ta\nb\n",
     b"#a\nb\n", b"- a\n- b\n", b"a: b\nc: d\n", b"a\n...\n", b"---\na\n", b'"a"\nb\n', b"a\\n\nb\n", b"a\n \n", b"|\na\n",
     "\u4e2d\n\u6587\n".encode(), "a\u00a0b\nc\n".encode(), "\ufeffa\nb\n".encode(), "a\u0085b\nc\n".encode(), b"a\x01b\nc\n",
     b"a\x7fb\nc\n", b"a\x1bb\nc\n",
     b" a\n", b" a\nb\n", b"  a\n  b\n", b"\n a\n", b" \na\n", b"  \na\n", b" \n \n",            # first non-empty line starts with a space
     b"a\x00b\nc\n", b"a\x04b\nc\n", b"\x00\n", b"\x04\n",                                        # NUL / EOT in a block
     b"\r", b"a\rb", b"a\r", b"\ra", b"a\rb\nc\n", b"\r\r",                                      # lone CR
     # outside the domain (correspondence only)
     b"a\nb", b"a\n\n", b"\n", b"\n\n", b"a\r\nb\n", b"\r\n", b"a\r\n", b"\xff", b"\xc0\x80", b"a\xe4\xb8", b"\xed\xa0\x80",
     "\ufffe".encode(), "\uffff".encode(), "\ufdd0".encode(), "\U0010ffff".encode(), b"a\n\xff\n"])


def contexts(s):
    """a scalar in every position the layout distinguishes; siblings follow so that block scalars are not last"""
    z = b"z"
    return [("root", s), ("map-value", {b"k": s, b"z": z}), ("map-last", {b"k": s}), ("list-item", [s, z]), ("list-last", [z, s]),
            ("depth2", {b"k": [{b"q": s, b"z": z}]}), ("depth2-list", [[s, z], z]), ("flow", {b"a": {b"b": {b"c": [s, {b"d": s}]}}}),
            ("flow-list", [[[[s], s]]]), ("key", {s: z, b"zz": z}), ("key-nested", [{s: z}]), ("key-flow", [[[{s: z}]]])]


# ----------------------------------------------------------------------------- paths
LENIENT_SMALL = [b"@next 2", b"@nextlast", b"@before", b"@after", b"@before1", b"@after  1", b"@last2", b"@lastx", b"@1x", b"@01", b"@ 1",
                 b"@x", b"@+2", b"@-0", b"@after -1", b"@before +1", b"@\t1", b"@1 ", b"@0x2", b"@9a", b"@A", b"@z9", b"@beforelast",
                 b"@afterlast", b"@before  last", b"@next last", b"@@1", b"@", b"@1\x002", b"@4294967296", b"@4294967297",
                 b"@after 4294967295", b"@before\n2", b"@after\x0b1", b"@ +3"]
# indices near 2^32: a write would resize the vector to gigabytes, so these are only read
LENIENT_HUGE = [b"@-1", b"@-1x", b"@18446744073709551617", b"@4294967295", b"@99999999", b"@before -1", b"@18446744073709551615",
                b"@after 4294967293", b"@-4294967297", b"@next -1"]


def rand_path_key(rng, for_write=True):
    r = rng.random()
    if r < 0.55:
        return rng.choice([b"a", b"b", b"c", b"key", b"x1", b"list", b"m"])
    if r < 0.63:
        return b"@%d" % rng.choice([0, 0, 1, 1, 2, 3, 5])
    if r < 0.70:
        return b"@next"
    if r < 0.75:
        return b"@last"
    if r < 0.81:
        return rng.choice([b"@before %d", b"@after %d"]) % rng.choice([0, 0, 1, 2, 4])
    if r < 0.85:
        return rng.choice([b"@before last", b"@after last"])
    if r < 0.92:
        # lenient / odd spellings (correspondence only)
        return rng.choice(LENIENT_SMALL if (for_write or rng.random() < 0.6) else LENIENT_HUGE)
    if r < 0.96:
        return rng.choice([b"", b" ", b"a b", b"~", b"null", b".", b"@", b"@@", b"@-", "\u4e2d".encode(), b"k\x00z"])
    return rand_word(rng, rng.randrange(1, 4))


def rand_listref(rng, for_write=True):
    r = rng.random()
    if r < 0.30:
        return b"@%d" % rng.choice([0, 0, 1, 1, 2, 3, 5])
    if r < 0.45:
        return b"@next"
    if r < 0.55:
        return b"@last"
    if r < 0.72:
        return rng.choice([b"@before %d", b"@after %d"]) % rng.choice([0, 0, 1, 2, 4])
    if r < 0.82:
        return rng.choice([b"@before last", b"@after last"])
    return rng.choice(LENIENT_SMALL if (for_write or rng.random() < 0.6) else LENIENT_HUGE)


def rand_path(rng, for_write=True):
    """mostly well-typed paths over a small vocabulary whose first letter says what lives there (m* maps, l* lists,
    anything else scalars), so that writes usually pass the type check and build deep structures; 20% noise"""
    n = rng.choice([0, 1, 1, 2, 2, 2, 3, 3, 4, 5])
    keys, kind, holds = [], "m", "s"
    for i in range(n):
        if rng.random() < 0.2:
            k = rand_path_key(rng, for_write)
        elif kind == "l":
            k = rand_listref(rng, for_write)
        else:
            k = rng.choice([b"m", b"m2", b"l", b"l2", b"l3", b"a", b"b", b"key", b"x1"])
        keys.append(k)
        if is_listref(k) or kind == "l":
            kind = holds                                  # l holds scalars, l2 maps, l3 lists of scalars
            holds = "s"
        else:
            kind = "m" if k[:1] == b"m" else "l" if k[:1] == b"l" else "s"
            holds = {b"l": "s", b"l2": "m", b"l3": "l"}.get(k, "s")
        if kind == "s" and rng.random() < 0.85:
            break
    p = b"/".join(keys)
    r = rng.random()
    if r < 0.06:
        p = b"/" + p
    elif r < 0.09:
        p = b"//" + p
    elif r < 0.12:
        p = p + b"/"
    elif r < 0.15 and b"/" in p:
        p = p.replace(b"/", b"//", 1)
    return p


CANON = re.compile(rb"@(\d{1,3}|next|last|before \d{1,3}|after \d{1,3}|before last|after last)\Z")


def canon_steps(path):
    """key path -> list of keys if every key has a documented, canonical form (else None)"""
    if path in (b"", b"/"):
        return []
    keys = path.lstrip(b"/").split(b"/")
    out = []
    for k in keys:
        if k == b"":
            return None
        if len(k) > 1 and k[:1] == b"@" and (chr(k[1]).isalnum() and k[1] < 128):
            if not CANON.match(k):
                return None
            if re.match(rb"@0\d", k) or re.search(rb" 0\d", k):
                return None
        if b"\0" in k:
            return None
        out.append(k)
    return out


def resolve_canon(key, size):
    """documented meaning of a canonical list reference on a list of `size` elements -> (index, inserts)"""
    w = key[1:]
    if w == b"next":
        return size, False
    if w == b"last":
        return (size - 1 if size else 0), False
    if w == b"before last":
        return (size - 1 if size else 0), True
    if w == b"after last":
        return size, True     # behind the last element; 0 on an empty list
    if w.startswith(b"before "):
        return int(w[7:]), True
    if w.startswith(b"after "):
        return int(w[6:]) + 1, True
    return int(w), False


def is_listref(k):
    return len(k) > 1 and k[:1] == b"@" and k[1] < 128 and chr(k[1]).isalnum()


# ----------------------------------------------------------------------------- implementation / model access
class Impl:
    """the real librime through harness/c18_harness (ASan+UBSan build of the working tree)"""

    def __init__(self, c):
        self.c = c
        self.exe, self.bdir = vlib.build_harness("c18_harness", "san", ["c18_harness.cc"])
        self.n = 0
        self.evaluations = 0
        self.san_logs = []

    def run(self, ops):
        """-> (rc, outputs, log).  len(outputs) < len(ops) iff the process died at op len(outputs)."""
        self.n += 1
        fin = os.path.join(self.c.work, "ops_%d.txt" % self.n)
        fout = os.path.join(self.c.work, "out_%d.txt" % self.n)
        with open(fin, "w") as f:
            f.write("".join(o + "\n" for o in ops))
        rc, log = vlib.sh([self.exe, fin, fout], env=vlib.SAN_ENV, timeout=3000)
        try:
            outs = open(fout).read().split("\n")
            if outs and outs[-1] == "":
                outs.pop()
            else:
                outs = outs[:-1]
        except OSError:
            outs = []
        for p in (fin, fout):
            try:
                os.unlink(p)
            except OSError:
                pass
        self.evaluations += len(outs)
        if rc != 0:
            self.san_logs.append(log[-3000:])
        return rc, outs, log

    def roundtrip(self, trees):
        """save/load each tree on the implementation -> list of (doc bytes|None, loaded?, tree dump or None)"""
        ops = []
        for t in trees:
            ops += ["new cpp", "raw " + tdump(t), "emit", "rt"]
        rc, outs, log = self.run(ops)
        res = []
        for i in range(len(trees)):
            o = outs[4 * i:4 * i + 4]
            if len(o) < 4:
                res.append((None, False, None))
                continue
            m = re.match(r"emit ok=(\d) doc=(\S+)", o[2])
            doc = unhx(m.group(2)) if m and m.group(1) == "1" else None
            m = re.match(r"rt save=(\d) load=(\d) tree=(\S+)", o[3])
            if m and m.group(1) == "1" and m.group(2) == "1":
                res.append((doc, True, m.group(3)))
            else:
                res.append((doc, False, None))
        return res


def model_run(ops, policy=None):
    out = vlib.run_driver("driver_c18", "".join(o + "\n" for o in ops), args=([policy] if policy else []))
    return out.split("\n")[:-1]


def rt_fails(t, res):
    """the save/load clause on the implementation's own output"""
    doc, loaded, dumped = res
    return (not loaded) or dumped != tdump(norm(t))


# ----------------------------------------------------------------------------- strtod (the model's parameter)
_libc = ctypes.CDLL(None, use_errno=True)
_libc.strtod.restype = ctypes.c_double
_libc.strtod.argtypes = [ctypes.c_char_p, ctypes.POINTER(ctypes.c_char_p)]


def stod(b):
    """std::stod on the bytes up to the first NUL -> 16-hex-digit bit pattern, or None where it throws"""
    cs = b.split(b"\0")[0]
    buf = ctypes.create_string_buffer(cs)
    end = ctypes.c_char_p()
    ctypes.set_errno(0)
    v = _libc.strtod(buf, ctypes.byref(end))
    consumed = ctypes.cast(end, ctypes.c_void_p).value - ctypes.addressof(buf)
    if consumed == 0 or ctypes.get_errno() == 34:
        return None
    return "%016x" % struct.unpack("<Q", struct.pack("<d", v))[0]


def doc_get_bool(s):
    """the documented reading of a value as bool: 'true' / 'false' in any ASCII case -> True/False, else None"""
    l = bytes(c + 32 if 65 <= c <= 90 else c for c in s)
    return True if l == b"true" else False if l == b"false" else None


def doc_get_int(s):
    """the documented reading of a value as int: 0x-prefixed hex digits (32-bit pattern), else lenient decimal
    (white space, sign, digits, anything) within int range; None where the getter returns false"""
    if not s:
        return None
    c = s.split(b"\0")[0]
    if s.startswith(b"0x"):
        m = re.fullmatch(rb"0x([0-9a-fA-F]+)", c)
        if m:
            v = min(int(m.group(1), 16), 2 ** 64 - 1) & 0xffffffff
            return v - 2 ** 32 if v >= 2 ** 31 else v
    m = re.match(rb"[ \t\n\x0b\x0c\r]*([+-]?)([0-9]+)", c)
    if not m:
        return None
    v = int(m.group(2)) * (-1 if m.group(1) == b"-" else 1)
    return v if -2 ** 31 <= v < 2 ** 31 else None


def fmt_f(d):
    return ("%f" % d).encode()


def dbits(d):
    return "%016x" % struct.unpack("<Q", struct.pack("<d", d))[0]


# ----------------------------------------------------------------------------- path-op cases
def rand_value(rng):
    """-> (type letter, op suffix, expected scalar text or container)"""
    r = rng.random()
    if r < 0.35:
        s = rand_scalar(rng)[0]
        return "s", "s " + hx(s), s
    if r < 0.55:
        i = rng.choice([0, 1, -1, 7, 42, 2147483647, -2147483648, rng.randrange(-2 ** 31, 2 ** 31), rng.randrange(-1000, 1000)])
        return "i", "i %d" % i, b"%d" % i
    if r < 0.67:
        b = rng.random() < 0.5
        return "b", "b %d" % b, b"true" if b else b"false"
    if r < 0.77:
        d = rng.choice([0.0, 1.5, -2.25, 1e-7, 123456.789, 1e300, -1e-300, 0.1, 3.0, rng.uniform(-1000, 1000), float(rng.randrange(-50, 50))])
        return "d", "d %s %s" % (dbits(d), hx(fmt_f(d))), fmt_f(d)
    if r < 0.85:
        return "list", "list", []
    if r < 0.93:
        return "map", "map", {}
    return "null", "null", None


def nav_read(t, key):
    """read one canonical step in a dumped tree (python's own reading of the documented meaning)"""
    if is_listref(key):
        if not isinstance(t, list):
            return None
        i, _ = resolve_canon(key, len(t))
        return t[i] if i < len(t) else None
    if not isinstance(t, dict):
        return None
    return t.get(key)


class SetGroup:
    """dump / set / dump / get — one write with everything O needs around it"""

    def __init__(self, path, ty, suffix, item):
        self.path, self.ty, self.suffix, self.item = path, ty, suffix, item

    def ops(self):
        o = ["dump", "set %s %s" % (hx(self.path), self.suffix), "dump"]
        return o

    def n(self):
        return 3


def frame_check(before, after, keys, item):
    """the property on two dumps of the implementation: value readable at the written location, every unrelated
    location unchanged (shifted behind an insertion).  Only for canonical paths whose inserting keys are last.
    -> (clause or None, written location as canonical read-back path or None)"""
    b, a = before, after
    loc = []
    for j, k in enumerate(keys):
        last = j == len(keys) - 1
        if is_listref(k):
            bl = b if isinstance(b, list) else []
            if b is not None and not isinstance(b, list):
                return "type-clash-accepted", None
            if not isinstance(a, list):
                return "written-location-not-a-list", None
            i, ins = resolve_canon(k, len(bl))
            if ins and not last:
                return None, None            # quirk territory: correspondence only
            if ins:
                want_len = max(len(bl), i) + 1
                if len(a) != want_len:
                    return "list-size-after-insert", None
                for x in range(want_len):
                    if x == i:
                        continue
                    src = x if x < i else x - 1
                    if a[x] != (bl[src] if src < len(bl) else None):
                        return "insert-shift", None
            else:
                want_len = max(len(bl), i + 1)
                if len(a) != want_len:
                    return "list-size-after-set", None
                for x in range(want_len):
                    if x != i and a[x] != (bl[x] if x < len(bl) else None):
                        return "frame-list", None
            loc.append(b"@%d" % i)
            b = bl[i] if (i < len(bl) and not ins) else None
            a = a[i]
        else:
            bm = b if isinstance(b, dict) else {}
            if b is not None and not isinstance(b, dict):
                return "type-clash-accepted", None
            if not isinstance(a, dict):
                return "written-location-not-a-map", None
            if set(a.keys()) != set(bm.keys()) | {k}:
                return "frame-map-keys", None
            for kk in bm:
                if kk != k and a[kk] != bm[kk]:
                    return "frame-map", None
            loc.append(k)
            b = bm.get(k)
            a = a[k]
    if a != item:
        return "get-after-set", None
    return None, b"/".join(loc)


def expect_typecheck(before, keys):
    """does the documented rule accept the write?  every key needs the node it descends from to be absent or of its
    container type (null | list for @-keys, null | map otherwise)"""
    b = before
    for k in keys:
        if b is not None:
            if is_listref(k) and not isinstance(b, list):
                return False
            if not is_listref(k) and not isinstance(b, dict):
                return False
        b = nav_read(b, k)
    return True


def strip_nul(t):
    if isinstance(t, bytes):
        return t.replace(b"\0", b"0")
    if isinstance(t, list):
        return [strip_nul(x) for x in t]
    if isinstance(t, dict):
        return {k.replace(b"\0", b"0"): strip_nul(v) for k, v in t.items()}
    return t


def gen_path_case(rng, idx):
    """a sequence of writes and reads on one config -> (ops, meta per op)"""
    mode = "api" if rng.random() < 0.5 else "cpp"
    ops, meta = ["new " + mode], [("new",)]
    if rng.random() < 0.25:
        t = rand_tree(rng, rng.randrange(0, 4))
        if mode == "api":
            t = strip_nul(t)       # C strings carry no NUL: config_get_string would show a prefix
        ops.append("raw " + tdump(t))
        meta.append(("raw",))
    pool = []
    for _ in range(rng.randrange(1, 9)):
        r = rng.random()
        if r < 0.6:
            path = rand_path(rng) if (rng.random() < 0.7 or not pool) else rng.choice(pool) + rng.choice([b"", b"/" + rand_path_key(rng)])
            if mode == "api" and b"\0" in path:
                path = path.replace(b"\0", b"0")
            pool.append(path)
            ty, suffix, item = rand_value(rng)
            if mode == "api" and ty == "s" and b"\0" in item:
                item = item.replace(b"\0", b"0")
                suffix = "s " + hx(item)
            ops += ["dump", "set %s %s" % (hx(path), suffix), "dump"]
            meta += [("dump",), ("set", path, ty, item), ("dump-after", path, ty, item)]
            # read the same textual path back with every getter (conversion table + sentinel)
            for g in ("s", "i", "b", "d", "size", "type"):
                ops.append("get %s %s" % (hx(path), g))
                meta.append(("get", path, g))
        elif r < 0.8:
            path = rng.choice(pool) if pool and rng.random() < 0.6 else rand_path(rng, for_write=False)
            if mode == "api" and b"\0" in path:
                path = path.replace(b"\0", b"0")
            for g in rng.sample(["s", "i", "b", "d", "size", "type"], 2):
                ops.append("get %s %s" % (hx(path), g))
                meta.append(("get", path, g))
        elif r < 0.9:
            path = rng.choice(pool) if pool and rng.random() < 0.7 else rand_path(rng)
            if mode == "api" and b"\0" in path:
                path = path.replace(b"\0", b"0")
            ops += ["alias " + hx(path), "aliasdump"]
            meta += [("alias",), ("aliasdump0",)]
        else:
            ops += ["emit", "rt"]
            meta += [("emit",), ("rt",)]
    ops += ["aliasdump", "dump", "emit", "rt"]
    meta += [("aliasdump1",), ("dump",), ("emit",), ("rt",)]
    return ops, meta


# ----------------------------------------------------------------------------- round 2: the remaining read / write routes
# (Config::Is*, C API iterators, config_update_signature, SetItem with a shared sub-tree, ConfigItemRef navigation,
#  ConfigList / ConfigMap methods on a node, Save / modified / auto-save, LoadFromFile of missing / broken / empty files)
def tree_nodes(t, pre=()):
    """(canonical keys, node) of every node addressable by a key path"""
    yield list(pre), t
    if isinstance(t, dict):
        for k, v in t.items():
            if k and b"/" not in k and b"\0" not in k and not is_listref(k):
                yield from tree_nodes(v, pre + (k,))
    elif isinstance(t, list):
        for i, v in enumerate(t):
            yield from tree_nodes(v, pre + (b"@%d" % i,))


def read_keys(t, keys):
    for k in keys:
        t = nav_read(t, k)
    return t


def replace_at(t, keys, new):
    """the tree with the node at plain / @N keys replaced (the location must exist)"""
    if not keys:
        return new
    k = keys[0]
    if is_listref(k):
        i = int(k[1:])
        return t[:i] + [replace_at(t[i], keys[1:], new)] + t[i + 1:]
    out = dict(t)
    out[k] = replace_at(t[k], keys[1:], new)
    return out


def steps_text(keys):
    return ",".join(("i%d" % int(k[1:])) if is_listref(k) else "k" + hx(k) for k in keys) or "-"


def steps_welltyped(t, keys):
    """every node an operator[] is applied to is already the container the step asks for (no auto-vivification)"""
    for k in keys:
        if is_listref(k):
            if not isinstance(t, list):
                return False
            i = int(k[1:])
            t = t[i] if i < len(t) else None
        else:
            if not isinstance(t, dict):
                return False
            t = t.get(k)
    return True


def ref_set(t, keys, v):
    if not keys:
        return v
    k = keys[0]
    if is_listref(k):
        i = int(k[1:])
        lst = list(t) + [None] * (i + 1 - len(t))
        lst[i] = ref_set(lst[i], keys[1:], v)
        return lst
    out = dict(t)
    out[k] = ref_set(out.get(k), keys[1:], v)
    return out


def gen_api2_case(rng, idx):
    mode = "api" if rng.random() < 0.5 else "cpp"
    t = rand_tree(rng, rng.randrange(1, 4))
    if rng.random() < 0.5:
        t = {b"m": t, b"l": [t, b"x", [b"1", b"2"], {b"k": b"v"}], b"e": [], b"em": {}, b"s": rng.choice([b"v", b"12", b"true", b"0x1f", b""]),
             b"signature": rng.choice([None, {b"generator": b"old", b"extra": b"kept"}, b"scalar", [b"l"]])}
        if t[b"signature"] is None:
            del t[b"signature"]
    t = strip_nul(t)          # (the iterators hand keys out as C strings, in either mode)
    ops, meta = ["new " + mode, "raw " + tdump(t), "dump"], [("new",), ("raw",), ("dump",)]
    nodes = list(tree_nodes(t))

    def some_path(for_write=False):
        if rng.random() < 0.75:
            keys, node = rng.choice(nodes)
            p = b"/".join(keys)
            r = rng.random()
            if r < 0.1:
                p = b"/" + p
            elif r < 0.15 and p:
                p = p + b"/"
            return p, keys
        p = rand_path(rng, for_write).replace(b"\0", b"0")
        return p, canon_steps(p)
    # SetItem(dst, GetItem(src)) links ONE sub-tree at two places (copied only when written through a key path); the in-place
    # routes (ConfigItemRef, ConfigList / ConfigMap methods on a node) act on the node wherever it is linked.  That is the data
    # structure's contract, not a write "at a path": a case either shares sub-trees or uses the in-place routes, never both.
    sharing = rng.random() < 0.4
    for _ in range(rng.randrange(2, 8)):
        r = rng.random()
        if sharing and r >= 0.68:
            r = 0.47 + (r - 0.68) * 0.4
        elif not sharing and 0.47 <= r < 0.60:
            r = 0.68 + (r - 0.47)
        if r < 0.15:
            p, _k = some_path()
            ops.append("get %s is" % hx(p))
            meta.append(("is", p))
        elif r < 0.40:
            p, _k = some_path()
            p = p.replace(b"\0", b"0")      # the iterators exist in the C API only
            kind = rng.choice(["list", "map"])
            ops.append("iter %s %s" % (hx(p), kind))
            meta.append(("iter", p, kind))
        elif r < 0.47:
            signer = rng.choice([b"verif", b"weasel", b"", b"a b", "\u4e2d".encode()])
            ops += ["dump", "sign " + hx(signer), "dump"]
            meta += [("dump",), ("sign", signer), ("dump-sign", signer)]
        elif r < 0.60:
            src, _k = some_path()
            dst, _k2 = some_path(True)
            if rng.random() < 0.5:
                dst = rng.choice([b"copy", b"m/copy", b"l/@next", b"l/@0", b"new/deep/copy", b"l/@before 0"])
            ops += ["dump", "setitem %s %s" % (hx(dst), hx(src)), "dump"]
            meta += [("dump",), ("setitem", dst, src), ("dump-after", dst, "item", None)]
            # a write below the copy must not show at the source (the copy shares the sub-tree until written)
            w = dst + b"/" + rng.choice([b"zz", b"@0", b"@next", b"k"])
            ops += ["dump", "set %s s %s" % (hx(w), hx(b"W")), "dump"]
            meta += [("dump",), ("set", w, "s", b"W"), ("dump-after", w, "s", b"W")]
        elif r < 0.68:
            dst, _k = some_path(True)
            item = strip_nul(rand_tree(rng, rng.randrange(0, 3)))
            ops += ["dump", "setraw %s %s" % (hx(dst), tdump(item)), "dump"]
            meta += [("dump",), ("set", dst, "raw", item), ("dump-after", dst, "raw", item)]
        elif r < 0.88:
            keys, node = rng.choice(nodes)
            keys = list(keys)
            u = rng.random()
            if u < 0.25:
                keys.append(rng.choice([b"a", b"zz", b"k", b"@0", b"@3"]))
            elif u < 0.35:
                keys = [rng.choice([b"a", b"m", b"@1", b"l"]) for _x in range(rng.randrange(1, 4))]
            act = rng.choice(["tos", "toi", "tob", "is", "size", "has " + hx(rng.choice([b"k", b"a", b"generator"])), "assign s " + hx(b"R"),
                              "assign i %d" % rng.choice([0, -5, 77]), "assign b %d" % rng.randrange(2), "assign null", "clear",
                              "append s " + hx(b"A"), "aslist", "asmap"])
            ops += ["dump", "ref %s %s" % (steps_text(keys), act), "dump"]
            meta += [("dump",), ("ref", keys, act), ("dump-ref", keys, act)]
        else:
            conts = [(k, n) for k, n in nodes if isinstance(n, (list, dict))]
            keys, node = rng.choice(conts) if conts and rng.random() < 0.85 else rng.choice(nodes)
            p = b"/".join(keys)
            if isinstance(node, dict) and rng.random() < 0.8:
                kk = rng.choice(list(node) + [b"nope"]) if node else b"nope"
                act = rng.choice(["mapvalue " + hx(kk), "haskey " + hx(kk), "clearmap"])
            else:
                n = len(node) if isinstance(node, list) else 0
                act = rng.choice(["valueat %d" % rng.randrange(n + 2), "resize %d" % rng.choice([0, max(0, n - 1), n, n + 2]), "clearlist",
                                  "insert %d s %s" % (rng.choice([0, n, n + 2, max(0, n - 1)]), hx(b"I")),
                                  "setat %d s %s" % (rng.choice([0, n, n + 1]), hx(b"S")), "appendl s " + hx(b"P")])
            ops += ["dump", "node %s %s" % (hx(p), act), "dump"]
            meta += [("dump",), ("node", p, act), ("dump-node", keys, act)]
    ops += ["dump", "emit", "rt"]
    meta += [("dump",), ("emit",), ("rt",)]
    return ops, meta


def flags_of(node, strict):
    if node is None:
        return "1000" if strict else "1111"
    return "0100" if isinstance(node, bytes) else "0010" if isinstance(node, list) else "0001"


def monitor_api2(k, m, o, before, prev):
    """O for the round-2 ops.  `before` = the dump before the op, `prev` = (meta, output) of the op a `dump-…` follows.
    -> (signature, text) or None"""
    if "!" in o or "not-cleared" in o:
        return ("C18:iterator:state", "iterator fields inconsistent: %r" % o)
    if k == "is" and before is not None:
        keys = canon_steps(m[1])
        if keys is not None:
            node = read_keys(before, keys)
            if node is not None and o != "ret=1 val=" + flags_of(node, False):
                return ("C18:get:is-type", "Is{Null,Value,List,Map}(%r) on %s -> %r" % (m[1], tdump(before), o))
            if node is None and not o.startswith("ret=1 val=1"):
                return ("C18:get:is-type", "IsNull(%r) is false although nothing is there: %r" % (m[1], o))
    elif k == "iter" and before is not None:
        keys = canon_steps(m[1])
        if keys is not None:
            node = read_keys(before, keys)
            pre = b"" if m[1] in (b"", b"/") else m[1] + b"/"
            if m[2] == "list" and isinstance(node, list):
                ks = [b"@%d" % i for i in range(len(node))]
            elif m[2] == "map" and isinstance(node, dict):
                ks = sorted(node)
            else:
                ks = None
            want = "ret=0" if ks is None else "ret=1 n=%d items=%s" % (len(ks), ",".join(hx(x) + ":" + hx(pre + x) for x in ks) or "-")
            if o != want:
                return ("C18:iterator:%s" % m[2], "iterating %r as %s over %s -> %r, expected %r" % (m[1], m[2], tdump(before), o[:300], want[:300]))
    elif k == "dump-sign" and before is not None:
        after = tundump(o[5:])
        signer = m[1]
        can = (before is None or isinstance(before, dict)) and (not isinstance(before, dict) or before.get(b"signature") is None
                                                                or isinstance(before.get(b"signature"), dict))
        if not can:
            if after != before:
                return ("C18:signature:clobbers", "update_signature on %s gives %s" % (tdump(before), tdump(after)))
        else:
            want = dict(before or {})
            sg = dict(want.get(b"signature") or {})
            sg.update({b"generator": signer, b"modified_time": b"T", b"distribution_code_name": b"verif", b"distribution_version": b"1",
                       b"rime_version": b"V"})
            want[b"signature"] = sg
            if after != want:
                return ("C18:signature:fields", "update_signature(%r) on %s gives %s" % (signer, tdump(before), tdump(after)))
    elif k == "dump-ref" and before is not None:
        after = tundump(o[5:])
        keys, act = m[1], m[2]
        pm, po = prev
        if not steps_welltyped(before, keys):
            return None            # auto-vivification territory: correspondence only
        node = read_keys(before, keys)
        a = act.split(" ")
        want_out, want_tree = None, before
        if a[0] == "tos":
            want_out = "val=" + hx(node if isinstance(node, bytes) else b"")
        elif a[0] == "toi":
            w = doc_get_int(node) if isinstance(node, bytes) else None
            want_out = "val=%d" % (w if w is not None else 0)
        elif a[0] == "tob":
            w = doc_get_bool(node) if isinstance(node, bytes) else None
            want_out = "val=%d" % (w if w is not None else 0)
        elif a[0] == "is":
            want_out = "val=" + flags_of(node, True)
        elif a[0] == "size":
            want_out = "val=%d" % (len(node) if isinstance(node, list) else 0)
        elif a[0] == "has":
            want_out = "val=%d" % (1 if isinstance(node, dict) and node.get(unhx(a[1])) is not None else 0)
        elif a[0] == "assign" or a[0] == "clear":
            v = None if a[0] == "clear" or a[1] == "null" else unhx(a[2]) if a[1] == "s" else a[2].encode() if a[1] == "i" else \
                (b"true" if a[2] == "1" else b"false")
            want_out, want_tree = "ok", ref_set(before, keys, v)
        elif a[0] == "append":
            if not isinstance(node, list):
                return None
            want_out, want_tree = "ok", ref_set(before, keys, node + [unhx(a[2])])
        elif a[0] == "aslist":
            if not isinstance(node, list):
                return None
            want_out = "ok"
        elif a[0] == "asmap":
            if not isinstance(node, dict):
                return None
            want_out = "ok"
        if want_out is not None and (po != want_out or after != want_tree):
            return ("C18:ref:%s" % a[0], "(*config)%s %s on %s -> %r, tree %s; expected %r, tree %s"
                    % (steps_text(keys), act, tdump(before), po, tdump(after), want_out, tdump(want_tree)))
    elif k == "dump-node" and before is not None:
        after = tundump(o[5:])
        keys, act = m[1], m[2]
        pm, po = prev
        node = read_keys(before, keys)
        a = act.split(" ")
        listop = a[0] in ("valueat", "resize", "clearlist", "insert", "setat", "appendl")
        want_out, new = None, node
        if listop and not isinstance(node, list):
            want_out = "no-list"
        elif not listop and not isinstance(node, dict):
            want_out = "no-map"
        elif a[0] == "valueat":
            i = int(a[1])
            e = node[i] if i < len(node) else None
            want_out = "val=" + hx(e) if isinstance(e, bytes) else "val=null"
        elif a[0] == "mapvalue":
            e = node.get(unhx(a[1]))
            want_out = "val=" + hx(e) if isinstance(e, bytes) else "val=null"
        elif a[0] == "haskey":
            want_out = "val=%d" % (1 if node.get(unhx(a[1])) is not None else 0)
        elif a[0] == "resize":
            n = int(a[1])
            want_out, new = "ok", node[:n] + [None] * (n - len(node))
        elif a[0] == "clearlist":
            want_out, new = "ok", []
        elif a[0] == "clearmap":
            want_out, new = "ok", {}
        elif a[0] == "insert":
            i = int(a[1])
            lst = node + [None] * (i - len(node))
            want_out, new = "ok", lst[:i] + [unhx(a[3])] + lst[i:]
        elif a[0] == "setat":
            i = int(a[1])
            lst = node + [None] * (i + 1 - len(node))
            lst[i] = unhx(a[3])
            want_out, new = "ok", lst
        elif a[0] == "appendl":
            want_out, new = "ok", node + [unhx(a[2])]
        want_tree = replace_at(before, keys, new) if new is not node else before
        if po != want_out or after != want_tree:
            return ("C18:node:%s" % a[0], "%s on the node at %r of %s -> %r, tree %s; expected %r, tree %s"
                    % (act, b"/".join(keys), tdump(before), po, tdump(after), want_out, tdump(want_tree)))
    return None


def lifecycle_ops(rng):
    """Save / modified / auto-save of the user-config component and LoadFromFile of odd files: implementation only"""
    u = hx(rng.choice([b"u1", b"user", b"w"]))
    k1, v1, v2 = hx(rng.choice([b"a", b"var/x", b"l/@next"])), hx(rand_word(rng)), hx(rand_word(rng))
    return ["new cpp", "urm " + u, "uopen %s 1" % u, "modified", "set %s s %s" % (k1, v1), "modified", "rt", "new cpp", "ufile " + u,
            "uopen %s 1" % u, "modified", "rt", "urm " + u, "new cpp", "ufile " + u,
            "uopen %s 0" % u, "set %s s %s" % (k1, v2), "modified", "new cpp", "ufile " + u,
            "uopen %s 0" % u, "set %s s %s" % (k1, v2), "save", "modified", "save", "rt", "ufile " + u, "new cpp", "ufile " + u,
            "uopen %s 1" % u, "rt", "set %s s %s" % (hx(b"b"), v1), "rt", "new cpp", "ufile " + u, "urm " + u,
            "new cpp", "raw " + tdump({b"k": b"v"}), "loadfile missing", "raw " + tdump({b"k": b"v"}), "loadfile bad",
            "raw " + tdump({b"k": b"v"}), "loadfile empty", "new cpp"]


def lifecycle_monitor(ops, outs):
    """-> (sig, what) | None.  Expectations, in words: a config of the user-config component starts from its file (empty if there is
    none) and unmodified; a successful set makes it modified; with auto-save a modified config is written when it is dropped and
    an unmodified one is not; without auto-save nothing is written unless Save() is called; Save() writes a modified config,
    clears the flag, and does nothing (returns false) when unmodified; LoadFromFile of a missing or broken file fails and leaves
    an empty tree, of an empty file succeeds with an empty tree."""
    tree = lambda o: o.split("tree=", 1)[1] if "tree=" in o else None
    last_rt, auto, mod, expect_file = None, False, False, "none"
    for op, o in zip(ops, outs):
        p = op.split(" ")
        if o == "bad-op":
            return ("C18:harness:bad-op", "harness rejected op %r" % op)
        if p[0] == "uopen":
            auto, mod = p[2] == "1", False
            if (expect_file == "none") != (tree(o) == "N") or (expect_file != "none" and tree(o) != expect_file):
                return ("C18:lifecycle:open", "user config opens as %r, its file holds %s" % (o, expect_file))
            cur = tree(o)
        elif p[0] == "set":
            if o == "ret=1":
                mod = True
        elif p[0] == "modified":
            if o != "modified=%d" % mod:
                return ("C18:lifecycle:modified-flag", "modified() is %r after %r" % (o, ops[:ops.index(op) + 1][-4:]))
        elif p[0] == "rt":
            last_rt = tree(o)
        elif p[0] == "save":
            if o != "save ret=%d" % mod:
                return ("C18:lifecycle:save", "Save() of a%s config -> %r" % (" modified" if mod else "n unmodified", o))
            if mod:
                expect_file = "pending"
            mod = False
        elif p[0] == "new":
            if auto and mod:
                expect_file = "pending"
            auto = mod = False
        elif p[0] == "urm":
            expect_file = "none"
        elif p[0] == "ufile":
            if expect_file == "pending":
                expect_file = last_rt
            if o != ("file none" if expect_file == "none" else "file tree=" + str(expect_file)):
                return ("C18:lifecycle:file", "the file behind the user config holds %r, expected %s (ops so far: %s)"
                        % (o, expect_file, " | ".join(ops[:ops.index(op) + 1][-6:])))
        elif p[0] == "loadfile":
            want = "load ok=%d tree=N" % (1 if p[1] == "empty" else 0)
            if o != want:
                return ("C18:lifecycle:loadfile", "LoadFromFile of a %s file -> %r, expected %r" % (p[1], o, want))
    return None


def gen_customizer(rng):
    """source document, patch {path: item} for Customizer::UpdateConfigFile (the older route by which `<name>.custom.yaml` reaches a
    user copy): every patch entry is a Config::SetItem at the key path, then the copy is saved"""
    src = {b"config_version": rng.choice([b"1.0", b"0.9", b"2024", b"1.0.custom.77", b"3.custom.x.custom.y"]),
           b"m": {b"x": b"1", b"l": [b"a", b"b"]}, b"l": [b"p", {b"k": b"v"}], b"s": b"text"}
    if rng.random() < 0.4:
        r_ = strip_nul(rand_tree(rng, rng.randrange(0, 3)))
        if tree_in_domain(r_):          # (the copy goes through a save: text outside the property's domain would not survive it)
            src[b"r"] = r_
    patch = {}
    for _ in range(rng.randrange(0, 4)):
        path = rng.choice([b"m/x", b"m/new", b"l/@next", b"l/@0", b"l/@1/k", b"s", b"new/deep/er", b"m/l/@before 0", b"l/@last", b"m/l/@after last",
                           b"s/sub", b"m/@0", b"l/k", b"l/@5", b"config_version", b"customization", b"/m/x", b"m//x", b"m/l/@1"])
        v = rng.choice([b"v", b"", b"12", [b"i"], {b"a": b"1"}, [], {}, rand_scalar(rng)[0].replace(b"\0", b"0")])
        if isinstance(v, bytes) and not in_domain(v):
            v = b"v"
        if path == b"config_version":
            v = rng.choice([b"7", b"8.1", b"7.custom.5"])     # (a version the second comparison decides on its first number)
        patch[path] = v
    return src, patch


def parse_customizer_op(op):
    p = op.split(" ")
    n = int(p[3])
    return tundump(p[2]), {unhx(p[4 + 2 * k]): tundump(p[5 + 2 * k]) for k in range(n)}


def run_customizer_cases(impl, rng, n, stats, mismatches, o_fail, fixed=None):
    """`fixed`: customizer op lines to judge again (replay) instead of generated ones"""
    cases = [parse_customizer_op(o) for o in fixed] if fixed else [gen_customizer(rng) for _ in range(n)]
    ops = []
    for src, patch in cases:
        # (a second update compares "<v>.custom.<crc32>" with the source version; CompareVersionString parses each number into
        #  an int, so with a source version that itself carries a ".custom." stamp a checksum >= 2^31 is signed overflow there —
        #  version comparison is C12's subject, not this property's: asked for only where the comparison stops before the stamp)
        twice = "0" if b".custom." in src[b"config_version"] else "1"
        ops += ["new cpp", " ".join(["customizer", twice, tdump(src), str(len(patch))] + [hx(k) + " " + tdump(v) for k, v in sorted(patch.items())])]
    rc, outs, log = impl.run(ops)
    if rc != 0 or len(outs) < len(ops):
        return True
    eq_ops, spans = [], []
    for i, (src, patch) in enumerate(cases):
        m = re.match(r"cz ret=(\d) again=(\d) checksum=(\S+) tree=(\S+)", outs[2 * i + 1])
        if not m:
            o_fail.setdefault("C18:harness:bad-op", {"ops": ops[2 * i:2 * i + 2], "what": "customizer op rejected: %r" % outs[2 * i + 1]})
            continue
        ver = src[b"config_version"]
        if b".custom." in ver:
            ver = ver[:ver.index(b".custom.")]
        e = ["new cpp", "raw " + tdump(src)] + ["setraw %s %s" % (hx(k), tdump(norm(v))) for k, v in sorted(patch.items())]
        e += ["get %s s" % hx(b"config_version"), "rt"]
        spans.append((i, len(eq_ops), len(e), m, ver))
        eq_ops += e
    rc2, eouts, log2 = impl.run(eq_ops)
    mouts = model_run(eq_ops)
    if rc2 != 0 or len(eouts) < len(eq_ops):
        return True
    for i, start, ln, m, ver in spans:
        src, patch = cases[i]
        stats["customizer_cases"] = stats.get("customizer_cases", 0) + 1
        eo, mo = eouts[start:start + ln], mouts[start:start + ln]
        for j in range(ln):
            why = compare_line(eq_ops[start + j], None, eo[j], mo[j])
            if why not in (None, "defer", "lost") and len(mismatches) < 200:
                mismatches.append({"ops": eq_ops[start:start + j + 1], "impl": eo[j], "model": mo[j], "why": why})
        sets_ok = all(x == "ret=1" for x in eo[2:2 + len(patch)])
        the_ops = ops[2 * i:2 * i + 2]
        if m.group(2) != "0" and b"config_version" not in patch and b"customization" not in patch:
            o_fail.setdefault("C18:customizer:not-idempotent", {"ops": the_ops, "what": "a second UpdateConfigFile right after the first reports an update again"})
        if not sets_ok:
            # one entry cannot be written: the update fails and leaves the plain copy of the source
            if m.group(1) != "0" or m.group(4) != tdump(norm(src)):
                o_fail.setdefault("C18:customizer:failed-patch", {"ops": the_ops, "what": "a patch entry that SetItem rejects: update says %s, user copy %s"
                                                                  % (m.group(1), m.group(4))})
            continue
        # all entries written: the user copy is the source with every entry set at its path, stamped, saved
        rt = re.match(r"rt save=1 load=1 tree=(\S+)", eo[-1])
        if not rt:
            continue
        want = tundump(rt.group(1))
        cur = re.match(r"ret=1 val=(\S+)", eo[-2])
        base = unhx(cur.group(1)) if cur else b""
        if b".custom." in base:
            base = base[:base.index(b".custom.")]
        if not isinstance(want, dict):
            continue
        want = dict(want)
        want[b"config_version"] = base + b".custom." + m.group(3).encode()
        want[b"customization"] = m.group(3).encode()
        if m.group(1) != "1" or m.group(4) != tdump(want):
            o_fail.setdefault("C18:customizer:patch-is-not-set-at-path",
                              {"ops": the_ops, "what": "UpdateConfigFile with patch %s: user copy %s, but SetItem of the entries on the source + the stamp gives %s"
                               % (tdump(patch), m.group(4), tdump(want))})
    return False


CONV_STRINGS = [b"0", b"1", b"-1", b"+7", b" 12", b"\t\n 3", b"12abc", b"abc", b"", b" ", b"-", b"+", b"--1", b"0x1f", b"0x1F", b"0X1f", b"0x",
                b"0xg", b"0x1g", b"0xffffffff", b"0x100000000", b"0x80000000", b"0x7fffffff", b"0xffffffffffffffff",
                b"0x10000000000000000", b"-0x1", b" 0x1f", b"0x 1", b"0x-1", b"0x+1", b"0x0x1", b"0x1f\x00zz", b"1\x002", b"2147483647",
                b"2147483648", b"-2147483648", b"-2147483649", b"99999999999999999999", b"-99999999999999999999", b"007", b"1.9", b"1e3",
                b"true", b"True", b"TRUE", b"tRuE", b"false", b"FALSE", b"False", b"true ", b" true", b"yes", b"no", b"t", b"1", b"truefalse",
                b"TRU\xc9", b"3.14", b"-2.5e3", b"inf", b"nan", b"0x1p3", b".5", b"1e999", b" 1.5x", b"e5", "\u0661\u0662".encode()]


SMALL_ALPHABET = [b" ", b"a", b"\n", b"\t", b"\r", b"#"]


def rand_conv_string(rng):
    """values around the typed getters' accept/reject boundaries"""
    r = rng.random()
    if r < 0.25:
        v = rng.choice([0, 1, -1, 2 ** 31 - 1, 2 ** 31, -2 ** 31, -2 ** 31 - 1, 2 ** 32, 2 ** 63, 2 ** 64, rng.randrange(-2 ** 33, 2 ** 33)])
        return rng.choice([b"", b" ", b"\t", b"+", b"  +"]) * (v >= 0) + b"%d" % v + rng.choice([b"", b"x", b" ", b".5", b"e3", b"\x00", b"L"])
    if r < 0.45:
        n = rng.choice([0, 1, 8, 9, 15, 16, 17])
        h = bytes(rng.choice(b"0123456789abcdefABCDEF") for _ in range(n))
        return rng.choice([b"0x", b"0x", b"0X", b" 0x", b"-0x", b"0x0x"]) + h + rng.choice([b"", b"", b"g", b" ", b"\x00zz", b"."])
    if r < 0.65:
        w = rng.choice([b"true", b"false", b"yes", b"no", b"tru", b"truee", b"fals", b"t", b"f", b"1", b"0"])
        w = bytes(c - 32 if 97 <= c <= 122 and rng.random() < 0.4 else c for c in w)
        return rng.choice([b"", b"", b" "]) + w + rng.choice([b"", b"", b" ", b"\x00", b"\n"])
    if r < 0.8:
        return rng.choice([b"1.5", b"-2.5e3", b".5", b"5.", b"1e400", b"-1e-400", b"inf", b"-inf", b"nan", b"NAN(1)", b"infinity", b"0x1.8p1",
                           b"1,5", b" 3.25abc", b"e", b"+.e1", b"1e", b"1e+", b"--1", b"0.000001", b"123456789.123456789"])
    return rand_scalar(rng)[0]


def gen_conv_case(rng, s):
    mode = "api" if (rng.random() < 0.5 and b"\0" not in s) else "cpp"
    ops = ["new " + mode, "set 6b s " + hx(s)]
    meta = [("new",), ("setconv", s)]
    for g in ("s", "i", "b", "d", "size", "type"):
        ops.append("get 6b " + g)
        meta.append(("get", b"k", g))
    return ops, meta


# ----------------------------------------------------------------------------- comparison (K) and monitors (O)
def compare_line(op, mt, im, o):
    """-> None if the model's and the implementation's observation agree on the property-relevant projection"""
    if im == o:
        return None
    if op.startswith("get ") and op.endswith(" d"):
        # the model prints the text std::stod is applied to
        if o.startswith("stod="):
            want = stod(unhx(o[5:]))
            if want is None:
                return None if im.startswith("ret=0") else "model: stod throws"
            return None if im == "ret=1 val=" + want else "model: stod gives " + want
        if o == "ret=0":
            return None if im.startswith("ret=0") else "model: no scalar / empty"
        return "unexpected model line"
    if op == "emit" and o == "emit unmodelled":
        return None
    if op == "rt":
        if o == "rt unmodelled":
            return None
        if o == "rt none":
            return "defer"            # the model's strict parser gives up: both must agree the round trip fails (checked by caller)
    if op.startswith("parse ") and o == "parse none":
        return "lost"
    return "differs"


def run(c):
    quick = c.tier == "quick"
    rng = c.rng
    # ------------------------------------------------------------------ G
    rc, out = vlib.sh([sys.executable, os.path.join(vlib.ROOT, "gen", "c18_emit.py"), vlib.REPO, GEN_OUT])
    if rc != 0:
        raise vlib.BuildError("translator c18_emit failed: " + out)
    gen = json.loads(out[out.index("{"):])
    # ------------------------------------------------------------------ P
    audit = vlib.lean_audit("C18")
    if not quick and audit["ok"]:
        ok, log = vlib.leanchecker("RimeModel.Props.C18")
        if not ok:
            audit["ok"] = False
            audit["failures"].append(("RimeModel.Props.C18", "leanchecker: " + log))
    rcd, outd = vlib.lake_build(["driver_c18"])
    if rcd != 0:
        raise vlib.BuildError("driver_c18 does not build: " + outd[-3000:])
    # ------------------------------------------------------------------ B
    impl = Impl(c)
    stats = {"roundtrip_trees": 0, "roundtrip_in_domain": 0, "path_cases": 0, "set_ops": 0, "set_ops_canonical": 0, "get_ops": 0,
             "conv_cases": 0, "alias_checks": 0, "emit_compared": 0, "emit_unmodelled": 0, "rt_model_none": 0,
             "by_class": {}, "by_context": {}, "set_ret0": 0, "typed_gets_checked": 0}
    mismatches = []          # correspondence
    o_fail = {}              # signature -> case
    distinct = set()

    # ================================================================== part 1: save / load
    san_abort = False
    rt_failing = []
    sample_trees = []

    def run_trees(trees):
        nonlocal san_abort
        ops = []
        for t, tag in trees:
            ops += ["new cpp", "raw " + tdump(t), "emit", "rt"]
        rc, iouts, ilog = impl.run(ops)
        mouts = model_run(ops)
        san_abort = san_abort or rc != 0
        for i, (t, tag) in enumerate(trees):
            io, mo = iouts[4 * i:4 * i + 4], mouts[4 * i:4 * i + 4]
            if len(io) < 4:
                break
            stats["roundtrip_trees"] += 1
            stats["by_context"][tag[1]] = stats["by_context"].get(tag[1], 0) + 1
            dom = tree_in_domain(t)
            m = re.match(r"rt save=(\d) load=(\d) tree=(\S+)", io[3])
            loaded = bool(m and m.group(1) == "1" and m.group(2) == "1")
            ok = loaded and m.group(3) == tdump(norm(t))
            distinct.add(hash(("rt", tdump(t))))
            if dom:
                stats["roundtrip_in_domain"] += 1
                if not ok and len(rt_failing) < 5000:
                    rt_failing.append(t)
            for j, opn in ((2, "emit"), (3, "rt")):
                why = compare_line(opn, None, io[j], mo[j])
                if why is None:
                    if opn == "emit":
                        if mo[j] == "emit unmodelled":
                            stats["emit_unmodelled"] += 1
                        else:
                            stats["emit_compared"] += 1
                    continue
                if why == "defer":
                    stats["rt_model_none"] += 1
                    if ok:
                        mismatches.append({"op": "rt", "tree": tdump(t), "impl": io[j], "model": mo[j],
                                           "why": "the model's document does not parse in the model, the implementation round-trips"})
                    continue
                if len(mismatches) < 200:
                    mismatches.append({"op": opn, "tree": tdump(t), "impl": io[j], "model": mo[j], "why": why})

    trees = []               # (tree, tag)
    for f in sorted(glob.glob(os.path.join(vlib.CORPUS, "C18", "*.tree"))):
        for line in open(f):
            line = line.strip()
            if line and not line.startswith("#"):
                trees.append((tundump(line), ("corpus", os.path.basename(f))))
    for s in SYSTEMATIC_SCALARS:
        for cn, t in contexts(s):
            trees.append((t, ("sys", cn)))
    # every string over a small alphabet of the characters the block reader is sensitive to, in three positions
    small_len = 4 if quick else 6
    for L in range(0, small_len + 1):
        for tup in itertools.product(SMALL_ALPHABET, repeat=L):
            s = b"".join(tup)
            if b"\n" not in s and b"\r" not in s and L > 2:
                continue         # single-line strings over this alphabet are covered by the shorter ones
            trees.append(({b"k": s, b"z": b"z"}, ("small", "map-value")))
            if L <= small_len - 1:
                trees.append(([s, b"z"], ("small", "list-item")))
                trees.append((s, ("small", "root")))
    sample_trees = trees[::max(1, len(trees) // 5)][:3]
    run_trees(trees)
    n_scalars, n_trees, batch = (10000, 10000, 5000) if quick else (200000, 200000, 10000)
    done = 0
    while done < n_scalars + n_trees:
        trees = []
        for _ in range(batch):
            if done < n_scalars:
                s, cls = rand_scalar(rng)
                stats["by_class"][cls] = stats["by_class"].get(cls, 0) + 1
                cn, t = rng.choice(contexts(s))
                trees.append((t, ("rand-scalar", cn)))
            else:
                t = rand_tree(rng, rng.randrange(0, 6), allow_exotic_keys=rng.random() < 0.1)
                trees.append((t, ("rand-tree", "depth%d" % depth_of(t))))
            done += 1
        if done <= batch or done > n_scalars and done <= n_scalars + batch:
            sample_trees += trees[:2]
        run_trees(trees)

    # ================================================================== part 2: paths, typed values, aliases
    def run_cases(cases):
        nonlocal san_abort
        ops = [x for o, m, tag in cases for x in o]
        rc2, iouts, ilog2 = impl.run(ops)
        mouts = model_run(ops)
        san_abort = san_abort or rc2 != 0
        pos = 0
        for o, meta, tag in cases:
            io, mo = iouts[pos:pos + len(o)], mouts[pos:pos + len(o)]
            pos += len(o)
            if len(io) < len(o):
                break
            if tag[0] == "path":
                stats["path_cases"] += 1
            elif tag[0] == "conv":
                stats["conv_cases"] += 1
            lost = False
            case_bad = None
            for j, opn in enumerate(o):
                if lost:
                    break
                why = compare_line(opn, None, io[j], mo[j])
                if why == "lost":
                    lost = True
                    continue
                if why == "defer":
                    stats["rt_model_none"] += 1
                    continue
                if why is not None and case_bad is None:
                    case_bad = {"ops": o[:j + 1], "op": opn, "impl": io[j], "model": mo[j], "why": why}
            if case_bad and len(mismatches) < 200:
                mismatches.append(case_bad)
            # O on the implementation's outputs
            bad = monitor_case(o, meta, io, stats, distinct) if meta is not None else monitor_ops_only(o, io)
            if bad:
                sig, what = bad
                o_fail.setdefault(sig, {"ops": o, "what": what})

    cases = []
    for f in sorted(glob.glob(os.path.join(vlib.CORPUS, "C18", "*.ops"))):
        o = [l.strip() for l in open(f) if l.strip() and not l.startswith("#")]
        cases.append((o, None, ("corpus", os.path.basename(f))))
    for s in CONV_STRINGS:
        o, m = gen_conv_case(rng, s)
        cases.append((o, m, ("conv",)))
    for _ in range(300 if quick else 5000):
        o, m = gen_conv_case(rng, rand_conv_string(rng))
        cases.append((o, m, ("conv",)))
    run_cases(cases)
    # round 2: Is*, iterators, signature, SetItem with shared sub-trees, ConfigItemRef, node methods
    n_api2 = 2500 if quick else 40000
    done = 0
    while done < n_api2:
        cases = []
        for i in range(min(5000, n_api2 - done)):
            o, m = gen_api2_case(rng, done + i)
            cases.append((o, m, ("api2",)))
        done += len(cases)
        stats["api2_cases"] = stats.get("api2_cases", 0) + len(cases)
        run_cases(cases)
    n_cases, batch = (8000, 4000) if quick else (150000, 10000)
    done = 0
    while done < n_cases:
        cases = []
        for i in range(min(batch, n_cases - done)):
            o, m = gen_path_case(rng, done + i)
            cases.append((o, m, ("path",)))
        done += len(cases)
        run_cases(cases)

    # ================================================================== verdicts
    # save/load failures: shrink each to a minimal tree, classify, one report per class
    reported = {}
    for t in sorted(rt_failing, key=tree_size)[:60]:
        cls0 = classify_tree(t)
        if cls0 in reported and cls0 != "other":
            continue
        small = shrink_tree(impl, t)
        cls = classify_tree(small)
        if cls in reported:
            continue
        doc, loaded, dumped = impl.roundtrip([small])[0]
        reported[cls] = small
        sc = failing_scalar(small)
        c.report("C18:%s" % cls if cls != "other" else "C18:save-load:other",
                 "a config tree in the property's domain does not survive SaveToStream/LoadFromStream (%s): tree %s, scalar %r; "
                 "saved as %r; %s" % (cls, tdump(small), sc, doc,
                                      "the document does not load" if not loaded else "loads as " + str(dumped)),
                 {"kind": "save-load", "tree": tdump(small), "scalar_hex": hx(sc) if sc is not None else None,
                  "saved_document_hex": hx(doc) if doc is not None else None, "loaded": loaded, "loaded_tree": dumped,
                  "expected_tree": tdump(norm(small)),
                  "api_recipe": api_recipe(small)})
    # ---- save/load through FILES, several times on one config, the tree changed in between by every route (setters, a whole
    # new document loaded from a stream, a sub-tree replaced): the file must hold the tree as it is at each save.
    # Implementation only; the expected tree is the one the stream round trip (`rt`, compared with the model above) gives.
    docs = [b"a: 1\nb:\n  - x\n  - y", b"c: 2", b"a: 1\nb:\n  - x\n  - y\n  - z", b"m:\n  k: v\n  l: w"]
    fops = ["new cpp"]
    for d_ in docs + docs[:2]:
        fops += ["parse " + hx(d_), "rt", "frt"]
    fops += ["set %s s %s" % (hx(b"m/k"), hx(b"changed")), "rt", "frt", "raw " + tdump({b"q": [b"1", b"2"]}), "rt", "frt",
             "parse " + hx(docs[1]), "rt", "frt", "frt"]
    rcf, fouts, flog = impl.run(fops)
    stats["file_roundtrips"] = sum(1 for o_ in fops if o_ == "frt")
    bad_ = file_rt_monitor(fops, fouts) if len(fouts) >= len(fops) else None
    if bad_:
        o_fail.setdefault(bad_[0], {"ops": fops, "what": bad_[1]})
    san_abort = run_customizer_cases(impl, rng, 300 if quick else 5000, stats, mismatches, o_fail) or san_abort
    for li in range(3 if quick else 20):
        lops = lifecycle_ops(rng)
        rcl, louts, llog = impl.run(lops)
        san_abort = san_abort or rcl != 0
        stats["lifecycle_scripts"] = stats.get("lifecycle_scripts", 0) + 1
        bad_ = lifecycle_monitor(lops, louts) if len(louts) >= len(lops) else ("C18:lifecycle:incomplete", "the harness stopped inside the lifecycle script")
        if bad_:
            o_fail.setdefault(bad_[0], {"ops": lops, "what": bad_[1]})
    for sig, case in sorted(o_fail.items()):
        # (the lifecycle script is a state machine and a customizer case is one line: reported as they are)
        small = case["ops"] if sig.startswith(("C18:lifecycle", "C18:customizer")) else shrink_ops(impl, case["ops"], sig)
        c.report(sig, case["what"], {"kind": "ops", "ops": small})
    if san_abort:
        c.report("C18:sanitizer", "sanitizer abort / crash of the config harness", {"kind": "sanitizer", "log": (impl.san_logs or [""])[0]},
                 no_input=True)
    quiet = not rt_failing and not o_fail
    if mismatches and quiet:
        c.report("C18:correspondence", "the Lean model and the implementation disagree on %d observations (first: %s)"
                 % (len(mismatches), json.dumps(mismatches[0])[:400]),
                 {"kind": "correspondence", "first": mismatches[:5], "broken": "correspondence driver_c18 vs c18_harness"}, no_input=True)
    if not gen["ok"] and quiet:
        c.report("C18:translator", "EmitScalar / EmitYaml / SaveToStream no longer have a shape the model was written from: %s" % "; ".join(gen["notes"]),
                 {"kind": "translator", "summary": gen, "broken": "gen/c18_emit.py shape recognition"}, no_input=True)
    if not audit["ok"] and quiet:
        c.report("C18:proof", "proof obligation no longer checks: %s" % "; ".join("%s: %s" % tuple(f) for f in audit["failures"])[:600],
                 {"kind": "proof", "broken_theorems": audit["failures"], "lean_log": audit["log"][-3000:]}, no_input=True)
    cov = vlib.proof_cov(audit, "lake build RimeModel.Props.C18 && #print axioms (all theorems) && forbidden-token scan"
                         + ("" if quick else " && leanchecker RimeModel.Props.C18"),
                         vlib.STD_TRUSTED + ["yaml-cpp 0.7 emitter and parser behaviour as modelled in RimeModel/C18/{Utf8,Emit,Parse}.lean "
                                             "(compared byte for byte on every run, not verified)",
                                             "libstdc++ std::stoi / strtoul / std::to_string(int) as modelled; std::stod and %f as parameters",
                                             "translator gen/c18_emit.py (shape recognition of EmitScalar / EmitYaml, fails closed)",
                                             "glibc isalnum/isspace in the C locale, also for bytes >= 0x80 passed as negative char"])
    cov.update({
        "evaluations": impl.evaluations, "distinct_nontrivial": len(distinct),
        "rule": ("one evaluation = one op executed by the real library. non-trivial = a save/load of a distinct tree, or a Set "
                 "with its before/after dumps; distinct by (tree dump) resp. (before dump, path, value)"),
        "samples": [{"tree": tdump(t)[:400], "tag": list(tag)} for t, tag in sample_trees[:7]],
        "generator_version": GENERATOR_VERSION, "source_hash": vlib.source_hash(SRC_FILES),
        "policy_in_source": {0: "legacy", 1: "safe"}.get(gen["emitScalarShape"], "unknown"), "flow_depth_in_source": gen["flowDepth"],
        "translator": gen, "stats": stats, "correspondence_mismatches": len(mismatches),
        "save_load_failures_in_domain": len(rt_failing), "monitor_failures": sorted(o_fail), "proof_failures": audit["failures"],
        "sanitizer_reports": len(impl.san_logs),
    })
    c.cov = cov
    c.assumptions = ["scalars and keys are text: UTF-8 of Unicode scalar values other than non-characters",
                     "multi-line text ends in exactly one LF and has a non-empty body; CR LF pairs are outside; a lone CR is content",
                     "list indices stay far below 2^32 (the C++ truncates to unsigned int; the model does too, the generator does not go there)",
                     "no ConfigItem of type kNull other than the null pointer (no modelled operation creates one)",
                     "C API strings carry no NUL"]


# ----------------------------------------------------------------------------- O for path cases
def monitor_case(ops, meta, outs, stats, distinct):
    """get-after-set, frame, clean failure, sentinel, aliasing — on the implementation's outputs only.
    -> (signature, text) of the first violation or None"""
    before = None
    alias0 = None
    last_set = None
    for j, (op, m, o) in enumerate(zip(ops, meta, outs)):
        k = m[0]
        if o == "bad-op":
            return ("C18:harness:bad-op", "harness rejected op %r" % op)
        if k in ("is", "iter", "dump-sign", "dump-ref", "dump-node"):
            stats["api2_ops"] = stats.get("api2_ops", 0) + 1
            bad = monitor_api2(k, m, o, before, (meta[j - 1], outs[j - 1]))
            if bad:
                return bad
            if k.startswith("dump-"):
                before = tundump(o[5:])
            continue
        if k == "dump":
            before = tundump(o[5:])
        elif k == "set":
            stats["set_ops"] += 1
            last_set = (m[1], m[2], m[3], o)
        elif k == "setitem":
            stats["set_ops"] += 1
            ks = canon_steps(m[2])
            last_set = (m[1], "item", read_keys(before, ks) if (ks is not None and before is not None) else "?", o)
        elif k == "dump-after":
            after = tundump(o[5:])
            path, ty, item, ret = last_set
            if isinstance(item, str) and item == "?":
                before = after
                continue
            distinct.add(hash(("set", tdump(before), path, ty, tdump(item) if not isinstance(item, bytes) else item)))
            keys = canon_steps(path)
            if ret == "ret=0":
                stats["set_ret0"] += 1
                if after != before:
                    return ("C18:set:failed-write-changed-tree", "a Set that returned false changed the tree: path %r" % path)
                if keys is not None and expect_typecheck(before, keys):
                    return ("C18:set:rejected", "a Set on a type-compatible path returned false: path %r on %s" % (path, tdump(before)))
            elif ret == "ret=1":
                if keys is not None:
                    stats["set_ops_canonical"] += 1
                    if not expect_typecheck(before, keys):
                        return ("C18:set:type-clash-accepted", "a Set through a node of another type returned true: path %r on %s" % (path, tdump(before)))
                    clause, loc = frame_check(before, after, keys, item)
                    if clause:
                        return ("C18:set:%s" % clause, "after Set(%r, %s) on %s the tree is %s" % (path, ty, tdump(before), tdump(after)))
            else:
                return ("C18:harness:bad-op", "unexpected set result %r" % o)
            before = after
        elif k == "get":
            stats["get_ops"] += 1
            g = m[2]
            # sentinel: a failing getter leaves the out-parameter alone
            if o.startswith("ret=0"):
                sent = {"s": "val=" + hx(b"SENT"), "i": "val=-77777", "b": "val=7", "d": "val=" + dbits(-77777.0)}.get(g)
                if sent and sent not in o:
                    return ("C18:get:out-param-touched", "a getter returned false but changed its out-parameter: %r -> %r" % (op, o))
            if "unstable" in o or "cstring-differs" in o:
                return ("C18:get:inconsistent", "getter inconsistent: %r -> %r" % (op, o))
            # typed read of the same path right after a successful set of that type, when the path re-reads its own write
            if last_set and last_set[3] == "ret=1" and m[1] == last_set[0]:
                path, ty, item, _ = last_set
                keys = canon_steps(path)
                if keys is not None and all((not is_listref(kk)) or re.match(rb"@\d+\Z", kk) for kk in keys) and isinstance(item, bytes):
                    stats["typed_gets_checked"] += 1
                    if g == "s" and o != "ret=1 val=" + hx(item):
                        return ("C18:get-after-set:string", "GetString after Set(%r, %s %r) -> %r" % (path, ty, item, o))
                    if g == "i" and ty == "i" and o != "ret=1 val=" + item.decode():
                        return ("C18:get-after-set:int", "GetInt after SetInt(%r, %s) -> %r" % (path, item.decode(), o))
                    if g == "b" and ty == "b" and o != "ret=1 val=" + ("1" if item == b"true" else "0"):
                        return ("C18:get-after-set:bool", "GetBool after SetBool(%r, %s) -> %r" % (path, item.decode(), o))
                    if g == "d" and ty == "d" and o != "ret=1 val=" + dbits(float(item)):
                        return ("C18:get-after-set:double", "GetDouble after SetDouble(%r) stored %r -> %r" % (path, item, o))
                    if g == "i":
                        w = doc_get_int(item)
                        want = "ret=0 val=-77777" if w is None else "ret=1 val=%d" % w
                        if o != want:
                            return ("C18:conversion:as-int", "GetInt on the value %r -> %r, documented: %s" % (item, o, want))
                    if g == "b":
                        w = doc_get_bool(item)
                        want = "ret=0 val=7" if w is None else "ret=1 val=%d" % w
                        if o != want:
                            return ("C18:conversion:as-bool", "GetBool on the value %r -> %r, documented: %s" % (item, o, want))
                    if g == "d":
                        w = stod(item) if item else None
                        want = "ret=0 val=" + dbits(-77777.0) if w is None else "ret=1 val=" + w
                        if o != want:
                            return ("C18:conversion:as-double", "GetDouble on the value %r -> %r, std::stod gives %s" % (item, o, want))
        elif k == "aliasdump0":
            alias0 = o
        elif k == "aliasdump1":
            if alias0 is not None:
                stats["alias_checks"] += 1
                if o != alias0:
                    return ("C18:alias:node-changed-by-later-write", "a node obtained with GetItem/config_get_item changed when the source config was written: %s -> %s" % (alias0, o))
        elif k == "rt":
            if before is not None:
                pass
        elif k == "setconv":
            if o != "ret=1":
                return ("C18:set:rejected", "SetString on a fresh config returned false")
            before = {b"k": m[1]}
            last_set = (b"k", "s", m[1], "ret=1")
    return None


def file_rt_monitor(ops, outs):
    """`frt` (SaveToFile + LoadFromFile) must give the tree the preceding `rt` (stream round trip) gave -> (sig, what) | None"""
    last_rt = None
    for op_, out_ in zip(ops, outs):
        if op_ == "rt":
            m_ = re.match(r"rt save=1 load=1 tree=(\S+)", out_)
            last_rt = m_.group(1) if m_ else None
        elif op_ == "frt" and last_rt is not None:
            m_ = re.match(r"frt save=(\d) load=(\d) tree=(\S+)", out_)
            if not m_ or m_.group(1) != "1" or m_.group(2) != "1" or m_.group(3) != last_rt:
                return ("C18:save-load:file-not-the-current-tree",
                        "SaveToFile + LoadFromFile does not give back the tree the config holds (stream round trip: %s, file round "
                        "trip: %s)" % (last_rt, out_))
        elif not op_.startswith(("frt", "rt")):
            if op_.startswith(("parse", "set", "raw", "new")):
                last_rt = None
    return None


def monitor_ops_only(ops, outs):
    """corpus op files carry no metadata: re-derive the set groups"""
    meta = []
    if any(op.startswith(("uopen ", "loadfile ")) for op in ops):
        return lifecycle_monitor(ops, outs)
    if any(op.startswith("customizer ") for op in ops):
        return None          # judged by run_customizer_cases (needs a second run); see replay()

    def keys_of_steps(txt):
        return [] if txt == "-" else [(b"@" + x[1:].encode()) if x[0] == "i" else unhx(x[1:]) for x in txt.split(",")]
    for i, op in enumerate(ops):
        p = op.split(" ")
        prev = ops[i - 1].split(" ") if i > 0 else [""]
        if p[0] == "dump" and i + 1 < len(ops) and ops[i + 1].startswith(("set ", "setitem ", "setraw ")):
            meta.append(("dump",))
        elif p[0] == "get" and p[2] == "is":
            meta.append(("is", unhx(p[1])))
        elif p[0] == "iter":
            meta.append(("iter", unhx(p[1]), p[2]))
        elif p[0] == "sign":
            meta.append(("sign", unhx(p[1])))
        elif p[0] == "dump" and prev[0] == "sign":
            meta.append(("dump-sign", unhx(prev[1])))
        elif p[0] == "setitem":
            meta.append(("setitem", unhx(p[1]), unhx(p[2])))
        elif p[0] == "setraw":
            meta.append(("set", unhx(p[1]), "raw", tundump(p[2])))
        elif p[0] == "dump" and prev[0] in ("setitem", "setraw") and i > 1 and ops[i - 2] == "dump":
            meta.append(("dump-after",) + tuple(meta[-1][1:]))
        elif p[0] == "ref":
            meta.append(("ref", keys_of_steps(p[1]), " ".join(p[2:])))
        elif p[0] == "dump" and prev[0] == "ref":
            meta.append(("dump-ref", keys_of_steps(prev[1]), " ".join(prev[2:])))
        elif p[0] == "node":
            meta.append(("node", unhx(p[1]), " ".join(p[2:])))
        elif p[0] == "dump" and prev[0] == "node":
            ks = canon_steps(unhx(prev[1]))
            meta.append(("dump-node", ks, " ".join(prev[2:])) if ks is not None else ("dump",))
        elif p[0] == "set":
            ty = p[2]
            item = {"s": lambda: unhx(p[3]), "i": lambda: p[3].encode(), "b": lambda: b"true" if p[3] == "1" else b"false",
                    "d": lambda: unhx(p[4]), "list": lambda: [], "map": lambda: {}, "null": lambda: None}[ty]()
            meta.append(("set", unhx(p[1]), ty, item))
        elif p[0] == "dump" and i > 0 and ops[i - 1].startswith("set ") and i > 1 and ops[i - 2] == "dump":
            q = ops[i - 1].split(" ")
            meta.append(("dump-after",) + meta[-1][1:])
        elif p[0] == "get":
            meta.append(("get", unhx(p[1]), p[2]))
        elif p[0] == "aliasdump":
            meta.append(("aliasdump0",) if ops[i - 1].startswith("alias ") else ("aliasdump1",))
        else:
            meta.append((p[0],))
    stats = {"set_ops": 0, "set_ret0": 0, "set_ops_canonical": 0, "get_ops": 0, "typed_gets_checked": 0, "alias_checks": 0}
    if "frt" in ops:
        return file_rt_monitor(ops, outs)
    return monitor_case(ops, meta, outs, stats, set())


# ----------------------------------------------------------------------------- shrinking
def failing_scalar(t):
    """the scalar (value or key) a minimal failing tree fails on: the one with a defect class, else the longest"""
    ss = list(scalars_of(t))
    for s in ss:
        if defect_class(s, isinstance(t, bytes)) != "other":
            return s
    return max(ss, key=len) if ss else None


def classify_tree(t):
    for s in scalars_of(t):
        cls = defect_class(s, isinstance(t, bytes))
        if cls != "other":
            return cls
    return "other"


def tree_candidates(t):
    """strictly smaller trees"""
    if isinstance(t, bytes):
        n = len(t)
        seen = set()
        for w in (n // 2, n // 4, 2, 1):
            if w < 1:
                continue
            for i in range(0, n - w + 1, max(1, w)):
                s = t[:i] + t[i + w:]
                if s not in seen:
                    seen.add(s)
                    yield s
        for i in range(n):
            if t[i] not in (0x61, LF, CR, 0x20) and t[i] < 128:
                yield t[:i] + b"a" + t[i + 1:]
    elif isinstance(t, list):
        for x in t:
            yield x
        for i in range(len(t)):
            yield t[:i] + t[i + 1:]
        for i in range(len(t)):
            for x in tree_candidates(t[i]):
                yield t[:i] + [x] + t[i + 1:]
            if t[i] != b"z" and not isinstance(t[i], bytes):
                yield t[:i] + [b"z"] + t[i + 1:]
    elif isinstance(t, dict):
        for v in t.values():
            yield v
        for k in t:
            yield {kk: vv for kk, vv in t.items() if kk != k}
        for k in sorted(t):
            for x in tree_candidates(t[k]):
                d = dict(t)
                d[k] = x
                yield d
            if not isinstance(t[k], bytes):
                d = dict(t)
                d[k] = b"z"
                yield d
            for nk in list(tree_candidates(k))[:40] + [b"k", b"a"]:
                if nk not in t and (len(nk) < len(k) or (len(nk) == len(k) and nk < k)):
                    d = {kk: vv for kk, vv in t.items() if kk != k}
                    d[nk] = t[k]
                    yield d


def shrink_tree(impl, t, budget=40):
    cur = t
    for _ in range(budget):
        cands = []
        seen = set()
        for x in tree_candidates(cur):
            if x is None:
                continue
            d = tdump(x)
            if d in seen or not tree_in_domain(x) or tree_size(x) > tree_size(cur):
                continue
            if tree_size(x) == tree_size(cur) and d >= tdump(cur):
                continue
            seen.add(d)
            cands.append(x)
            if len(cands) >= 400:
                break
        if not cands:
            break
        res = impl.roundtrip(cands)
        failing = [x for x, r in zip(cands, res) if rt_fails(x, r)]
        if not failing:
            break
        cur = min(failing, key=lambda x: (tree_size(x), tdump(x)))
    return cur


def api_recipe(t):
    """how to build the tree through the public API (paths are only possible for '/'-free, non-@ keys)"""
    out = []

    def go(x, path):
        if isinstance(x, bytes):
            out.append("config_set_string(cfg, %r, %r)" % (path, x.decode("utf-8", "replace")))
        elif isinstance(x, list):
            if not x:
                out.append("config_create_list(cfg, %r)" % path)
            for i, y in enumerate(x):
                go(y, (path + "/" if path else "") + "@%d" % i)
        elif isinstance(x, dict):
            if not x:
                out.append("config_create_map(cfg, %r)" % path)
            for k, v in sorted(x.items()):
                go(v, (path + "/" if path else "") + k.decode("utf-8", "replace"))
    go(t, "")
    return out + ["Config::SaveToStream(out); Config::LoadFromStream(in)"]


def ops_fail(impl, ops, sig):
    rc, outs, log = impl.run(ops)
    if len(outs) < len(ops):
        return sig == "C18:sanitizer"
    bad = monitor_ops_only(ops, outs)
    return bad is not None and bad[0] == sig


def shrink_ops(impl, ops, sig):
    """delta debugging on whole lines, keeping 'new' first"""
    head, body = ops[:1], ops[1:]
    n = 2
    while len(body) >= 2 and n <= len(body):
        chunk = max(1, len(body) // n)
        reduced = False
        for i in range(0, len(body), chunk):
            cand = body[:i] + body[i + chunk:]
            if cand and ops_fail(impl, head + cand, sig):
                body = cand
                n = max(n - 1, 2)
                reduced = True
                break
        if not reduced:
            if chunk == 1:
                break
            n = min(n * 2, len(body))
    return head + body


# ----------------------------------------------------------------------------- replay
def replay(c, r):
    kind = r.get("kind")
    if kind == "save-load":
        impl = Impl(c)
        t = tundump(r["tree"])
        doc, loaded, dumped = impl.roundtrip([t])[0]
        fails = rt_fails(t, (doc, loaded, dumped))
        print("replay save/load of %s: document %r, %s -> %s" % (r["tree"], doc, "loaded as " + str(dumped) if loaded else "does not load",
                                                                "VIOLATED" if fails else "ok"))
        return 1 if fails else 0
    if kind == "ops" and any(o.startswith("customizer ") for o in r["ops"]):
        impl = Impl(c)
        fails = {}
        crashed = run_customizer_cases(impl, None, 0, {}, [], fails, fixed=[o for o in r["ops"] if o.startswith("customizer ")])
        for sig, case in fails.items():
            print("replay customizer: VIOLATED %s: %s" % (sig, case["what"][:600]))
        if crashed:
            print("replay customizer: the harness aborted")
        if not fails and not crashed:
            print("replay customizer: ok")
        return 1 if (fails or crashed) else 0
    if kind == "ops":
        impl = Impl(c)
        rc, outs, log = impl.run(r["ops"])
        for o, x in zip(r["ops"], outs):
            print("  %s -> %s" % (o, x))
        bad = monitor_ops_only(r["ops"], outs) if len(outs) == len(r["ops"]) else ("C18:sanitizer", log[-500:])
        print("replay ops: %s" % ("VIOLATED " + bad[0] + ": " + bad[1] if bad else "ok"))
        return 1 if bad else 0
    print("replay: this file names a broken obligation, no concrete input:", r.get("what"))
    return 1
