"""C19 — key names and key sequences round-trip through their textual form."""
import os, sys, json, re, glob, itertools
import vlib

META = {
    "technique": ("Lean 4 theorems over key tables regenerated from key_table.cc (kernel-checked n·log n table facts) "
                  "+ differential run of the real KeyEvent/KeySequence against the Lean model under ASan/UBSan"),
    "level": "proof",
    "level_text": ("Theorems C19.parse_repr_event / parse_repr_seq / parse_unknown_fails: in the line-by-line Lean model of "
                   "KeyEvent::repr/Parse and KeySequence::repr/Parse, for EVERY key code that has a name in the key table "
                   "regenerated from the working tree (other than XK_VoidSymbol) and EVERY subset of the named modifier bits "
                   "(all 2^17, by a general argument on '+'-joined '+'-free tokens, not enumeration), Parse(repr(e)) = e; the "
                   "same for every finite sequence of such events in key-sequence notation (induction); and every text of two "
                   "or more bytes whose last token is no key name or with an earlier token that is no modifier name is rejected. "
                   "The table facts the proofs rest on (names pairwise distinct, keys_by_name a permutation of keys_by_keyval, "
                   "names non-empty and free of NUL/'+'/'{'/'}', one-byte names = own ASCII code, terminator only last, modifier "
                   "lookup inverse, named bits inside kModifierMask) are re-checked by the Lean kernel on every run against the "
                   "tables as compiled from the current source."),
    "level_note": ("Outside the theorem: that the hand-written model equals the C++ (tied by a differential run of the real "
                   "code under ASan+UBSan: whole table x sampled masks, all 2^17 masks x a few keys in the thorough tier, all "
                   "strings to length 4-5 over {a,+,{,},S,h,i,f,t,0,x}, directed boundary codes/masks and texts, random longer texts and "
                   "sequences, simulate_key_sequence; key bindings loaded by the real KeyBinder / Navigator from such texts must act "
                   "on the key and send the keys that Parse gives, and bind nothing when Parse fails); memory safety of the C++ (sanitizers only); the translator gen/c19_tables.py "
                   "(a compiled dumper that #includes key_table.cc; row counts cross-checked by an independent source scan, "
                   "fails closed); x86-64 signed char for the one-byte shortcut. Masks with unnamed bits and unnamed key "
                   "codes are outside the property (they cannot be written down; counter-examples are proved in the file)."),
    "design_ref": "DESIGN.md §3 C19",
}

SRC_FILES = ["src/rime/key_event.cc", "src/rime/key_event.h", "src/rime/key_table.cc", "src/rime/key_table.h",
             "src/rime/gear/key_binder.cc", "src/rime/gear/key_binding_processor_impl.h"]
GEN_OUT = os.path.join(vlib.LEAN, "RimeModel", "Gen", "KeyTables.lean")
ALPHABET = [b"a", b"+", b"{", b"}", b"S", b"h", b"i", b"f", b"t", b"0", b"x"]
GENERATOR_VERSION = 2


DIRECTED_TEXTS = [
    b"Release+a", b"Release+Release+a", b"Shift+Shift+a", b"Shift+Release+Shift+Return", b"Release", b"Shift", b"Shift+", b"+a", b"a+",
    b"+", b"++", b"Shift++a", b"Shift+plus", b"Control+Shift+Alt+a", b"Alt+a", b"Mod1+a", b"Meta+a", b"Super+Hyper+a", b"Lock+a",
    b"Button1+a", b"Button5+Mod5+a", b"shift+a", b"SHIFT+a", b"Shift+A", b"Return", b"return", b"RETURN", b"space", b"Space", b"BackSpace",
    b"Backspace", b"KP_0", b"KP_Enter", b"F1", b"F35", b"F36", b"VoidSymbol", b"Shift+VoidSymbol", b"0x0000", b"0x0061", b"0xffff", b"0x61",
    b"0xffffff", b"0x1000000", b"Shift+0x0061", b"(unknown)", b"Shift+(unknown)", b"a", b"ab", b"{", b"}", b"{}", b"{{", b"}}", b"{{}", b"{}}", b"a{",
    b"{a", b"{a}", b"{{a}}", b"{a{b}}", b"{a}{b}", b"{Shift+a}", b"{Release+a}", b"{braceleft}", b"{braceright}", b"braceleft", b"\\{", b"\\}",
    b"{\\}}", b"\xe4\xb8\xad", b"{\xe4\xb8\xad}", b"Shift+\xe4", b"\xff", b"{\xff}", b"a\0b", b"Shift\0x+a", b"Return\0x", b" ", b"  ", b"{ }",
    b"Shift+ ", b" Shift+a", b"Shift +a", b"Shift+space", b"Control+Control+Control+Control+space",
]


def hx(b):
    return b.hex() if b else "-"


def unhx(h):
    return b"" if h == "-" else bytes.fromhex(h)


def cstr(b):
    i = b.find(b"\0")
    return b if i < 0 else b[:i]


# ----------------------------------------------------------------------------- implementation access
class Impl:
    """the real librime through harness/c19_harness (ASan+UBSan build of the working tree)"""

    def __init__(self, c):
        self.c = c
        self.exe, self.bdir = vlib.build_harness("c19_harness", "san", ["c19_harness.cc"])
        self.n = 0
        self.ws = os.path.join(c.work, "simws")
        os.makedirs(self.ws, exist_ok=True)
        self.evaluations = 0

    def run(self, ops):
        """-> (rc, outputs, log).  len(outputs) < len(ops) iff the process died at op len(outputs)."""
        self.n += 1
        fin = os.path.join(self.c.work, "ops_%d.txt" % self.n)
        fout = os.path.join(self.c.work, "out_%d.txt" % self.n)
        with open(fin, "w") as f:
            f.write("".join(o + "\n" for o in ops))
        rc, log = vlib.sh([self.exe, fin, fout, self.ws], env=vlib.SAN_ENV, timeout=3000)
        try:
            outs = open(fout).read().split("\n")
            if outs and outs[-1] == "":
                outs.pop()
            else:
                outs = outs[:-1]   # partial last line
        except OSError:
            outs = []
        self.evaluations += len(outs)
        return rc, outs, log

    # --- the property's own experiments, used by O's minimiser and by replay
    def event_roundtrip(self, k, m):
        """-> (ok, detail) : Parse(repr(k,m)) == (k,m) on the implementation"""
        rc, o, log = self.run(["repr %d %d" % (k, m)])
        if rc != 0 or len(o) != 1:
            return False, {"stage": "repr", "rc": rc, "log": log[-1500:]}
        rc2, o2, log2 = self.run(["parse " + o[0]])
        if rc2 != 0 or len(o2) != 1:
            return False, {"stage": "parse", "text_hex": o[0], "rc": rc2, "log": log2[-1500:]}
        return o2[0] == "ok %d %d" % (k, m), {"text_hex": o[0], "text": unhx(o[0]).decode("latin-1"), "parse": o2[0]}

    def seq_roundtrip(self, evs):
        s = ",".join("%d:%d" % (k, m) for k, m in evs) or "-"
        rc, o, log = self.run(["seqrepr " + s])
        if rc != 0 or len(o) != 1:
            return False, {"stage": "seqrepr", "rc": rc, "log": log[-1500:]}
        rc2, o2, log2 = self.run(["seqparse " + o[0]])
        if rc2 != 0 or len(o2) != 1:
            return False, {"stage": "seqparse", "text_hex": o[0], "rc": rc2, "log": log2[-1500:]}
        return o2[0] == "ok " + s, {"text_hex": o[0], "text": unhx(o[0]).decode("latin-1"), "parse": o2[0]}


# ----------------------------------------------------------------------------- tables / oracle
class Tables:
    def __init__(self, gen):
        self.void = gen["voidSymbol"]
        self.mask = gen["kModifierMask"]
        self.byval = [(k, bytes.fromhex(n)) for k, n in gen["byval"]]
        self.byname = [(k, bytes.fromhex(n)) for k, n in gen["byname"]]
        self.mods = [None if m is None else bytes.fromhex(m) for m in gen["modifiers"]]
        self.keynames = {n for k, n in self.byval if k != self.void}
        self.modnames = {m for m in self.mods if m is not None}
        self.named_bits = [i for i, m in enumerate(self.mods) if m is not None]
        self.all_named = sum(1 << i for i in self.named_bits)
        seen, ks = set(), []
        for k, n in self.byval:
            if k != self.void and k not in seen:
                seen.add(k)
                ks.append(k)
        self.keys = ks                       # the domain's key codes, table order
        self.first_name = {}
        for k, n in self.byname:
            self.first_name.setdefault(k, n)

    def keyname(self, k):
        n = self.first_name.get(k)
        return n.decode("latin-1") if n is not None else "0x%x" % k

    def names_unknown(self, text):
        """the property's rejection clause on an event text of >= 2 bytes: 'key' / 'modifier' / None"""
        toks = text.split(b"+")
        for t in toks[:-1]:
            if cstr(t) not in self.modnames:
                return "modifier"
        if cstr(toks[-1]) not in self.keynames:
            return "key"
        return None

    def seq_names_unknown(self, text):
        """same for key-sequence notation: some complete {...} group of >= 2 bytes names something unknown"""
        i, n = 0, len(text)
        while i < n:
            if text[i] == 0x7b and i + 1 < n:
                j = text.find(b"}", i + 1)
                if j < 0:
                    return None
                inner = text[i + 1:j]
                if len(inner) >= 2:
                    u = self.names_unknown(inner)
                    if u:
                        return u
                i = j + 1
            else:
                i += 1
        return None


# ----------------------------------------------------------------------------- generators
def masks_for(T, rng, nrand):
    ms = [0, T.all_named] + [1 << i for i in T.named_bits]
    for _ in range(nrand):
        ms.append(sum(1 << i for i in T.named_bits if rng.random() < 0.5))
    return ms


def rand_subset_mask(T, rng):
    p = rng.choice([0.1, 0.3, 0.5, 0.8])
    return sum(1 << i for i in T.named_bits if rng.random() < p)


def mutate_name(rng, n):
    r = rng.random()
    if r < 0.2:
        return n + b"x"
    if r < 0.4:
        return n[:-1]
    if r < 0.55:
        return n.swapcase()
    if r < 0.7:
        return n + b"\0" + bytes(rng.randrange(1, 256) for _ in range(rng.randrange(0, 4)))
    if r < 0.8:
        return b""
    if r < 0.9:
        return b"0x%04x" % rng.randrange(0, 0x10000)
    return bytes(rng.randrange(0, 256) for _ in range(rng.randrange(1, 6)))


def rand_event_text(T, rng):
    names = T.byval
    mods = [m for m in T.mods if m is not None]
    toks = []
    for _ in range(rng.choice([0, 0, 1, 1, 2, 3, 5])):
        m = rng.choice(mods)
        toks.append(m if rng.random() < 0.85 else rng.choice([mutate_name(rng, m), b"Mod1", b"Ctrl", b"shift"]))
    k = rng.choice(names)[1]
    toks.append(k if rng.random() < 0.7 else mutate_name(rng, k))
    t = b"+".join(toks)
    if rng.random() < 0.1 and t:
        p = rng.randrange(len(t) + 1)
        t = rng.choice([t[:p] + bytes([rng.randrange(256)]) + t[p:], t[:p] + t[p + 1:], t[:p] + b"+" + t[p:]])
    return t


def rand_seq_text(T, rng):
    out = b""
    for _ in range(rng.randrange(0, 9)):
        r = rng.random()
        if r < 0.35:
            out += bytes([rng.randrange(0x20, 0x7f)])
        elif r < 0.8:
            out += b"{" + rand_event_text(T, rng) + b"}"
        elif r < 0.86:
            out += rng.choice([b"{", b"}", b"{}", b"{{", b"}{"])
        elif r < 0.93:
            out += bytes([rng.randrange(0x80, 0x100)])
        else:
            out += bytes([rng.randrange(0, 0x20)])
    return out


def rand_domain_event(T, rng):
    r = rng.random()
    if r < 0.35:
        k = rng.randrange(0x20, 0x7f)
        if k not in T.first_name:
            k = rng.choice(T.keys)
    else:
        k = rng.choice(T.keys)
    m = 0 if rng.random() < 0.5 else rand_subset_mask(T, rng)
    return (k, m)


def rand_any_event(T, rng):
    r = rng.random()
    if r < 0.4:
        k = rng.choice(T.keys + [T.void])
    elif r < 0.6:
        k = rng.randrange(0, 0x10000)
    elif r < 0.75:
        k = rng.randrange(0x10000, 0x1000000)
    elif r < 0.9:
        k = rng.randrange(0, 1 << 32)
    else:
        k = (1 << 32) - rng.randrange(1, 300)
    r = rng.random()
    m = rand_subset_mask(T, rng) if r < 0.4 else (rng.randrange(0, 1 << 32) if r < 0.8 else rng.choice([0, 1 << 24, 1 << 13, 1 << 31, 0xffffffff]))
    return (k, m)


def evs_str(evs):
    return ",".join("%d:%d" % e for e in evs) or "-"


def build_pass1(c, T):
    """-> list of (op_line, tag) ; tag drives pass 2 and O"""
    quick = c.tier == "quick"
    rng = c.rng
    ops = []
    # regression corpus first
    for f in sorted(glob.glob(os.path.join(vlib.CORPUS, "C19", "*.ops"))):
        for line in open(f):
            line = line.strip()
            if line and not line.startswith("#"):
                ops.append((line, ("corpus", os.path.basename(f))))
    # the four lookups over the whole table
    for k in T.keys + [T.void]:
        ops.append(("name %d" % k, ("lookup",)))
    for k, n in T.byval:
        ops.append(("code " + hx(n), ("lookup",)))
    for _ in range(300 if quick else 3000):
        ops.append(("name %d" % rng.randrange(0, 1 << (rng.choice([8, 16, 24, 32]))), ("lookup",)))
        ops.append(("code " + hx(mutate_name(rng, rng.choice(T.byval)[1])), ("lookup",)))
    for i in range(32):
        ops.append(("modname %d" % (1 << i), ("lookup",)))
    for _ in range(200 if quick else 2000):
        ops.append(("modname %d" % rng.randrange(0, 1 << 32), ("lookup",)))
    for m in T.mods:
        if m is not None:
            ops.append(("modcode " + hx(m), ("lookup",)))
            ops.append(("modcode " + hx(mutate_name(rng, m)), ("lookup",)))
    # domain events: the whole table x sampled masks
    for k in T.keys:
        for m in masks_for(T, rng, 6 if quick else 40):
            ops.append(("repr %d %d" % (k, m), ("ev", k, m)))
    # a few keys x (all masks | stratified subset)
    special = [k for k in (0x61, 0x27, 0x20, 0xff0d, 0x7b) if k in T.first_name]
    special.append(rng.choice(T.keys))
    nb = len(T.named_bits)
    if quick:
        strat = [0]
        for r in (1, 2):
            strat += [sum(1 << i for i in comb) for comb in itertools.combinations(T.named_bits, r)]
        strat += [T.all_named ^ (1 << i) for i in T.named_bits]
        for k in special[:3]:
            for m in strat + [rand_subset_mask(T, rng) for _ in range(2500)]:
                ops.append(("repr %d %d" % (k, m), ("ev", k, m)))
        exhaustive_masks = False
    else:
        for k in special:
            for bits in range(1 << nb):
                m = 0
                for j in range(nb):
                    if bits >> j & 1:
                        m |= 1 << T.named_bits[j]
                ops.append(("repr %d %d" % (k, m), ("ev", k, m)))
        exhaustive_masks = True
    # out-of-domain events (correspondence only)
    for _ in range(3000 if quick else 30000):
        k, m = rand_any_event(T, rng)
        ops.append(("repr %d %d" % (k, m), ("evx", k, m)))
    # directed boundaries of the unnamed-code forms (0x%04x up to 0xffff, 0x%06x up to 0xffffff, "(unknown)" above, negative
    # ints) x masks on the boundaries of kModifierMask, alone and inside sequences
    edge_codes = [0, 1, 0x1f, 0x20, 0x7e, 0x7f, 0x80, 0xff, 0x100, 0xfff, 0x1000, 0xfffe, 0xffff, 0x10000, 0x10001, 0xfffff,
                  0x100000, 0xfffffe, 0xffffff, 0x1000000, 0x1000001, 0x7fffffff, 0x80000000, 0x80000001, 0xffff0000, 0xfffffffe, 0xffffffff]
    edge_masks = [0, 1, 4, 1 << 30, 1 << 31, T.all_named, T.mask, T.mask ^ 0xffffffff, 0xffffffff, 1 << 13, 1 << 29]
    for k in edge_codes:
        ops.append(("name %d" % k, ("lookup",)))
        for m in edge_masks:
            ops.append(("repr %d %d" % (k, m), ("evx", k, m)))
            ops.append(("seqrepr 97:0,%d:%d,%d:0" % (k, m, k), ("seqx", ((97, 0), (k, m), (k, 0)))))
    for m in edge_masks:
        ops.append(("modname %d" % m, ("lookup",)))
    # sequences of domain events
    for k in T.keys:
        ops.append(("seqrepr %d:0" % k, ("seq", ((k, 0),))))
        m = rand_subset_mask(T, rng) or 1
        ops.append(("seqrepr %d:%d" % (k, m), ("seq", ((k, m),))))
    for _ in range(3000 if quick else 30000):
        evs = tuple(rand_domain_event(T, rng) for _ in range(rng.randrange(0, 13)))
        ops.append(("seqrepr " + evs_str(evs), ("seq", evs)))
    for _ in range(1000 if quick else 10000):
        evs = tuple(rand_any_event(T, rng) if rng.random() < 0.4 else rand_domain_event(T, rng) for _ in range(rng.randrange(0, 8)))
        ops.append(("seqrepr " + evs_str(evs), ("seqx", evs)))
    # parser: all strings up to a length bound over the small alphabet
    maxlen = 4 if quick else 5
    for L in range(0, maxlen + 1):
        for tup in itertools.product(ALPHABET, repeat=L):
            t = b"".join(tup)
            ops.append(("parse " + hx(t), ("ptxt", t)))
            ops.append(("seqparse " + hx(t), ("stxt", t)))
    # every single byte through the size-1 shortcut
    for b in range(256):
        ops.append(("parse %02x" % b, ("ptxt", bytes([b]))))
        ops.append(("seqparse %02x" % b, ("stxt", bytes([b]))))
    # directed texts: repeated / misplaced '+', Release, repeated and unknown modifiers, case variants, hex forms, braces
    for t in DIRECTED_TEXTS:
        ops.append(("parse " + hx(t), ("ptxt", t)))
        ops.append(("seqparse " + hx(t), ("stxt", t)))
        ops.append(("seqparse " + hx(b"{" + t + b"}"), ("stxt", b"{" + t + b"}")))
        ops.append(("seqparse " + hx(b"a{" + t + b"}{Return}b"), ("stxt", b"a{" + t + b"}{Return}b")))
    # random longer texts
    for _ in range(6000 if quick else 60000):
        t = rand_event_text(T, rng)
        ops.append(("parse " + hx(t), ("ptxt", t)))
    sims = 0
    for _ in range(6000 if quick else 60000):
        t = rand_seq_text(T, rng)
        ops.append(("seqparse " + hx(t), ("stxt", t)))
        if sims < (150 if quick else 1500) and b"\0" not in t:
            sims += 1
            ops.append(("sim " + hx(t), ("sim", t, len(ops) - 1)))
    return ops, {"exhaustive_masks_keys": special if exhaustive_masks else [], "alphabet_maxlen": maxlen,
                 "special_keys": special}


def build_bind_cases(c, T):
    """texts whose parse results (pass 1, on the implementation) decide what a key binding made from them must do"""
    quick = c.tier == "quick"
    rng = c.rng
    cases = []
    dk = [b"Control+a", b"Shift+Return", b"a", b"Release+a", b"Contrl+a", b"Control+", b"", b"0x0061", b"Control+Shift+Left", b"space", b"{", b"F4"]
    dt = [b"Home", b"Shift+End", b"b", b"Nope", b"Shift+Nope", b"Shft+Home", b"", b"Release+b", b"0x0062"]
    ds = [b"ab", b"a{Shift+Left}b", b"{Home}{End}", b"{Nope}", b"a{", b"{Shift+}", b"", b"{}", b"{Control+a}", b"x{Release+x}"]
    for a in dk:
        for t in dt:
            cases.append(("send", a, t))
        for t in ds:
            cases.append(("seq", a, t))
        cases.append(("nav", a, None))
    for t in DIRECTED_TEXTS[::2]:
        cases.append(("nav", t, None))
        cases.append(("send", t, b"Home"))
        cases.append(("send", b"Control+a", t))
        cases.append(("seq", b"Control+a", t))
    for _ in range(250 if quick else 2500):
        a = rand_event_text(T, rng)
        r = rng.random()
        if r < 0.4:
            cases.append(("send", a, rand_event_text(T, rng)))
        elif r < 0.8:
            cases.append(("seq", a, rand_seq_text(T, rng)))
        else:
            cases.append(("nav", a, None))
    return cases


RELEASE_MASK = 1 << 30


def expect_binding(kind, pa, pt):
    """pa / pt: the implementation's own `parse` / `seqparse` answers for the accept and the target text.
    -> (probe key, what the binding must do when that key is pressed)"""
    a_ok = pa.startswith("ok ")
    probe = tuple(int(x) for x in pa.split()[1:3]) if a_ok else (0, 0)
    if kind == "nav":
        bound = a_ok and not (probe[1] & RELEASE_MASK)       # the navigator ignores key releases
        return probe, "caret 0" if bound else "caret 3"
    t_ok = pt.startswith("ok")
    if a_ok and t_ok:
        evs = "%s:%s" % tuple(pt.split()[1:3]) if kind == "send" else pt.split(" ", 1)[1]
        return probe, "rec " + evs
    return probe, "rec %d:%d" % probe


def kind_of(op):
    return op.split(" ", 1)[0]


# ----------------------------------------------------------------------------- minimisers
def minimise_event(impl, T, k, m):
    """greedy: drop modifier bits while the round trip still fails; then try the plain key 'a'"""
    bits = [i for i in range(32) if m >> i & 1]
    cur = m
    for i in bits:
        t = cur & ~(1 << i)
        ok, _ = impl.event_roundtrip(k, t)
        if not ok:
            cur = t
    key_specific = cur == 0
    k2 = k
    if not key_specific:
        for cand in (0x61, 0x20, 0xff0d):
            if cand in T.first_name and cand != k:
                ok, _ = impl.event_roundtrip(cand, cur)
                if not ok:
                    k2 = cand
                    break
    ok, detail = impl.event_roundtrip(k2, cur)
    bl = "+".join(str(i) for i in range(32) if cur >> i & 1)
    if key_specific:
        sig = "C19:event-roundtrip:key=%s" % T.keyname(k)
    elif k2 != k or k in (0x61, 0x20, 0xff0d):
        sig = "C19:event-roundtrip:modifier-bits=%s" % bl
    else:
        sig = "C19:event-roundtrip:key=%s,modifier-bits=%s" % (T.keyname(k), bl)
    return sig, k2, cur, detail


def shape(T, e):
    k, m = e
    n = T.first_name.get(k)
    if n is None:
        return "unnamed"
    if m == 0 and len(n) == 1:
        return "char"
    if m == 0 and 0x20 <= k <= 0x7e and k not in (0x7b, 0x7d):
        return "plain"
    return "combo" if m else "named"


def minimise_seq(impl, T, evs):
    cur = list(evs)
    i = 0
    while i < len(cur) and len(cur) > 1:
        t = cur[:i] + cur[i + 1:]
        ok, _ = impl.seq_roundtrip(t)
        if not ok:
            cur = t
        else:
            i += 1
    # simplify masks of the survivors
    for j, (k, m) in enumerate(cur):
        for b in range(32):
            if m >> b & 1:
                t = list(cur)
                t[j] = (k, cur[j][1] & ~(1 << b))
                ok, _ = impl.seq_roundtrip(t)
                if not ok:
                    cur = t
    ok, detail = impl.seq_roundtrip(cur)
    return "C19:seq-roundtrip:" + "/".join(shape(T, e) for e in cur), cur, detail


def failing_theorems(audit):
    """map Lean error locations in Props/C19.lean to theorem names"""
    names = []
    try:
        src = open(vlib.module_file("RimeModel.Props.C19")).read().splitlines()
    except OSError:
        return names
    starts = []
    for i, l in enumerate(src, 1):
        mm = re.match(r"\s*theorem\s+([\w.']+)", l)
        if mm:
            starts.append((i, mm.group(1)))
    for f, line in audit.get("failed_locations", []):
        if f.endswith("Props/C19.lean"):
            cand = [n for (i, n) in starts if i <= line]
            if cand and cand[-1] not in names:
                names.append(cand[-1])
    return names


# ----------------------------------------------------------------------------- the check
def run(c):
    quick = c.tier == "quick"
    # G
    rc, out = vlib.sh([sys.executable, os.path.join(vlib.ROOT, "gen", "c19_tables.py"), vlib.REPO, GEN_OUT])
    if rc != 0 or "{" not in out:
        raise vlib.BuildError("translator c19_tables failed: " + out[-3000:])
    gen = json.loads(out[out.index("{"):])
    if gen["voidSymbol"] is None or gen["kModifierMask"] is None or not gen["byval"] or not gen["byname"]:
        # the tables could not be extracted at all (shape of key_table.cc not understood): the Gen file
        # was written fail-closed, nothing can be generated from it -> undischarged obligation
        audit = vlib.lean_audit("C19")
        c.report("C19:translator", "key tables of src/rime/key_table.cc could not be extracted: %s" % "; ".join(gen["problems"])[:600],
                 {"kind": "proof", "broken": "translator gen/c19_tables.py", "problems": gen["problems"]}, no_input=True)
        # the model cannot be regenerated: search the implementation alone for a concrete event that does not round-trip
        # (keys that certainly have names / are printable x every single modifier bit and every pair of bits; an event whose
        # text contains a raw 0x… part is outside the named domain and is skipped)
        found, n_eval = None, 0
        try:
            impl = Impl(c)
            keys = [0x20, 0x61, 0xff0d, 0xff08, 0xff51]
            # the modifier bits X11 names (Shift Lock Control Mod1-5 Button1-5, Super Hyper Meta, Release); other bits are
            # outside the property's named domain
            bits = [1 << b for b in range(13)] + [1 << 26, 1 << 27, 1 << 28, 1 << 30]
            masks = [0] + bits + [a | b for i, a in enumerate(bits) for b in bits[i + 1:]]
            ops = ["repr %d %d" % (k, m) for k in keys for m in masks]
            rc1, o1, log1 = impl.run(ops)
            texts = o1[:len(ops)]
            rc2, o2, log2 = impl.run(["parse " + t for t in texts])
            n_eval = len(o1) + len(o2)
            for (k, m), t, pr in zip([(k, m) for k in keys for m in masks], texts, o2):
                txt = unhx(t).decode("latin-1")
                if "0x" in txt or not txt:
                    continue
                if pr != "ok %d %d" % (k, m):
                    found = {"keycode": k, "mask": m, "text": txt, "parse": pr}
                    break
        except Exception as e:      # the fallback is a search: its own failure must not hide the broken obligation
            found = None
        if found:
            c.report("C19:event-roundtrip:impl-only", "KeyEvent %d:%d is written as %r and parses back as %s (found by the "
                     "implementation-only search after the table translator failed)" % (found["keycode"], found["mask"], found["text"], found["parse"]),
                     {"kind": "event", "keycode": found["keycode"], "modifier": found["mask"], "detail": found,
                      "translator_problems": gen["problems"]})
        c.cov = vlib.proof_cov(audit, "lake build RimeModel.Props.C19", vlib.STD_TRUSTED)
        c.cov.update({"evaluations": n_eval, "distinct_nontrivial": 0,
                      "rule": "translator failed; implementation-only round-trip search over 5 keys x single and paired modifier bits", "samples": [],
                      "translator": {"ok": gen["ok"], "problems": gen["problems"]}})
        return
    T = Tables(gen)
    # P
    audit = vlib.lean_audit("C19")
    checker_cmd = "lake build RimeModel.Props.C19 && #print axioms (all theorems) && forbidden-token scan"
    if not quick and audit["ok"]:
        ok, log = vlib.leanchecker("RimeModel.Props.C19")
        checker_cmd += " && lake env leanchecker RimeModel.Props.C19"
        if not ok:
            audit["ok"] = False
            audit["failures"].append(("RimeModel.Props.C19", "leanchecker: " + log))
    rcd, outd = vlib.lake_build(["driver_c19"])
    if rcd != 0:
        raise vlib.BuildError("driver_c19 does not build: " + outd[-3000:])
    # B
    impl = Impl(c)
    # K pass 1
    ops1, ginfo = build_pass1(c, T)
    lines1 = [o for o, _ in ops1]
    rc1, out1, log1 = impl.run(lines1)
    crashes = []
    if rc1 != 0 or len(out1) != len(lines1):
        crashes.append((lines1[len(out1)] if len(out1) < len(lines1) else "<exit>", rc1, log1))
    # K pass 2: feed the implementation's own texts back
    ops2 = []
    for (op, tag), o in zip(ops1, out1):
        if tag[0] in ("ev", "evx"):
            ops2.append(("parse " + o, ("rt", tag[0], tag[1], tag[2], o)))
        elif tag[0] in ("seq", "seqx"):
            ops2.append(("seqparse " + o, ("srt", tag[0], tag[1], o)))
    lines2 = [o for o, _ in ops2]
    rc2, out2, log2 = impl.run(lines2)
    if rc2 != 0 or len(out2) != len(lines2):
        crashes.append((lines2[len(out2)] if len(out2) < len(lines2) else "<exit>", rc2, log2))
    # K pass 3: the users of the parser (gear/key_binder.cc LoadBindings, gear/key_binding_processor_impl.h LoadConfig):
    # a binding written with a text must act on exactly the key KeyEvent::Parse gives for it and send what Parse /
    # KeySequence::Parse give for the target; a text that does not parse binds nothing
    bind_cases = build_bind_cases(c, T)
    pre = []
    for kind, a, t in bind_cases:
        pre.append("parse " + hx(a))
        if kind != "nav":
            pre.append(("parse " if kind == "send" else "seqparse ") + hx(t))
    rc3, out3, log3 = impl.run(pre)
    bind_ops, bind_fail = [], []
    if rc3 != 0 or len(out3) != len(pre):
        crashes.append((pre[len(out3)] if len(out3) < len(pre) else "<exit>", rc3, log3))
    else:
        it = iter(out3)
        for kind, a, t in bind_cases:
            pa = next(it)
            pt = next(it) if kind != "nav" else None
            probe, want = expect_binding(kind, pa, pt)
            # the constructors from text: Parse, or the null event / the empty sequence when Parse fails
            bind_ops.append(("ctor " + hx(a), ("ctor", a, None, pa, None, " ".join(pa.split()[1:3]) if pa.startswith("ok ") else "0 0")))
            if kind == "seq":
                bind_ops.append(("seqctor " + hx(t), ("seqctor", t, None, pt, None, pt.split(" ", 1)[1] if pt.startswith("ok ") else "-")))
            if kind == "nav":
                bind_ops.append(("navbind %s %d %d" % (hx(a), probe[0], probe[1]), (kind, a, t, pa, pt, want)))
            else:
                bind_ops.append(("kbind %s %s %s %d %d" % (hx(a), kind, hx(t), probe[0], probe[1]), (kind, a, t, pa, pt, want)))
        lines3 = [o for o, _ in bind_ops]
        rc4, out4, log4 = impl.run(lines3)
        if rc4 != 0 or len(out4) != len(lines3):
            crashes.append((lines3[len(out4)] if len(out4) < len(lines3) else "<exit>", rc4, log4))
        for (op, tag), o in zip(bind_ops, out4):
            if o != tag[5]:
                bind_fail.append((op, tag, o))
    lines1 = lines1 + pre[:len(out3)]          # the parse answers used above are compared with the model like all others
    out1 = out1 + out3
    # model on the same lines
    all_lines = lines1[:len(out1)] + lines2[:len(out2)]
    all_impl = out1 + out2
    model = vlib.run_driver("driver_c19", "".join(l + "\n" for l in all_lines)).split("\n")
    mismatches = []
    for l, a, b in zip(all_lines, all_impl, model):
        if a != b:
            mismatches.append({"op": l, "impl": a, "model": b})
    # O — the property on the implementation's outputs
    ev_fail, seq_fail, unk_fail, sim_fail = [], [], [], []
    n_ev = n_seq = n_unknown = n_known = 0
    nontrivial = set()
    ev_seen = set()
    for (op, tag), o in zip(ops2, out2):
        if tag[0] == "rt" and tag[1] == "ev":
            k, m, text = tag[2], tag[3], tag[4]
            n_ev += 1
            ev_seen.add((k, m))
            if len(text) >= 4:         # hex of >= 2 bytes: the general path ('+' split, table scans)
                nontrivial.add(("ev", k, m))
            if o != "ok %d %d" % (k, m):
                ev_fail.append((k, m, text, o))
        elif tag[0] == "srt" and tag[1] == "seq":
            evs, text = tag[2], tag[3]
            n_seq += 1
            if "7b" in [text[i:i + 2] for i in range(0, len(text), 2)]:
                nontrivial.add(("seq", evs))
            if o != "ok " + evs_str(evs):
                seq_fail.append((evs, text, o))
    res1 = {}
    for idx, ((op, tag), o) in enumerate(zip(ops1, out1)):
        if tag[0] == "ptxt":
            t = tag[1]
            if len(t) == 0:
                if o != "fail":
                    unk_fail.append(("parse", "empty", t, o))
            elif len(t) >= 2:
                u = T.names_unknown(t)
                if u:
                    n_unknown += 1
                    nontrivial.add(("ptxt", t))
                    if o != "fail":
                        unk_fail.append(("parse", u, t, o))
                else:
                    n_known += 1
        elif tag[0] == "stxt":
            t = tag[1]
            res1[idx] = o
            u = T.seq_names_unknown(t)
            if u:
                n_unknown += 1
                nontrivial.add(("stxt", t))
                if o != "fail":
                    unk_fail.append(("seqparse", u, t, o))
        elif tag[0] == "sim":
            t, ref = tag[1], tag[2]
            want = "ok" if res1.get(ref, "").startswith("ok") else "fail"
            if o != want:
                sim_fail.append((t, o, res1.get(ref)))
    # ------------------------------------------------------------------ verdicts
    o_found = False
    sigs = {}
    ev_fail.sort(key=lambda x: (bin(x[1]).count("1"), x[1], x[0]))
    for k, m, text, o in ev_fail[:8]:
        sig, k2, m2, detail = minimise_event(impl, T, k, m)
        if sig in sigs or len(sigs) >= 4:
            continue
        sigs[sig] = 1
        c.report(sig, "Parse(repr()) of KeyEvent(keycode=0x%x '%s', modifier=0x%x) gives %s instead of the same event (text '%s'); %d of %d domain events failed"
                 % (k2, T.keyname(k2), m2, detail.get("parse", detail), detail.get("text", "?"), len(ev_fail), n_ev),
                 {"kind": "event", "keycode": k2, "modifier": m2, "observed": detail, "first_seen": {"keycode": k, "modifier": m, "text_hex": text, "parse": o},
                  "failed": len(ev_fail), "of": n_ev})
        o_found = True
    sigs = {}
    seq_fail.sort(key=lambda x: len(x[0]))
    for evs, text, o in seq_fail[:6]:
        sig, cur, detail = minimise_seq(impl, T, evs)
        if sig in sigs or len(sigs) >= 3:
            continue
        sigs[sig] = 1
        c.report(sig, "KeySequence %s is written as '%s' and parses back as %s; %d of %d domain sequences failed"
                 % (evs_str(cur), detail.get("text", "?"), detail.get("parse", detail), len(seq_fail), n_seq),
                 {"kind": "seq", "events": [list(e) for e in cur], "observed": detail, "failed": len(seq_fail), "of": n_seq})
        o_found = True
    unk_fail.sort(key=lambda x: (len(x[2]), x[2]))
    seen = set()
    for opk, u, t, o in unk_fail:
        sig = "C19:%s-unknown-accepted:%s" % (opk, u)
        if sig in seen:
            continue
        seen.add(sig)
        c.report(sig, "%s accepts text %r although it names an unknown %s: %s (%d such texts)" % (opk, t.decode("latin-1"), u, o, len(unk_fail)),
                 {"kind": "unknown", "op": opk, "text_hex": hx(t), "clause": u, "observed": o})
        o_found = True
    seen = set()
    for op, (kind, a, t, pa, pt, want), o in sorted(bind_fail, key=lambda x: len(x[0])):
        if kind in ("ctor", "seqctor"):
            cls = "KeyEvent" if kind == "ctor" else "KeySequence"
            sig = "C19:ctor:%s" % cls
            if sig not in seen:
                seen.add(sig)
                c.report(sig, "%s(%r) gives %s although %s::Parse of the same text says %s (the constructor must give %s)" % (cls, a.decode("latin-1"), o, cls, pa, want),
                         {"kind": "ctor", "op": kind, "text_hex": hx(a), "observed": o, "expected": want})
                o_found = True
            continue
        user = "navigator" if kind == "nav" else "key_binder-" + ("send" if kind == "send" else "send_sequence")
        clause = "unparsable-text-bound" if (not pa.startswith("ok") or (pt is not None and not pt.startswith("ok"))) else "other-key-than-parsed"
        sig = "C19:binding:%s:%s" % (user, clause)
        if sig in seen:
            continue
        seen.add(sig)
        c.report(sig, "a key binding written as accept=%r%s does %s when the key KeyEvent::Parse gives for it is pressed; Parse says accept -> %s%s, so it must do %s (%d such bindings)"
                 % (a.decode("latin-1"), "" if t is None else " %s=%r" % ("send" if kind == "send" else "send_sequence", t.decode("latin-1")),
                    o, pa, "" if pt is None else ", target -> %s" % pt, want, len(bind_fail)),
                 {"kind": "bind", "bind_kind": kind, "accept_hex": hx(a), "target_hex": None if t is None else hx(t), "observed": o, "expected": want})
        o_found = True
    if sim_fail:
        t, o, ref = sim_fail[0]
        c.report("C19:sim:disagrees-with-KeySequence", "simulate_key_sequence(%r) returns %s but KeySequence::Parse gives %s" % (t.decode("latin-1"), o, ref),
                 {"kind": "sim", "text_hex": hx(t), "observed": o, "seqparse": ref})
        o_found = True
    for op, rc_, log in crashes:
        san = "sanitizer" if rc_ in (98, 99) else "crash"
        c.report("C19:%s:%s" % (san, kind_of(op)), "the implementation dies (rc=%s) on op `%s`" % (rc_, op),
                 {"kind": "crash", "ops": [op], "rc": rc_, "log": log[-3000:]})
        o_found = True
    if mismatches and not o_found:
        kinds = sorted({kind_of(x["op"]) for x in mismatches})
        c.report("C19:correspondence:" + "+".join(kinds), "the Lean model (tables regenerated) and the implementation disagree on %d of %d ops, first: %s"
                 % (len(mismatches), len(all_lines), mismatches[0]),
                 {"kind": "correspondence", "broken": "correspondence driver_c19 vs c19_harness", "first": mismatches[:8]}, no_input=True)
    if not audit["ok"] and not o_found:
        thms = failing_theorems(audit)
        c.report("C19:proof:" + ("+".join(thms) if thms else "build"),
                 "proof obligation no longer checks (%s) and no failing input was found on %d domain events / %d sequences / %d texts: %s"
                 % (", ".join(thms) or "see log", n_ev, n_seq, n_unknown + n_known, "; ".join("%s: %s" % f for f in audit["failures"])[:500]),
                 {"kind": "proof", "broken_theorems": thms, "failures": audit["failures"], "translator": {k: gen[k] for k in ("ok", "problems", "byval_rows", "byname_rows", "independent_count")},
                  "lean_log": audit["log"][-3000:]}, no_input=True)
    # ------------------------------------------------------------------ evidence
    cov = vlib.proof_cov(audit, checker_cmd, vlib.STD_TRUSTED + [
        "translator gen/c19_tables.py (compiled dumper that #includes key_table.cc; counts cross-checked by a source scan)",
        "x86-64 ABI: plain char is signed (size-1 shortcut of KeyEvent::Parse)",
        "std::ostringstream / std::hex / std::string::find as modelled in RimeModel/C19/Model.lean"])
    kinds = {}
    for l in all_lines:
        kinds[kind_of(l)] = kinds.get(kind_of(l), 0) + 1
    samples = []
    for want in ("ev", "seq", "ptxt", "stxt", "evx"):
        for (op, tag), o in zip(ops1, out1):
            if tag[0] == want and (len(o) > 12 if want in ("ev", "seq", "evx") else len(op) > 20):
                samples.append({"op": op, "impl": o, "text": unhx(o).decode("latin-1") if want in ("ev", "seq", "evx") and re.fullmatch(r"[0-9a-f]+", o) else None})
                break
    for (op, tag), o in list(zip(ops2, out2))[:: max(1, len(ops2) // 3)][:3]:
        samples.append({"op": op, "impl": o})
    cov.update({
        "evaluations": impl.evaluations,
        "distinct_nontrivial": len(nontrivial),
        "rule": ("ops on the real code: the four table lookups over every row; repr then Parse of the produced text for every named key code x "
                 "sampled subsets of the %d named modifier bits (%s); KeySequence repr then Parse for every key and random sequences of domain events; "
                 "Parse / KeySequence::Parse of ALL strings up to length %d over {a,+,{,},S,h,i,f,t,0,x}, every single byte, and random longer texts built from "
                 "(mutated) table names; out-of-domain events and sequences for the correspondence only. Non-trivial = distinct domain events whose text has >= 2 bytes "
                 "(general path: '+' split and table scans; distinct by (keycode, mask)), distinct sequences containing a {...} escape, distinct texts naming an unknown key or modifier"
                 % (len(T.named_bits), ("all 2^%d masks x keys %s" % (len(T.named_bits), ["0x%x" % k for k in ginfo["exhaustive_masks_keys"]])) if ginfo["exhaustive_masks_keys"]
                    else "stratified: all masks of <= 2 bits and of all-but-one bit + random subsets for keys %s" % ["0x%x" % k for k in ginfo["special_keys"][:3]],
                    ginfo["alphabet_maxlen"])),
        "samples": samples,
        "ops_by_kind": kinds,
        "domain_events_roundtripped": n_ev, "distinct_domain_events": len(ev_seen),
        "domain_keycodes": len(T.keys), "named_modifier_bits": T.named_bits,
        "exhaustive_masks_for_keys": ginfo["exhaustive_masks_keys"],
        "domain_sequences_roundtripped": n_seq,
        "texts_naming_unknown": n_unknown, "texts_all_names_known": n_known,
        "event_roundtrip_failures": len(ev_fail), "seq_roundtrip_failures": len(seq_fail),
        "unknown_accepted": len(unk_fail), "sim_disagreements": len(sim_fail),
        "binding_cases": len(bind_ops), "binding_failures": len(bind_fail),
        "binding_cases_with_unparsable_text": sum(1 for _, tg in bind_ops if not tg[3].startswith("ok") or (tg[4] is not None and not tg[4].startswith("ok"))),
        "correspondence_ops": len(all_lines), "correspondence_mismatches": len(mismatches),
        "sanitizer_or_crash_reports": len(crashes),
        "translator": {k: gen[k] for k in ("ok", "problems", "byval_rows", "byname_rows", "modifier_slots", "modifier_named",
                                           "independent_count", "distinct_keycodes", "max_name_len", "sha", "kModifierMask", "voidSymbol")},
        "source_hash": vlib.source_hash(SRC_FILES), "generator_version": GENERATOR_VERSION,
        "proof_failures": audit["failures"],
    })
    c.cov = cov
    c.assumptions = [
        "key codes and modifier masks are 32-bit ints; the property's domain is named key codes other than XK_VoidSymbol x subsets of the named modifier bits",
        "plain char is signed (x86-64), as in the build under test",
        "the hand-written Lean model of key_event.cc corresponds to the C++ as far as the differential run shows (tables are generated, not hand-written)",
    ]


def replay(c, r):
    kind = r.get("kind")
    if r.get("no_failing_input_found") or kind in ("proof", "correspondence"):
        print("replay: this file names a broken obligation, no concrete input:", r.get("what"))
        return 1
    impl = Impl(c)
    if kind == "event":
        ok, d = impl.event_roundtrip(r["keycode"], r["modifier"])
        print("replay event keycode=%d modifier=%d -> %s : %s" % (r["keycode"], r["modifier"], d, "ok" if ok else "ROUND TRIP FAILS"))
        return 0 if ok else 1
    if kind == "seq":
        ok, d = impl.seq_roundtrip([tuple(e) for e in r["events"]])
        print("replay seq %s -> %s : %s" % (r["events"], d, "ok" if ok else "ROUND TRIP FAILS"))
        return 0 if ok else 1
    if kind == "unknown":
        rc, o, log = impl.run(["%s %s" % (r["op"], r["text_hex"])])
        bad = rc != 0 or o != ["fail"]
        print("replay %s %r -> %s rc=%d : %s" % (r["op"], unhx(r["text_hex"]), o, rc, "ACCEPTED/CRASH" if bad else "rejected, ok"))
        return 1 if bad else 0
    if kind == "ctor":
        pop = "parse " if r["op"] == "ctor" else "seqparse "
        rc, o, log = impl.run([pop + r["text_hex"], r["op"] + " " + r["text_hex"]])
        want = None
        if rc == 0 and len(o) == 2:
            want = (" ".join(o[0].split()[1:3]) if o[0].startswith("ok ") else "0 0") if r["op"] == "ctor" else (o[0].split(" ", 1)[1] if o[0].startswith("ok ") else "-")
        bad = want is None or o[1] != want
        print("replay %s %r -> %s, Parse says %s : %s" % (r["op"], unhx(r["text_hex"]), o[1:] , o[:1], "CONSTRUCTOR DISAGREES" if bad else "ok"))
        return 1 if bad else 0
    if kind == "bind":
        bk, a, t = r["bind_kind"], r["accept_hex"], r.get("target_hex")
        pre = ["parse " + a] + ([] if bk == "nav" else [("parse " if bk == "send" else "seqparse ") + t])
        rc, o, log = impl.run(pre)
        if rc != 0 or len(o) != len(pre):
            print("replay bind: parsing the texts dies rc=%d" % rc)
            return 1
        probe, want = expect_binding(bk, o[0], o[1] if bk != "nav" else None)
        op = "navbind %s %d %d" % (a, probe[0], probe[1]) if bk == "nav" else "kbind %s %s %s %d %d" % (a, bk, t, probe[0], probe[1])
        rc, o2, log = impl.run([op])
        bad = rc != 0 or o2 != [want]
        print("replay %s : Parse -> %s ; pressing %d:%d -> %s, must be %s : %s" % (op, o, probe[0], probe[1], o2, want, "BINDING WRONG" if bad else "ok"))
        return 1 if bad else 0
    if kind == "sim":
        rc, o, log = impl.run(["seqparse " + r["text_hex"], "sim " + r["text_hex"]])
        bad = rc != 0 or len(o) != 2 or (o[0].startswith("ok") != (o[1] == "ok"))
        print("replay sim %r -> %s rc=%d : %s" % (unhx(r["text_hex"]), o, rc, "DISAGREE" if bad else "ok"))
        return 1 if bad else 0
    if kind == "crash":
        rc, o, log = impl.run(r["ops"])
        print("replay ops %s -> rc=%d %s\n%s" % (r["ops"], rc, o, log[-1500:] if rc else ""))
        return 1 if rc != 0 or len(o) != len(r["ops"]) else 0
    print("replay: unknown replay kind", kind)
    return 1
