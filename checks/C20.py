"""C20 — strings copied into caller buffers are bounded and terminated."""
import os, sys, json, re
import vlib

META = {
    "technique": "Lean 4 theorem over copy sites regenerated from source + guard-byte differential grid",
    "level": "proof",
    "level_text": ("Theorem C20.site_ok: for every copy site extracted from the current rime_api_impl.h / rime_api.cc, "
                   "every source string, buffer image and size n>=1, the modelled statements leave a NUL within n, write "
                   "nothing beyond n and hold a prefix of the source (all of it when it fits). The site list is regenerated "
                   "from the working tree on every run, so a changed or new site changes the Lean term the theorem is about; "
                   "the model of each site is compared byte-for-byte with the real API on a length x size grid with guard bytes."),
    "level_note": ("Trusted: Lean kernel; the regex translator gen/c20_sites.py (fails closed on shapes it does not know; "
                   "its site count is cross-checked by an independent scan; every call of a copy primitive or local copy helper in the "
                   "two files that does not write to the destination parameter of an extracted site and is not the allocate-exactly-"
                   "then-strcpy idiom, and every function with a writable char* parameter that is not an extracted site, becomes an "
                   ".unknown site: C20:stray-copy); ISO C strncpy/snprintf semantics as modelled; "
                   "the harness under ASan+UBSan. Not covered: copy sites outside the two API files."),
    "design_ref": "DESIGN.md §3 C20",
}

SRC_FILES = ["src/rime_api_impl.h", "src/rime_api.cc"]


def monitor(fn, src, n, before, after):
    """The property on the implementation's own output. Returns failing clause or None."""
    if len(after) != len(before):
        return "length"
    if after[n:] != before[n:]:
        return "wrote-beyond-n"
    if 0 not in after[:n]:
        return "no-nul-within-n"
    c = after[:after.index(0)]
    if src[:len(c)] != c:
        return "not-a-prefix"
    if len(src) < n and c != src:
        return "lost-bytes"
    return None


def run_grid(c, maxlen, maxn):
    exe, bdir = vlib.build_harness("c20_harness", "san", ["c20_harness.cc"])
    d = os.path.join(c.work, "ws")
    os.makedirs(d, exist_ok=True)
    rc, out = vlib.sh([exe, d, str(maxlen), str(maxn)], env=vlib.SAN_ENV, timeout=1800)
    rows = []
    for line in out.splitlines():
        p = line.split(" ")
        if len(p) == 6 and p[0].startswith("Rime"):
            rows.append((p[0], p[1], int(p[2]), p[3], p[4], int(p[5])))
    return rc, out, rows


def unhex(h):
    return b"" if h == "-" else bytes.fromhex(h)


def run(c):
    quick = c.tier == "quick"
    maxlen, maxn = (24, 28) if quick else (70, 80)
    # G
    gen_out = os.path.join(vlib.LEAN, "RimeModel", "Gen", "CopySites.lean")
    rc, out = vlib.sh([sys.executable, os.path.join(vlib.ROOT, "gen", "c20_sites.py"), vlib.REPO, gen_out])
    if rc != 0:
        raise vlib.BuildError("translator c20_sites failed: " + out)
    gen = json.loads(out[out.index("{"):])
    site_fns = [s["fn"] for s in gen["sites"]]
    # P
    audit = vlib.lean_audit("C20")
    if not quick and audit["ok"]:
        ok, log = vlib.leanchecker("RimeModel.Props.C20")
        if not ok:
            audit["ok"] = False
            audit["failures"].append(("RimeModel.Props.C20", "leanchecker: " + log))
    rcd, outd = vlib.lake_build(["driver_c20"])
    if rcd != 0:
        raise vlib.BuildError("driver_c20 does not build: " + outd[-3000:])
    # B + K + O
    rc, out, rows = run_grid(c, maxlen, maxn)
    san_abort = rc != 0
    # `Fn#variant` rows reach the site of Fn in another way (missing key, non-string node, long value): the model is the site's
    model_in = "".join("%s %s %d %s\n" % (fn.split("#")[0], s, n, b) for fn, s, n, b, a, r in rows)
    model_out = vlib.run_driver("driver_c20", model_in).splitlines()
    mismatches, o_fail, model_viol = [], {}, {}
    seen_fns, nontrivial = set(), set()
    for (fn, s, n, b, a, r), m in zip(rows, model_out):
        seen_fns.add(fn.split("#")[0])
        src, before, after = unhex(s), unhex(b), unhex(a)
        if len(src) >= n - 1:
            nontrivial.add((fn, len(src), n))
        if str(r) == "0":
            # the call reports that it copied nothing (no such property / key, empty value): the property speaks of the calls
            # that copy; what is demanded here is only that the buffer was left alone
            why = "wrote-although-it-reports-failure" if after != before else None
            if why is None and "#" in fn and fn.split("#")[1] in ("int", "long"):
                why = "stored-string-not-copied"       # a scalar / long string was stored under this key just before
            if why is None and fn == "RimeConfigGetString":
                # the harness stored a string under this key just before (config_set_string succeeded), of whatever length —
                # the empty one included: the getter has a string to copy, "for every string length"
                why = "stored-string-not-copied"
            if why:
                o_fail.setdefault((fn, why), {"fn": fn, "src_hex": s, "src_len": len(src), "n": n, "before": b, "after": a,
                                              "clause": why, "call": "%s(buf, %d) returning false" % (fn, n)})
            continue
        if m != a:
            mismatches.append({"fn": fn, "src": s, "n": n, "before": b, "impl_after": a, "model_after": m})
        why = monitor(fn, src, n, before, after)
        if why:
            o_fail.setdefault((fn, why), {"fn": fn, "src_hex": s, "src_len": len(src), "n": n, "before": b, "after": a,
                                          "clause": why, "call": "%s(buf, %d) with stored string of length %d" % (fn, n, len(src))})
        if m not in ("no-such-site", "bad-op"):
            whym = monitor(fn, src, n, before, unhex(m))
            if whym:
                model_viol.setdefault(fn, {"fn": fn, "src_hex": s, "n": n, "model_after": m, "clause": whym})
    # sites the harness does not drive (new API function): correspondence cannot cover them
    stray = gen.get("stray_copies", [])
    undriven = [f for f in site_fns if f not in seen_fns and "@" not in f]
    # verdicts
    for (fn, why), case in sorted(o_fail.items()):
        c.report("C20:%s:%s" % (fn, why), "%s leaves %s (e.g. string length %d, buffer size %d)" %
                 (fn, why, case["src_len"], case["n"]),
                 {"kind": "impl-violation", "case": case, "replay_args": [case["fn"], case["src_len"], case["n"]]})
    if san_abort:
        c.report("C20:sanitizer", "sanitizer abort / crash in the guard-byte grid",
                 {"kind": "sanitizer", "log": out[-3000:]})
    if mismatches and not o_fail:
        c.report("C20:correspondence", "model of the regenerated sites and the implementation disagree on %d grid points"
                 % len(mismatches), {"kind": "correspondence", "first": mismatches[:5],
                                     "broken": "correspondence driver_c20 vs c20_harness"}, no_input=True)
    for f, line, fn, text in stray[:4]:
        # a copy primitive the translator cannot tie to an extracted site (new function, struct field, alias, other
        # buffer/size parameter shape): the site table gets an `.unknown` entry, C20.site_ok no longer holds for the tree
        c.report("C20:stray-copy:%s" % fn, "%s:%d in %s: `%s` copies into a buffer that is not the destination of any extracted (buffer, size) site; "
                 "it is neither modelled nor driven by the grid" % (f, line, fn, text),
                 {"kind": "proof", "broken_theorems": ["C20.site_ok"], "stray_copies": stray}, no_input=True)
    if undriven and not o_fail:
        c.report("C20:undriven-site", "copy site(s) %s found in the source are not driven by the harness" % undriven,
                 {"kind": "correspondence", "broken": "harness coverage of generated site table", "sites": undriven},
                 no_input=True)
    if not audit["ok"] and not o_fail:
        # proof obligation broken, implementation grid shows no failure
        c.report("C20:proof", "proof obligation no longer checks: %s" % "; ".join("%s: %s" % f for f in audit["failures"])[:600],
                 {"kind": "proof", "broken_theorems": audit["failures"], "model_violations_found": list(model_viol.values()),
                  "lean_log": audit["log"][-3000:]}, no_input=True)
    cov = vlib.proof_cov(audit, "lake build RimeModel.Props.C20 && #print axioms (all theorems) && forbidden-token scan"
                         + ("" if quick else " && leanchecker RimeModel.Props.C20"),
                         vlib.STD_TRUSTED + ["ISO C strncpy/snprintf semantics as modelled in RimeModel/C20/Model.lean",
                                             "translator gen/c20_sites.py"])
    cov.update({
        "evaluations": len(rows), "distinct_nontrivial": len(nontrivial),
        "rule": "grid: every copy site x stored length 0..%d x buffer size 1..%d with 4 guard bytes; non-trivial = string does not fit with room to spare (len >= n-1); distinct by (site, len, n)" % (maxlen, maxn),
        "samples": [dict(zip(["fn", "src", "n", "before", "after", "ret"], r)) for r in rows[:: max(1, len(rows) // 5)][:6]],
        "generated_sites": gen["sites"], "independent_site_count": gen["independent_count"],
        "sites_driven": sorted(seen_fns), "stray_copies": stray,
        "variant_rows": sum(1 for r in rows if "#" in r[0]), "correspondence_mismatches": len(mismatches),
        "impl_monitor_failures": len(o_fail), "model_monitor_failures": len(model_viol),
        "source_hash": vlib.source_hash(SRC_FILES), "proof_failures": audit["failures"],
    })
    c.cov = cov
    c.assumptions = ["source strings contain no NUL (C strings)", "buffer_size >= 1 and the caller buffer really has buffer_size bytes"]


def replay(c, r):
    args = r.get("replay_args")
    if not args:
        print("replay: this file names a broken obligation, no concrete input:", r.get("what"))
        return 1
    fn, ln, n = args
    # variant rows (`Fn#missing`, `#long` ...) are produced whatever the grid bounds are; `#long` ones for their own sizes
    rc, out, rows = run_grid(c, 1, 1 if fn.endswith("#long") else n) if "#" in fn else run_grid(c, ln, n)
    for (f, s, k, b, a, ret) in rows:
        src = unhex(s)
        if f == fn and len(src) == ln and k == n:
            why = monitor(f, src, k, unhex(b), unhex(a)) if str(ret) != "0" else \
                ("wrote-although-it-reports-failure" if a != b else None)
            print("replay %s len=%d n=%d ret=%s before=%s after=%s -> %s" % (f, ln, n, ret, b, a, why or "ok"))
            return 1 if why else 0
    print("replay: case not reproduced")
    return 1
