"""C01 tooling: fuzz op generator with boundary values, the `vs_full` stock-like workspace, schema mutants."""
import os, re, shutil
import vlib
from checks import session_common as sc

INT_EDGES = [0, 1, -1, 0x1f, 0x20, 0x7e, 0x7f, 0x80, 0xff, 0x100, 0xfffe, 0xffff, 0xff08, 0xff0d, 0xff1b, 0xffe1, 0xffe3,
             0xffffff, 0x1000000, 2**31 - 1, -2**31, 2**30, -2**30, 0xffb0, 0xffb9, 0x30, 0x39]
MASK_EDGES = [0, 1, 2, 4, 5, 8, 1 << 26, 1 << 30, (1 << 30) | 1, 0x7fffffff, -1, -2**31, 0xff, 3 << 24]
SIZE_EDGES = [0, 1, 2, 3, 4, 5, 9, 10, 100, 2**31 - 1, 2**31, 2**32 - 1, 2**32, 2**63 - 1, 2**63, 2**64 - 1]
OPTS = ["ascii_mode", "full_shape", "simplification", "zh_simp", "zh_tw", "ascii_punct", "extended_charset", "soft_cursor",
        "_linear", "_vertical", "_horizontal", "_auto_commit", "dumb", "", "x" * 300]


def hx(s):
    return sc.hx(s)


def gen_fuzz(rng, alphabet, n):
    ops = []
    for _ in range(n):
        r = rng.random()
        if r < 0.30:
            ops.append("key %d 0" % ord(rng.choice(alphabet + " ',.;:`1234567890=-/")))
        elif r < 0.40:
            ops.append("key %d %d" % (rng.choice(INT_EDGES + list(sc.XK.values())), rng.choice(MASK_EDGES)))
        elif r < 0.47:
            ops.append("key %d %d" % (rng.choice(list(sc.XK.values())), rng.choice([0, 0, 0, 0, 1, 4, 5, 8])))
            if rng.random() < 0.5:   # editing bursts: navigation followed by deletion / confirmation
                ops.append("key %d 0" % rng.choice([sc.XK["BackSpace"], sc.XK["Delete"], sc.XK["Escape"], sc.XK["space"], sc.XK["Return"]]))
        elif r < 0.52:
            ops.append("%s %d" % (rng.choice(["select", "highlight", "delete"]), rng.choice(SIZE_EDGES)))
        elif r < 0.57:
            ops.append("%s %d" % (rng.choice(["select_page", "highlight_page", "delete_page"]), rng.choice(SIZE_EDGES)))
        elif r < 0.62:
            ops.append("page %s" % rng.choice("+-"))
        elif r < 0.66:
            if rng.random() < 0.3:
                # many segments: a unit of spelling letters and a character no segmentor claims, repeated past the sizes of
                # the bounded histories the engine keeps (the commit history holds 20 records)
                unit = "".join(rng.choice(alphabet) for _ in range(rng.choice([1, 1, 2]))) + rng.choice("1 ;'A/`") * rng.choice([1, 1, 2])
                w = unit * rng.choice([2, 10, 19, 20, 21, 22, 30])
                ops.append("input %s" % hx(w.encode("latin-1")))
                if rng.random() < 0.6:
                    ops.append(rng.choice(["commit", "key 32 0", "key %d 0" % sc.XK["Return"]]))
            else:
                w = "".join(rng.choice(alphabet + "' ;:`A1\x01\xff/") for _ in range(rng.choice([0, 1, 3, 8, 40])))
                ops.append("input %s" % hx(w.encode("latin-1")))
        elif r < 0.70:
            ops.append("caret %d" % rng.choice(SIZE_EDGES))
        elif r < 0.75:
            ops.append("option %s %d" % (hx(rng.choice(OPTS)), rng.randrange(2)))
        elif r < 0.77:
            ops.append("get_option %s" % hx(rng.choice(OPTS)))
        elif r < 0.79:
            ops.append("prop %s %s" % (hx(rng.choice(["k", "", "_x"])), hx(rng.choice(["", "v", "y" * 100]))))
        elif r < 0.81:
            ops.append("get_prop %s %d" % (hx(rng.choice(["k", "", "nope"])), rng.choice([1, 2, 8, 200])))
        elif r < 0.88:
            ops.append("context")
        elif r < 0.90:
            ops.append(rng.choice(["status", "getinput", "schema_list", "find"]))
        elif r < 0.93:
            ops.append("list %d %d" % (rng.choice([0, 1, 5, -1, -2**31, 2**31 - 1, 1000]), rng.choice([0, 1, 7, 50])))
        elif r < 0.95:
            ops.append(rng.choice(["commit", "clear", "read_commit"]))
        elif r < 0.96:
            ops.append("cur_schema %d" % rng.choice([1, 2, 5, 64]))
        elif r < 0.97:
            ops.append("state_label %s %d" % (hx(rng.choice(OPTS)), rng.choice([0, 1, 2, -1, 99])))
        elif r < 0.985:
            ops.append("sim %s" % hx(rng.choice(["abc", "{BackSpace}", "{Shift+a}{Return}", "a{", "{}", "{Control+Delete}", "ni hao{space}"])))
        elif r < 0.997:
            ops.append(rng.choice(["rawid 0", "rawid 1", "rawid 3735928559", "rawid 18446744073709551615", "use 0"]))
        else:
            # the staleness sweep: further sessions exist, the clock (supplied by the harness) passes the life span with or
            # without a call on the current one in between, the sweep erases while it walks the session map, then calls go on
            # with the current id (swept or not) and with a new session (its id may be the address of a swept one)
            ops += ["new", "new", "use 0", "advance %d" % rng.choice([0, 299, 301, 100000])] + \
                   (["key 97 0"] if rng.random() < 0.5 else []) + ["advance %d" % rng.choice([0, 1, 300, 301]), "cleanup", "context",
                                                                  "key 97 0", "status", "new", "key 97 0", "context", "cleanup", "use 0"]
    return ops


def long_input_histories():
    """directed: an input of many segments (translated / untranslated alternating) committed in one go, around the size of the
    commit history (20 records; fix 0abeed3: a record pointer kept across raw segments dangled once the list rotated)"""
    out = []
    for sid, letters in (("vs_script", "ab"), ("vs_full", "na")):
        for sep in ("1", " ", "A", "/", "'"):
            for n in (19, 20, 21, 22, 25, 45):
                for unit in (letters[0] + sep, letters[0] + sep + sep, letters + sep):
                    w = unit * n
                    for fin in ("commit", "key 32 0", "key %d 0" % sc.XK["Return"]):
                        out.append((sid, ["new", "schema " + sid, "input %s" % hx(w.encode()), "context", fin, "read_commit",
                                          "input %s" % hx((unit * 3).encode()), fin, "read_commit", "context"]))
    return out


PIN_ROWS = [("你", "ni", 100), ("好", "hao", 90), ("你好", "ni hao", 80), ("妮", "ni", 10), ("號", "hao", 5), ("嗎", "ma", 50),
            ("媽", "ma", 40), ("你好嗎", "ni hao ma", 30), ("啊", "a", 60), ("阿", "a", 20), ("愛", "ai", 55), ("安", "an", 33),
            ("中", "zhong", 70), ("國", "guo", 66), ("中國", "zhong guo", 61), ("西", "xi", 12), ("安", "an", 3), ("西安", "xi an", 9)]
CJ_ROWS = [("日", "a", 9), ("月", "b", 8), ("明", "ab", 7), ("金", "c", 6), ("木", "d", 5), ("林", "dd", 4), ("森", "ddd", 3), ("水", "e", 2),
           # characters of the pinyin dictionary: what reverse_lookup_filter@cangjie_lookup finds in the reverse db
           ("你", "onf", 1), ("好", "vnd", 1), ("嗎", "rsqf", 1), ("啊", "rnlr", 1), ("中", "l", 1), ("國", "wirm", 1), ("安", "jv", 1), ("西", "mcw", 1)]


# an extension pack of the pinyin dictionary (`translator/packs`): its table is a second Table object of the dictionary, shared
# between the sessions through the dictionary component like the primary one; the entries rank first so that they show on the
# first page
PACK_ROWS = [("妳", "ni", 900), ("蚝", "hao", 800), ("妳好", "ni hao", 700), ("碼", "ma", 600), ("錒", "a", 500)]


def make_full_workspace(d, user_dict=True, second_prism=False, fix_order=True, packs=False):
    """a stock-like workspace: luna_pinyin's schema structure (all stock components) over tiny dictionaries"""
    shutil.rmtree(d, ignore_errors=True)
    os.makedirs(d)
    src = os.path.join(vlib.REPO, "data", "minimal")
    default = open(os.path.join(src, "default.yaml"), encoding="utf-8").read()
    default = re.sub(r"schema_list:\n(  - schema: \w+\n)+", "schema_list:\n  - schema: vs_full\n  - schema: vs_script\n", default)
    open(os.path.join(d, "default.yaml"), "w", encoding="utf-8").write(default)
    shutil.copy(os.path.join(src, "symbols.yaml"), d)
    s = open(os.path.join(src, "luna_pinyin.schema.yaml"), encoding="utf-8").read()
    s = s.replace("schema_id: luna_pinyin", "schema_id: vs_full").replace("dictionary: luna_pinyin", "dictionary: vs_pin") \
         .replace("dictionary: cangjie5", "dictionary: vs_cj")
    s += "\nmenu:\n  page_size: 4\n  alternative_select_labels: [ ①, ②, ③, ④ ]\n"
    # the dependency is what makes the deployment compile the second dictionary (cangjie / reverse lookup / cangjie_lookup)
    assert "\nschema:\n" in s and "dependencies" not in s
    s = s.replace("\nschema:\n", "\nschema:\n  dependencies:\n    - vs_cjs\n", 1)
    with open(os.path.join(d, "vs_cjs.schema.yaml"), "w", encoding="utf-8") as f:
        f.write("schema:\n  schema_id: vs_cjs\n  name: cj\n  version: '1'\nengine:\n  processors: [speller, selector, navigator, express_editor]\n"
                "  segmentors: [abc_segmentor, fallback_segmentor]\n  translators: [table_translator]\n"
                "translator:\n  dictionary: vs_cj\n  enable_user_dict: false\n")
    if not user_dict:   # learning disabled (C16)
        s = s.replace("translator:\n  dictionary: vs_pin", "translator:\n  dictionary: vs_pin\n  enable_user_dict: false")
        s = s.replace("  dictionary: vs_cj\n  prefix: 'C:'", "  dictionary: vs_cj\n  enable_user_dict: false\n  prefix: 'C:'")
    if packs:
        assert "translator:\n  dictionary: vs_pin" in s
        s = s.replace("translator:\n  dictionary: vs_pin", "translator:\n  dictionary: vs_pin\n  packs:\n    - vs_pin_extra", 1)
        with open(os.path.join(d, "vs_pin_extra.dict.yaml"), "w", encoding="utf-8") as f:
            f.write("---\nname: vs_pin_extra\nversion: '1'\nsort: by_weight\nuse_preset_vocabulary: false\n...\n\n" +
                    "".join("%s\t%s\t%d\n" % r for r in PACK_ROWS))
    open(os.path.join(d, "vs_full.schema.yaml"), "w", encoding="utf-8").write(s)
    if second_prism:
        # a second schema on the SAME dictionary with its own prism (no abbreviations in its spelling algebra): the
        # dictionary component caches tables and prisms per name while some session still uses them
        s2 = s.replace("schema_id: vs_full", "schema_id: vs_full2")
        s2 = re.sub(r"\n    - abbrev/[^\n]*", "", s2)
        s2 = s2.replace("translator:\n  dictionary: vs_pin", "translator:\n  dictionary: vs_pin\n  prism: vs_full2", 1)
        assert "prism: vs_full2" in s2
        open(os.path.join(d, "vs_full2.schema.yaml"), "w", encoding="utf-8").write(s2)
        default = default.replace("  - schema: vs_script\n", "  - schema: vs_full2\n  - schema: vs_script\n")
        # the `select: .next` hotkey applies the second entry of the switcher's schema list; with the list in its fixed
        # order that entry depends on the session's own schema only (by default it is the persisted recency order, which
        # every session's schema change updates)
        if fix_order:
            default = default.replace("switcher:\n", "switcher:\n  fix_schema_list_order: true\n", 1)
            assert "fix_schema_list_order" in default
        open(os.path.join(d, "default.yaml"), "w", encoding="utf-8").write(default)
    open(os.path.join(d, "vs_script.schema.yaml"), "w").write(sc.schema_yaml("vs_script", sc.SCHEMAS["vs_script"]))
    with open(os.path.join(d, "vs_pin.dict.yaml"), "w", encoding="utf-8") as f:
        f.write("---\nname: vs_pin\nversion: '1'\nsort: by_weight\n...\n\n" + "".join("%s\t%s\t%d\n" % r for r in PIN_ROWS))
    with open(os.path.join(d, "vs_cj.dict.yaml"), "w", encoding="utf-8") as f:
        f.write("---\nname: vs_cj\nversion: '1'\nsort: by_weight\ncolumns:\n  - text\n  - code\n  - weight\n...\n\n"
                + "".join("%s\t%s\t%d\n" % r for r in CJ_ROWS))
    return d


def make_table_workspace(d, user_dict=True):
    """a second stock-like workspace: cangjie5's schema structure (table translator with the phrase encoder and the commit
    history, express editor) over the tiny cangjie dictionary; phrases learnt from the commit history rank AFTER the table's
    exact entries, so a learnt phrase can be the last candidate of a menu"""
    shutil.rmtree(d, ignore_errors=True)
    os.makedirs(d)
    src = os.path.join(vlib.REPO, "data", "minimal")
    default = open(os.path.join(src, "default.yaml"), encoding="utf-8").read()
    default = re.sub(r"schema_list:\n(  - schema: \w+\n)+", "schema_list:\n  - schema: vs_cjfull\n  - schema: vs_script\n", default)
    default = default.replace("switcher:\n", "switcher:\n  fix_schema_list_order: true\n", 1)
    open(os.path.join(d, "default.yaml"), "w", encoding="utf-8").write(default)
    shutil.copy(os.path.join(src, "symbols.yaml"), d)
    s = open(os.path.join(src, "cangjie5.schema.yaml"), encoding="utf-8").read()
    s = s.replace("schema_id: cangjie5", "schema_id: vs_cjfull").replace("dictionary: cangjie5", "dictionary: vs_cj") \
         .replace("dictionary: luna_pinyin", "dictionary: vs_pin").replace("    - luna_pinyin\n", "")
    s = s.replace("  dependencies:\n", "")
    s += "\nmenu:\n  page_size: 4\n"
    if not user_dict:
        s = s.replace("translator:\n  dictionary: vs_cj", "translator:\n  dictionary: vs_cj\n  enable_user_dict: false")
    assert "schema_id: vs_cjfull" in s and "dictionary: vs_cj" in s and "dictionary: vs_pin" in s
    open(os.path.join(d, "vs_cjfull.schema.yaml"), "w", encoding="utf-8").write(s)
    open(os.path.join(d, "vs_script.schema.yaml"), "w").write(sc.schema_yaml("vs_script", sc.SCHEMAS["vs_script"]))
    with open(os.path.join(d, "vs_pin.dict.yaml"), "w", encoding="utf-8") as f:
        f.write("---\nname: vs_pin\nversion: '1'\nsort: by_weight\n...\n\n" + "".join("%s\t%s\t%d\n" % r for r in PIN_ROWS))
    with open(os.path.join(d, "vs_cj.dict.yaml"), "w", encoding="utf-8") as f:
        f.write("---\nname: vs_cj\nversion: '1'\nsort: by_weight\ncolumns:\n  - text\n  - code\n  - weight\n"
                "encoder:\n  rules:\n    - length_equal: 2\n      formula: \"AaBa\"\n    - length_in_range: [3, 5]\n      formula: \"AaBaCa\"\n...\n\n"
                + "".join("%s\t%s\t%d\n" % r for r in CJ_ROWS))
    open(os.path.join(d, ".fresh_userdb"), "w").close()      # session_common.run_impl empties the user dictionary before every run
    return d


def gen_table_history(rng, n):
    """keys and calls for the table-translator workspace: codes over a-e, confirmations (the encoder learns phrases from
    consecutive commits), paging / highlight moves, deletion of the highlighted or of an indexed candidate, editing keys"""
    XK = sc.XK
    codes = ["a", "b", "ab", "c", "d", "dd", "ddd", "e", "ba", "abc", "de", "aa"]
    ops = []
    while len(ops) < n:
        r = rng.random()
        if r < 0.34:
            for ch in rng.choice(codes):
                ops.append("key %d 0" % ord(ch))
            if rng.random() < 0.6:
                ops.append("key %d 0" % XK["space"])
        elif r < 0.50:
            ops.append("key %d 0" % rng.choice([XK["Down"], XK["Down"], XK["Up"], XK["Next"], XK["Prior"], XK["End"], XK["Home"]]))
        elif r < 0.62:
            ops.append(rng.choice(["key %d 4" % XK["Delete"], "key %d 4" % XK["Delete"], "delete %d" % rng.randrange(4),
                                   "delete_page %d" % rng.randrange(4)]))
        elif r < 0.72:
            ops.append("key %d 0" % rng.choice([XK["space"], XK["Return"], XK["BackSpace"], XK["Escape"], XK["Left"], XK["Right"]]))
        elif r < 0.80:
            ops.append("key %d 0" % ord(rng.choice("12345")))
        elif r < 0.88:
            ops.append(rng.choice(["select %d" % rng.randrange(4), "highlight %d" % rng.randrange(5), "highlight_page %d" % rng.randrange(4),
                                   "page +", "page -"]))
        elif r < 0.93:
            ops.append(rng.choice(["commit", "clear", "caret %d" % rng.randrange(4)]))
        elif r < 0.97:
            ops.append("key %d 0" % ord(rng.choice(",.;/")))
        else:
            ops.append("read_commit")
    return ops


def table_directed_histories():
    """a phrase learnt from two commits in a row, found again under the joint code, walked to and deleted — by the hotkey and
    through the API, as the last candidate and not; then the menu is read again"""
    XK = sc.XK
    sp, dn, cdel = "key %d 0" % XK["space"], "key %d 0" % XK["Down"], "key %d 4" % XK["Delete"]
    k = lambda w: ["key %d 0" % ord(ch) for ch in w]
    hs = []
    for first, second in (("a", "b"), ("d", "d"), ("c", "e"), ("dd", "d")):
        learn = k(first) + [sp] + k(second) + [sp, "read_commit"]
        for walk in ([], [dn], [dn, dn], [dn, dn, dn]):
            for kill in ([cdel], ["delete 0"], ["delete 1"], ["delete 2"], ["delete_page 1"]):
                hs.append(learn + k(first + second) + walk + kill + [dn, "key %d 0" % XK["Up"], sp, "read_commit"] +
                          k(first + second) + [sp, "read_commit"])
    return hs


MUT_KINDS = ["null", "scalar:x", "scalar:-1", "scalar:0", "scalar:1", "scalar:99999999999", "scalar:", "emptylist", "emptymap", "list1", "map1", "listmap"]
SHORT_HISTORY = ["new", "schema {sid}", "context", "key 110 0", "key 105 0", "context", "key 104 0", "key 97 0", "key 111 0", "context",
                 "list 0 20", "page +", "context", "page -", "highlight 1", "select_page 1", "context", "key 32 0", "read_commit",
                 "key 97 0", "key 98 0", "key 65288 0", "key 65307 0", "key 46 0", "context", "key 49 0", "key 58 0", "key 97 0",
                 "key 59 0", "context", "key 96 0", "key 97 0", "context", "clear", "option {opt} 1", "key 97 0", "context",
                 "option {opt} 0", "status", "state_label {opt} 1", "key 65505 0", "key 65505 1073741824", "key 97 0", "context",
                 "key 65293 0", "read_commit", "key 65473 0", "context", "list 0 9", "key 65364 0", "context", "key 49 0", "context",
                 "key 65473 0", "context", "key 50 0", "context", "key 65473 0", "key 65364 0", "key 65364 0", "key 32 0", "context",
                 "key 96 4", "context", "key 65307 0", "state_label {zh} 1", "option {zh} 1", "key 110 0", "key 105 0", "context",
                 "state_label {zh} 0", "option {zh} 0", "context", "key 65307 0", "schema_list", "status",
                 "sim {sim}", "context", "commit", "cur_schema 64", "schema vs_script", "key 97 0", "context", "schema {sid}", "context",
                 # the switcher hotkey pressed again while its menu is open (HighlightNextSchema walks the menu), then a selection
                 "key 65473 0", "key 65473 0", "context", "key 65473 0", "key 65473 0", "key 65473 0", "context", "key 32 0", "context",
                 "key 96 4", "key 96 4", "key 96 4", "context", "key 65307 0", "context"] + \
    [x for ch in "/\\|~`'\"<>[]{{}}$^*%@#&=+-_:;!?" for x in ("key %d 0" % ord(ch), "context", "key %d 0" % ord(ch), "context", "key %d 0" % ord(ch), "key 32 0", "read_commit")]


def short_history(sid):
    return [l.format(sid=sid, opt=hx("ascii_mode"), zh=hx("zh_simp"), sim=hx("ni hao{space}")) for l in SHORT_HISTORY]


# ---------------------------------------------------------------- state that outlives one call: mode switches x schema change
MODE_STEPS = {
    "ShiftL": ["key 65505 0", "key 65505 1073741824"],        # inline_ascii in the stock ascii_composer
    "ShiftR": ["key 65506 0", "key 65506 1073741824"],        # commit_text
    "Caps": ["key 65509 0", "key 65509 1073741824"],          # clear
    "CtrlL": ["key 65507 0", "key 65507 1073741828"],         # noop
    "ascii0": ["option {a} 0"], "ascii1": ["option {a} 1"],
    "toggle": ["key 50 5"],                                   # Control+Shift+2: key_binder's ascii_mode toggle
}


def mode_grid(depth):
    """every sequence of at most `depth` mode switches (modifier taps the ascii_composer binds, the ascii_mode option set
    directly and through the key binder), applied while a composition is open, followed by a change of schema (which
    destroys the processors while their notifier connections may still be live), a key, Escape, and the way back.
    One session per sequence; returns the script lines."""
    import itertools
    names = sorted(MODE_STEPS)
    lines, n = [], 0
    for k in range(1, depth + 1):
        for seq in itertools.product(names, repeat=k):
            lines += ["new", "schema vs_full", "key 110 0", "key 105 0"]
            for nm in seq:
                lines += [x.format(a=hx("ascii_mode")) for x in MODE_STEPS[nm]]
            lines += ["context", "schema vs_script", "key 97 0", "key 65307 0", "context", "schema vs_full", "key 110 0", "context",
                      "key 65307 0", "destroy %d" % n]
            n += 1
    return lines, n


def make_single_schema_workspace(d):
    """the stock-like workspace with ONE schema in schema_list (the switcher's menu then has no other schema to offer)"""
    make_full_workspace(d)
    p = os.path.join(d, "default.yaml")
    t = open(p, encoding="utf-8").read()
    t = t.replace("  - schema: vs_script\n", "")
    open(p, "w", encoding="utf-8").write(t)
    return d


# ------------------------------------------------------------------ commit history (lean/RimeModel/C01/History.lean)
def gen_history_ops(rng, n):
    """call sequences for the real CommitHistory and its model: records, keys, compositions of many segments (translated
    and untranslated mixed, equal and different candidate types, confirmed or not), sized around kMaxRecords = 20"""
    types = [b"phrase", b"p", b"raw", b"punct", b"thru", b""]
    ops = []
    for _ in range(n):
        r = rng.random()
        if r < 0.05:
            ops.append("reset")
        elif r < 0.2:
            ops.append("rec %s %s" % (hx(rng.choice(types)), hx(rng.choice([b"", b"x", "字".encode(), b"ab"]))))
        elif r < 0.45:
            k = rng.choice([0x20, 0x7e, 0x7f, 0x1f, 97, 49, 0xff08, 0xff0d, 0xff1b, 0, 0xffffff, 65])
            ops.append("key %d %d" % (k, rng.choice([0, 0, 0, 1, 4, 1 << 30])))
        else:
            nseg = rng.choice([0, 1, 2, 3, 5, 19, 20, 21, 22, 23, 41, 45])
            inp = bytes(rng.choice(b"ab1 '") for _ in range(rng.choice([0, 1, nseg, 2 * nseg, 2 * nseg + 3])))
            segs, pos = [], 0
            style = rng.choice(["alt", "rawrun", "mixed", "cands"])
            for i in range(nseg):
                ln = rng.choice([0, 1, 1, 2])
                start, stop = pos, pos + ln
                if rng.random() < 0.04:
                    start, stop = rng.choice([(pos + 1, pos), (len(inp) + 1, len(inp) + 2), (pos, pos)])   # odd geometry
                if style == "alt":
                    cand = i % 2 == 0 or i == nseg - 1
                elif style == "rawrun":
                    cand = i == 0 or i == nseg - 1
                elif style == "cands":
                    cand = True
                else:
                    cand = rng.random() < 0.5
                if cand:
                    ty = rng.choice(types[:2]) if style != "mixed" else rng.choice(types)
                    tx = rng.choice([b"A", "字".encode(), b"", b"xy"])
                    conf = 1 if rng.random() < 0.15 else 0
                    segs.append("%d,%d,%d,%s,%s,%d" % (start, stop, conf, hx(ty) if ty else "-", hx(tx), rng.choice([stop, stop, start, stop + 1])))
                else:
                    segs.append("%d,%d,%d,~,-,0" % (start, stop, rng.randrange(2)))
                pos = stop if stop >= pos else pos
            ops.append("comp %s %s" % (hx(inp), ";".join(segs) if segs else "-"))
    return ops


def history_directed():
    """the shapes of fix 0abeed3: a candidate, n untranslated segments, a candidate of the same type — n around the bound"""
    out = []
    for n in (0, 1, 18, 19, 20, 21, 25):
        segs = ["0,1,0,%s,%s,1" % (hx(b"p"), hx(b"A"))]
        segs += ["%d,%d,0,~,-,0" % (1 + 2 * i, 2 + 2 * i) for i in range(n)]
        segs += ["%d,%d,0,%s,%s,%d" % (1 + 2 * n, 2 + 2 * n, hx(b"p"), hx(b"B"), 2 + 2 * n)]
        out += ["reset", "comp %s %s" % (hx(b"a1" * (n + 1)), ";".join(segs))]
        out += ["rec %s %s" % (hx(b"raw"), hx(b"x"))] * 3 + ["comp %s %s" % (hx(b"a1" * (n + 1)), ";".join(segs))]
    return out
